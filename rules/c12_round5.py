"""C12 round 5 - R12.50: a field that mixes a container with scalars holds the declared container.

msgspec never validates what a constructor stores in a struct field; it encodes
what it finds and decodes by the *declared* annotation.  A field declared
`... | tuple[str, ...] | None` (pytd.Constant.value: the names of `__all__`)
that holds a `list` encodes as the same msgpack array, decodes as a tuple and
`['f', 'g'] != ('f', 'g')`: decode(encode(ast)) differs from the original, and
the node that holds the list is unhashable.  R12.6 decides this for
Literal.value; R12.50 decides it for every other node field whose annotation
mixes a builtin container with other alternatives, and adds what that needs:
when the stored expression reads an *instance attribute* (an accumulator such
as `Definitions.all`), the attribute's type is the union over ALL its writers
(`x.A = e` anywhere in the package, augmented assignments keep the kind:
`list += tuple` stays a list, `tuple += tuple` a tuple), and a call of a
module-level function has the union of the types it returns.
"""
import ast

from sa.core import rule, AnalysisError
from sa.pyindex import get_module, dotted, src, kwarg, calls_in, all_py_files
from sa import flow
from rules._pytd_schema import get_schema, reaching, defs_at
from rules.c12 import (_ArgTypes, _ATOM_ADMITS, _UNK, _u, _is_testfile,
                       _qualname)

_BUILTIN_CONTAINERS = {"tuple": "tuple", "Tuple": "tuple", "list": "list",
                       "List": "list", "set": "set", "Set": "set",
                       "frozenset": "frozenset", "FrozenSet": "frozenset",
                       "dict": "dict", "Dict": "dict"}
# x op= y on a builtin sequence: the result has the class of x (or raises)
_KIND_PRESERVING = {"tuple": (ast.Add, ast.Mult), "list": (ast.Add, ast.Mult),
                    "str": (ast.Add, ast.Mult), "bytes": (ast.Add, ast.Mult),
                    "set": (ast.BitOr, ast.BitAnd, ast.Sub, ast.BitXor),
                    "dict": (ast.BitOr,)}
_SKIP = "/typeshed/"


def _alternatives(sch, ann, depth=0):
  """Top-level alternatives of an annotation, union aliases opened."""
  if depth > 12:
    raise AnalysisError("annotation alias cycle")
  if isinstance(ann, ast.Constant) and isinstance(ann.value, str):
    try:
      return _alternatives(sch, ast.parse(ann.value, mode="eval").body, depth + 1)
    except SyntaxError as e:
      raise AnalysisError(f"unparsable string annotation {ann.value!r}") from e
  if isinstance(ann, ast.BinOp) and isinstance(ann.op, ast.BitOr):
    return _alternatives(sch, ann.left, depth + 1) + _alternatives(sch, ann.right, depth + 1)
  if isinstance(ann, ast.Subscript):
    base = (dotted(ann.value) or "").split(".")[-1]
    elts = ann.slice.elts if isinstance(ann.slice, ast.Tuple) else [ann.slice]
    if base == "Union":
      return [a for e in elts for a in _alternatives(sch, e, depth + 1)]
    if base == "Optional":
      return [ast.Constant(None)] + _alternatives(sch, elts[0], depth + 1)
    return [ann]
  d = dotted(ann)
  if d is not None and d in sch.aliases and d.split(".")[-1] not in sch.classes:
    return _alternatives(sch, sch.aliases[d], depth + 1)
  return [ann]


def _declared(sch, ann):
  """(admitted value classes, declared containers, open) of a field."""
  allowed, containers = set(), set()
  for alt in _alternatives(sch, ann):
    if isinstance(alt, ast.Subscript):
      base = (dotted(alt.value) or "").split(".")[-1]
      if base not in _BUILTIN_CONTAINERS:
        return set(), set(), True
      containers.add(_BUILTIN_CONTAINERS[base])
      continue
    members, atoms = sch.expand(alt)
    if atoms & {"Any", "object"}:
      return set(), set(), True
    for m in members:
      allowed.add(f"node:{m}")
      allowed |= {f"node:{s}" for s in sch.concrete_subclasses(m)}
    for a in atoms:
      if a in _BUILTIN_CONTAINERS:
        containers.add(_BUILTIN_CONTAINERS[a])
      elif a in _ATOM_ADMITS:
        allowed |= _ATOM_ADMITS[a]
      else:
        return set(), set(), True
  return allowed | containers, containers, False


def _targets(sch):
  """(class, field) pairs: concrete node class, closed annotation that offers
  a builtin container next to at least one other (non-None) alternative."""
  out = []
  for cname in sorted(sch.classes):
    if sch.is_abstract(cname):
      continue
    for fname, (ann, _, _) in sch.fields(cname).items():
      try:
        allowed, containers, open_ = _declared(sch, ann)
      except AnalysisError:
        continue
      if open_ or not containers:
        continue
      if allowed - containers - {"NoneType"}:
        out.append((cname, fname, ann, allowed))
  return out


class _Types(_ArgTypes):
  """_ArgTypes + instance attributes through all their writers + returns of
  module-level functions."""

  _attr_memo = None

  def _call(self, call, stmt, fn, depth):
    res = super()._call(call, stmt, fn, depth)
    if res != _UNK or not isinstance(call.func, ast.Name) or depth >= 4:
      return res
    name = call.func.id
    if fn is not None and not isinstance(fn, ast.Lambda) and \
        _binds_locally(fn, name):
      return _UNK
    defs = [s for s in self.mod.tree.body
            if isinstance(s, (ast.FunctionDef, ast.ClassDef, ast.AsyncFunctionDef))
            and s.name == name]
    rebinds = [n for n in ast.walk(self.mod.tree)
               if isinstance(n, ast.Name) and n.id == name
               and isinstance(n.ctx, (ast.Store, ast.Del))]
    if len(defs) != 1 or rebinds or not isinstance(defs[0], ast.FunctionDef) \
        or defs[0].decorator_list:
      return _UNK
    return self.returns_of(defs[0], depth)

  def returns_of(self, f, depth):
    if any(isinstance(n, (ast.Yield, ast.YieldFrom)) and
           self.mod.enclosing_function(n) is f for n in ast.walk(f)):
      return _UNK
    one = lambda t: (frozenset({t}), False)
    acc = (frozenset(), False)
    rets = [n for n in ast.walk(f) if isinstance(n, ast.Return)
            and self.mod.enclosing_function(n) is f]
    if not rets or not flow.terminates(f.body):
      acc = _u(acc, one("NoneType"))
    for r in rets:
      acc = _u(acc, one("NoneType") if r.value is None
               else self.infer(r.value, r, depth + 2))
    return acc

  def _attribute(self, expr, stmt, fn):
    res = super()._attribute(expr, stmt, fn)
    if res != _UNK:
      return res
    owner = self._self_class(expr, fn)
    if owner is None:
      return _UNK
    return attribute_types(self.ctx, self.sch, self.mod, owner, expr.attr)[0]

  def _self_class(self, expr, fn):
    meth = fn
    while meth is not None and not isinstance(self.mod.parent.get(meth), ast.ClassDef):
      meth = self.mod.enclosing_function(meth)
    if meth is None or isinstance(meth, ast.Lambda) or not meth.args.args or \
        not isinstance(expr.value, ast.Name) or expr.value.id != meth.args.args[0].arg:
      return None
    if any(dotted(d) in ("staticmethod", "classmethod") for d in meth.decorator_list):
      return None
    return self.mod.parent[meth]


def _binds_locally(fn, name):
  for n in ast.walk(fn):
    if isinstance(n, ast.Name) and n.id == name and isinstance(n.ctx, (ast.Store, ast.Del)):
      return True
    if isinstance(n, ast.arg) and n.arg == name:
      return True
  return False


def _enclosing_method_class(mod, node):
  """(class, self name) of the method `node` stands in, else (None, None)."""
  meth = mod.enclosing_function(node)
  while meth is not None and not isinstance(mod.parent.get(meth), ast.ClassDef):
    meth = mod.enclosing_function(meth)
  if meth is None or isinstance(meth, ast.Lambda) or not meth.args.args:
    return None, None
  return mod.parent[meth], meth.args.args[0].arg


def _constructs(mod, expr, owner_mod, owner_cls):
  """Is `expr` a call of the owner class (by import resolution)?"""
  if not isinstance(expr, ast.Call):
    return False
  d = dotted(expr.func)
  if d is None:
    return False
  head, _, last = d.rpartition(".")
  if last != owner_cls.name:
    return False
  owner_dotted = owner_mod.rel[:-3].replace("/", ".")
  if not head:
    return (mod.rel == owner_mod.rel or
            mod.imports.get(last, "").endswith(f"{owner_dotted}.{last}"))
  return mod.imports.get(head, "") == owner_dotted


def _receiver_is(mod, recv, cls, me, owner_mod, owner_cls):
  """`self.F` where every store to self.F in the class binds a freshly
  constructed owner instance (directly or through one local)."""
  if cls is None or not (isinstance(recv, ast.Attribute) and isinstance(recv.value, ast.Name)
                         and recv.value.id == me):
    return False
  stores = [n for n in ast.walk(cls) if isinstance(n, ast.Attribute) and n.attr == recv.attr
            and isinstance(n.ctx, (ast.Store, ast.Del))]
  if not stores:
    return False
  for n in stores:
    st = mod.parent.get(n)
    if not (isinstance(st, ast.Assign) and n in st.targets and len(st.targets) == 1):
      return False
    val = st.value
    if isinstance(val, ast.Name):
      fn = mod.enclosing_function(st)
      if fn is None or isinstance(fn, ast.Lambda):
        return False
      defs = defs_at(reaching(fn), st, val.id)
      if len(defs) != 1 or not (isinstance(defs[0], ast.Assign)
                                and len(defs[0].targets) == 1
                                and isinstance(defs[0].targets[0], ast.Name)):
        return False
      val = defs[0].value
    if not _constructs(mod, val, owner_mod, owner_cls):
      return False
  return True


def attribute_types(ctx, sch, owner_mod, owner_cls, attr):
  """Types an instance attribute `attr` of `owner_cls` can hold: the union over
  every store to an attribute of that name in the package (non-test).

  Returns ((types, unknown), writers) where writers = [(rel, line, how, types,
  certain)]; `certain` = the receiver is `self` in a method of the class."""
  key = ("R12.50-attr", owner_mod.rel, owner_cls.name, attr)

  def compute():
    for st in owner_cls.body:
      if isinstance(st, (ast.FunctionDef, ast.AsyncFunctionDef)) and st.name in (
          "__setattr__", "__getattr__", "__getattribute__", attr):
        raise AnalysisError(f"{owner_cls.name}.{attr}: not a plain instance "
                            f"attribute (the class defines {st.name})")
      if isinstance(st, (ast.Assign, ast.AnnAssign)) and any(
          isinstance(t, ast.Name) and t.id == attr
          for t in (st.targets if isinstance(st, ast.Assign) else [st.target])):
        raise AnalysisError(f"{owner_cls.name}.{attr}: also bound at class level")
    needle = f".{attr}"
    plain, augs, writers = [], [], []
    for rel in all_py_files(ctx):
      if _is_testfile(rel) or _SKIP in rel:
        continue
      text = ctx.read(rel)
      if needle not in text and f'"{attr}"' not in text and f"'{attr}'" not in text:
        continue
      mod = get_module(ctx, rel)
      inf = None
      for n in ast.walk(mod.tree):
        if isinstance(n, ast.Call) and dotted(n.func) in ("setattr", "object.__setattr__") \
            and len(n.args) >= 2 and isinstance(n.args[1], ast.Constant) \
            and n.args[1].value == attr:
          raise AnalysisError(f"{rel}:{n.lineno}: setattr(.., {attr!r}, ..): "
                              "writer not understood")
        if not (isinstance(n, ast.Attribute) and n.attr == attr
                and isinstance(n.ctx, (ast.Store, ast.Del))):
          continue
        cls, me = _enclosing_method_class(mod, n)
        is_self = isinstance(n.value, ast.Name) and cls is not None and n.value.id == me
        if is_self:
          related = (rel == owner_mod.rel and cls.name == owner_cls.name) or any(
              (dotted(b) or "").split(".")[-1] == owner_cls.name for b in cls.bases) or any(
              (dotted(b) or "").split(".")[-1] == cls.name for b in owner_cls.bases)
          if not related:
            continue   # an attribute of the same name on another class
        certain = (is_self and rel == owner_mod.rel and cls.name == owner_cls.name) \
            or (not is_self and _receiver_is(mod, n.value, cls, me, owner_mod, owner_cls))
        st = mod.parent.get(n)
        inf = inf or _Types(ctx, mod, sch)
        if isinstance(st, ast.Assign) and n in st.targets:
          plain.append((rel, st, inf.infer(st.value, st, 2), certain))
        elif isinstance(st, ast.AnnAssign) and st.target is n:
          if st.value is not None:
            plain.append((rel, st, inf.infer(st.value, st, 2), certain))
        elif isinstance(st, ast.AugAssign) and st.target is n:
          augs.append((rel, st, certain))
        else:
          raise AnalysisError(
              f"{rel}:{n.lineno}: `{src(n)}` is bound by a construct this rule "
              "does not read (unpacking / loop / with / del)")
    if not plain:
      raise AnalysisError(f"no plain assignment to `.{attr}` found")
    acc = (frozenset(), False)
    for rel, st, ty, certain in plain:
      acc = _u(acc, ty)
      writers.append((rel, st.lineno, "=", ty, certain))
    for rel, st, certain in augs:
      # x.A op= e keeps the class of x.A for the builtin sequences/sets
      lost = [t for t in acc[0] if not isinstance(st.op, _KIND_PRESERVING.get(t, ()))]
      if lost:
        acc = (acc[0], True)
      writers.append((rel, st.lineno, type(st.op).__name__ + "=", acc, certain))
    return acc, writers

  busy = ctx.memo(("R12.50-busy",), set)
  if key in busy:
    return _UNK, []      # the attribute's own value inside one of its writers
  busy.add(key)
  try:
    return ctx.memo(key, compute)
  finally:
    busy.discard(key)


@rule("R12.50", "C12", floor=5)
def r12_50(ctx):
  """What a constructor stores in a node field declared `container | scalars` (Constant.value) is of a declared class, instance attributes followed through all their writers."""
  sch = get_schema(ctx)
  targets = _targets(sch)
  if not targets:
    raise AnalysisError("no node field mixes a builtin container with other "
                        "alternatives: rule premise changed")
  by_class = {}
  for cname, fname, ann, allowed in targets:
    if (cname, fname) == ("Literal", "value"):
      continue
    by_class.setdefault(cname, []).append((fname, ann, allowed))
  n = 0
  for rel in all_py_files(ctx):
    if _is_testfile(rel) or _SKIP in rel:
      continue
    text = ctx.read(rel)
    if not any(f"{c}(" in text for c in by_class):
      continue
    mod = get_module(ctx, rel)
    inf = _Types(ctx, mod, sch)
    for call in calls_in(mod.tree):
      target = inf.node_class(call.func)
      if target not in by_class:
        continue
      if any(isinstance(a, ast.Starred) for a in call.args) or \
          any(k.arg is None for k in call.keywords):
        raise AnalysisError(f"{rel}:{call.lineno}: pytd.{target}(*args/**kw): "
                            "arguments not readable")
      order = list(sch.fields(target))
      for field, ann, allowed in by_class[target]:
        pos = order.index(field)
        arg = kwarg(call, field)
        if arg is None and len(call.args) > pos:
          arg = call.args[pos]
        if arg is None:
          continue     # the declared default
        stmt = mod.enclosing_stmt(call)
        types, unk = inf.infer(arg, stmt)
        outside = sorted(t for t in types if t not in allowed)
        qual = _qualname(mod, call)
        base = (f"{rel.removeprefix('pytype/')}:{qual}:{target}.{field}"
                f"<-{src(arg)[:40]}")
        facts = {"argument": src(arg), "can_be": sorted(types), "or_unknown": unk,
                 "declared": src(ann)}
        why = ""
        if isinstance(arg, ast.Attribute):
          owner = inf._self_class(arg, mod.enclosing_function(stmt))
          if owner is not None:
            _, writers = attribute_types(ctx, sch, mod, owner, arg.attr)
            facts["writers"] = [f"{r}:{ln} {how} {sorted(ty[0])}{'?' if ty[1] else ''}"
                                for r, ln, how, ty, _ in writers]
            culprits = [(r, ln, how, ty, cert) for r, ln, how, ty, cert in writers
                        if how == "=" and any(t in outside for t in ty[0])]
            if outside and culprits and not any(c[4] for c in culprits):
              raise AnalysisError(
                  f"{base}: the only writers storing {outside} reach `.{arg.attr}` "
                  f"through a receiver that is not `self` of {owner.name} "
                  f"({[(c[0], c[1]) for c in culprits]}): cannot tell whose attribute")
            why = (f" (`{src(arg)}` is written at "
                   + ", ".join(f"{r}:{ln} as {'/'.join(sorted(ty[0])) or '?'}"
                               for r, ln, how, ty, _ in writers if how == "=")
                   + "; augmented assignments keep the class of the accumulator)")
        n += 1
        if outside:
          ctx.bad(f"{base}:outside={','.join(outside)}", rel, call.lineno,
                  f"`{src(arg)}` stored in pytd.{target}.{field} can be "
                  f"{' / '.join(outside)} here{why}, but the field is declared "
                  f"{src(ann)}: msgspec does not validate on construction, "
                  "encodes the value as the nearest msgpack type and decodes it "
                  "as the declared one, so decode(encode(ast)) is not equal to "
                  "the original (a list comes back as a tuple; a node holding "
                  "a list/set/dict is unhashable)", facts)
        else:
          ctx.ok(base, rel, call.lineno, facts)
  if n == 0:
    raise AnalysisError("no construction site stores a value in a mixed "
                        "container/scalar node field")


DEFS = "pytype/pyi/definitions.py"
PARSER = "pytype/pyi/parser.py"

PYTD_ = "pytype/pytd/pytd.py"

_SITE = '          pytd.Constant("__all__", pytdgen.pytd_list("str"), self.all)\n'
_PLAIN = "      self.defs.all = _read_str_list(name, val)\n"
_AUG = "      self.defs.all += _read_str_list(node.target, node.value)\n"
_RET = "  return tuple(x.value for x in value)\n"
_BUILD = "  def build_type_decl_unit(self, defs) -> pytd.TypeDeclUnit:\n"

VARIANTS = [
    # -- must fire: the same obligation broken elsewhere than the seeded edit --
    {"name": "all-reader-returns-a-list", "rule": "R12.50", "file": PARSER,
     "expect": "fire", "old": _RET, "new": "  return [x.value for x in value]\n"},
    {"name": "all-sorted-at-the-construction-site", "rule": "R12.50", "file": DEFS,
     "expect": "fire", "old": _SITE,
     "new": '          pytd.Constant("__all__", pytdgen.pytd_list("str"), sorted(self.all))\n'},
    {"name": "new-writer-dedups-all-into-a-list", "rule": "R12.50", "expect": "fire",
     "edits": [(DEFS, _BUILD,
                "  def extend_all(self, names):\n"
                "    self.all = sorted(set(self.all) | set(names))\n\n" + _BUILD),
               (PARSER, _AUG,
                "      self.defs.extend_all(_read_str_list(node.target, node.value))\n")]},
    {"name": "plain-assignment-keeps-the-parsed-list", "rule": "R12.50", "file": PARSER,
     "expect": "fire", "old": _PLAIN,
     "new": "      _read_str_list(name, val)\n"
            "      self.defs.all = [x.value for x in val]\n"},
    {"name": "schema-declares-list-but-parser-stores-tuple", "rule": "R12.50", "file": PYTD_,
     "expect": "fire",
     "old": "  value: AnythingType | int | str | bool | tuple[str, ...] | None = None\n",
     "new": "  value: AnythingType | int | str | bool | list[str] | None = None\n"},
    {"name": "seeded-C12-r5m1", "rule": "R12.50", "patch": "seeded/C12-r5m1/patch.diff",
     "expect": "fire"},
    # -- behaviour-preserving twins ---------------------------------------------
    {"name": "twin-all-initialised-with-tuple-call", "rule": "R12.50", "file": DEFS,
     "expect": "silent", "old": "    self.all = ()\n", "new": "    self.all = tuple()\n"},
    {"name": "twin-all-annotated-initialisation", "rule": "R12.50", "file": DEFS,
     "expect": "silent", "old": "    self.all = ()\n",
     "new": "    self.all: tuple[str, ...] = ()\n"},
    {"name": "twin-reader-binds-a-local-first", "rule": "R12.50", "file": PARSER,
     "expect": "silent", "old": _RET,
     "new": "  names = tuple(item.value for item in value)\n  return names\n"},
    {"name": "twin-writers-through-setter-helpers", "rule": "R12.50", "expect": "silent",
     "edits": [(DEFS, _BUILD,
                "  def set_all(self, names):\n"
                "    self.all = tuple(names)\n\n"
                "  def extend_all(self, names):\n"
                "    self.all += tuple(names)\n\n" + _BUILD),
               (PARSER, _PLAIN,
                "      self.defs.set_all(_read_str_list(name, val))\n"),
               (PARSER, _AUG,
                "      self.defs.extend_all(_read_str_list(node.target, node.value))\n")]},
    {"name": "twin-augmented-assignment-spelled-out", "rule": "R12.50", "file": PARSER,
     "expect": "silent", "old": _AUG,
     "new": "      more = _read_str_list(node.target, node.value)\n"
            "      self.defs.all = self.defs.all + more\n"},
    {"name": "twin-site-binds-the-constant-first", "rule": "R12.50", "file": DEFS,
     "expect": "silent",
     "old": "      constants.append(\n" + _SITE + "      )\n",
     "new": "      exported = pytd.Constant(\n"
            "          name=\"__all__\", type=pytdgen.pytd_list(\"str\"), value=self.all)\n"
            "      constants.append(exported)\n"},
]
