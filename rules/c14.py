"""C14 - errors on ground code are real; plain mistakes are caught.

Decides operator tables and, for ground builtin operands, that the stubs
accept exactly what CPython accepts (through the static admission model of
sa/stubs.py compared with frozen CPython reference tables).  Does NOT decide
overload resolution in general, user classes, or method-call argument checks.
"""
import ast
import opcode

from sa.core import rule, AnalysisError
from sa.pyindex import get_module, dotted, src, calls_in, kwarg, try_fold
from sa import flow, stubs
from refs import cpython312 as REF
from rules import _util_c16c19 as U

TECHNIQUE = ("static analysis: operator/dunder table extraction checked "
             "against CPython's opcode tables; static model of stub argument "
             "admission over builtins.pytd/typing.pytd compared with frozen "
             "CPython acceptance tables")
EXPLANATION = (
    "R14.1 the BINARY_OP dispatch list equals opcode._nb_ops position by "
    "position; R14.2 every BINARY_*/INPLACE_*/UNARY_* handler passes the "
    "dunder its name denotes; R14.3 the reflected-operator table derived from "
    "SLOTS pairs __op__ with __rop__, _call_binop_on_bindings tries (x,y,op) "
    "then (y,x,rop) - the list its dispatch loop walks is evaluated path by "
    "path (built in place with append/insert(0)/reverse under ifs, or returned "
    "by a module-local helper with early returns) and must be [(x,y,op)] "
    "without a reflected name or when x.data.cls and y.data.cls are the same "
    "class (==, !=, is, is not in either order, also through a flag bound "
    "once to the comparison; CPython never tries the reflected method for "
    "operands of one type - D66), [(y,x,rop),(x,y,op)] exactly when the "
    "classes differ and _overrides(y.cls, x.cls, rop) holds and "
    "[(x,y,op),(y,x,rop)] otherwise; a "
    "construction outside that fragment is an analysis error - and the "
    "in-place fallback strips the leading i; R14.4 "
    "for 16 builtin types the presence of +,-,*,/,neg,[] (and len/iter/"
    "contains/call) along the stub MRO equals CPython's; R14.5 for 14 ground "
    "builtin types the stub operator signatures admit an operand pair iff "
    "CPython accepts it (missed-error direction for + - * / unary-minus and "
    "subscripting, false-alarm direction for all 13 binary operators); R14.6 "
    "the public attribute surface of 16 builtin types in the stub equals "
    "CPython 3.12's; R14.7 an operator with no result and no error reports "
    "unsupported-operands, otherwise the binder error; R14.8 the memo key of "
    "Converter.constant_to_value (a cache from constant *values* to abstract "
    "values; the cache is self.<..cache..>[key], also through a once-bound "
    "local alias of that attribute) carries type(pyval) and, for every container kind the constant "
    "dispatch converts element by element (tuple, frozenset: read from the "
    "`pyval.__class__ is K` arms of _constant_to_value), an arm that derives "
    "the key from the element types *recursively* (a self-calling helper); "
    "Python equates 1 == 1.0 == True and (1, 2) == (1.0, 2.0), so a key "
    "without these lets a later literal receive an earlier literal's abstract "
    "value (history-dependent false alarms and missed errors); every other "
    "`<cache>[key]` site in convert.py/output.py/abstract_utils.py whose key "
    "holds an unannotated parameter raw must carry type(param) or be in the "
    "triaged table.  R14.8 is a necessary condition (it does not prove the "
    "key injective: e.g. a frozenset of element types that loses the "
    "value/type pairing would pass).  R14.21 (rules/c14_special_lookup.py) "
    "*evaluates* the path condition under which attribute.py calls a class's "
    "__getattr__/__getattribute__ (_get_attribute -> _get_attribute_computed, "
    "inlining pure helper predicates such as _computable and the tables they "
    "consult, e.g. slots.SYMBOL_MAPPING built by a comprehension over "
    "slots.SLOTS) for every special-method name - every python_name of "
    "slots.SLOTS plus every slot-wrapper name of the host CPython's builtin "
    "types - and requires the compute call to be unreachable for each: "
    "CPython looks special methods up on the type, so a catch-all "
    "__getattr__ must not make `proxy()` or `1 + proxy` look supported.  "
    "R14.21 blind spots: a refusal that consults per-object state "
    "(`name in self._table`) is an ANALYSIS-ERROR, not decided; tests that "
    "do not depend on the name are assumed satisfiable; special methods that "
    "are neither in slots.SLOTS nor slot wrappers (__enter__, __exit__, "
    "__round__, __fspath__ ...) are not required although CPython also looks "
    "them up on the type; whether the VM's implicit lookups go through "
    "get_attribute at all is not re-derived.  These decide the "
    "property for ground builtin operands up to the fidelity of the admission "
    "model (calibrated against the real matcher at design time: 2542/2548 "
    "cases); user classes, method-call arguments and overload resolution in "
    "general are not decided.")
ASSUMPTIONS = [
    "refs/cpython312.py (host CPython introspection on sample values) is the "
    "oracle for operator acceptance and attribute surfaces",
    "the static admission model (nominal | compat table | structural protocol "
    "| union; class-scoped TypeVars = unknown, not compared) mirrors the "
    "matcher for ground builtin operands",
    "types implemented by overlays (property, super, type) are excluded",
    "R14.8: code-object constants nest (CPython folds ((1,), 2) and "
    "{(1, 2)} into nested tuple / frozenset constants), so a one-level "
    "element-type key is not enough; writers of Converter._convert_cache in "
    "other modules (named_tuple.py) are not checked for key-shape agreement",
    "R14.21: rules/_peval.py is a three-valued interpreter for pure "
    "predicates (constants, str methods, comparisons, comprehensions over "
    "dataclass tables, helper calls); methods that read object state are "
    "inlined one level and otherwise unknown; the special-method reference "
    "set is slots.SLOTS (non-Python-2 rows) united with the wrapper_descriptor "
    "names of the host interpreter's builtin types",
]

VM = "pytype/vm.py"

_NB = {"ADD": "add", "AND": "and", "FLOOR_DIVIDE": "floordiv", "LSHIFT": "lshift",
       "MATRIX_MULTIPLY": "matmul", "MULTIPLY": "mul", "REMAINDER": "mod",
       "MODULO": "mod", "OR": "or", "POWER": "pow", "RSHIFT": "rshift",
       "SUBTRACT": "sub", "TRUE_DIVIDE": "truediv", "XOR": "xor"}
_UNARY = {"UNARY_NEGATIVE": "__neg__", "UNARY_POSITIVE": "__pos__",
          "UNARY_INVERT": "__invert__"}


@rule("R14.1", "C14", floor=26)
def r14_1(ctx):
  """binops list == opcode._nb_ops order."""
  mod = get_module(ctx, VM)
  fn = mod.func("VirtualMachine.byte_BINARY_OP")
  lst = None
  for n in ast.walk(fn):
    if isinstance(n, ast.Assign) and dotted(n.targets[0]) == "binops" and \
        isinstance(n.value, (ast.List, ast.Tuple)):
      lst = n.value
  if lst is None:
    raise AnalysisError("byte_BINARY_OP: binops list literal not found")
  idx = [n for n in ast.walk(fn) if isinstance(n, ast.Subscript)
         and dotted(n.value) == "binops"]
  ctx.check(len(idx) == 1 and src(idx[0].slice) == "op.arg", "binops[op.arg]", VM,
            fn.lineno, "the dispatch list must be indexed by op.arg")
  ref = opcode._nb_ops  # [(NB_ADD, '+'), ...]
  for i, (nb, sym) in enumerate(ref):
    name = nb[3:]
    inplace = name.startswith("INPLACE_")
    base = name[len("INPLACE_"):] if inplace else name
    want = {f"self.byte_{'INPLACE' if inplace else 'BINARY'}_{alt}"
            for alt in ([base] + (["MODULO"] if base == "REMAINDER" else []))}
    got = dotted(lst.elts[i]) if i < len(lst.elts) else None
    ctx.check(got in want, f"{nb}", VM, lst.lineno,
              f"binops[{i}] is {got} but CPython's {nb} ({sym}) is operation "
              f"number {i}", {"index": i, "got": got})
  ctx.check(len(lst.elts) == len(ref), "binops-length", VM, lst.lineno,
            f"{len(lst.elts)} entries, CPython has {len(ref)}")


@rule("R14.2", "C14", floor=30)
def r14_2(ctx):
  """Each operator handler passes the dunder its name denotes."""
  mod = get_module(ctx, VM)
  ms = mod.methods("VirtualMachine")
  for name, fn in sorted(ms.items()):
    if not name.startswith("byte_"):
      continue
    op = name[5:]
    want = helper = None
    if op in _UNARY:
      want, helper = _UNARY[op], "unary_operator"
    elif op == "BINARY_SUBSCR":
      want, helper = "__getitem__", "binary_operator"
    elif op.startswith("BINARY_") and op[7:] in _NB:
      want, helper = f"__{_NB[op[7:]]}__", "binary_operator"
    elif op.startswith("INPLACE_") and op[8:] in _NB:
      want, helper = f"__i{_NB[op[8:]]}__", "inplace_operator"
    else:
      continue
    calls = [c for c in calls_in(fn) if dotted(c.func) == f"self.{helper}"]
    got = [try_fold(c.args[1]) for c in calls if len(c.args) > 1]
    ctx.check(got == [want], op, VM, fn.lineno,
              f"{name} calls {helper} with {got}, expected [{want!r}]",
              {"helper": helper, "dunder": got})
  # the helpers forward the name unchanged
  for helper, callee in (("binary_operator", "call_binary_operator"),
                         ("inplace_operator", "call_inplace_operator")):
    fn = ms[helper]
    c = [x for x in calls_in(fn) if (dotted(x.func) or "").endswith(callee)]
    ok = len(c) == 1 and [src(a) for a in c[0].args[:4]] == ["state", "name", "x", "y"]
    pop = [src(n) for n in ast.walk(fn) if isinstance(n, ast.Assign)
           and "popn(2)" in src(n.value)]
    ok = ok and pop == ["state, (x, y) = state.popn(2)"]
    ctx.check(ok, f"{helper}:forwards", VM, fn.lineno,
              f"{helper} must pop (x, y) and forward (state, name, x, y) to {callee}")


def _binop_order(ctx, vu, fn):
  """The (left, right, method) triples _call_binop_on_bindings tries, in order.

  The list the dispatch loop walks is *evaluated* path by path
  (rules/_util_c16c19.ListPaths): built in place with append / insert(0) /
  reverse under `if`s, or returned by a module-local helper with early
  returns.  With x, y, name the operand/operator parameters and r the local
  bound to slots.REVERSE_NAME_MAPPING.get(name), every path must yield
    r falsy, or x.data.cls == y.data.cls       -> [(x, y, name)]
    r truthy, classes differ, _overrides(..)     -> [(y, x, r), (x, y, name)]
    r truthy, classes differ, not _overrides(..) -> [(x, y, name), (y, x, r)]
  where _overrides(..) is `_overrides(y.data.cls, x.data.cls, r)`: CPython never
  tries the reflected method for operands of the same type (SLOT1BINFULL's
  do_other), so the reflected option must be absent exactly then."""
  params = [a.arg for a in fn.args.args]
  if len(params) < 4:
    raise AnalysisError("_call_binop_on_bindings: signature changed")
  name_p, x_p, y_p = params[1], params[2], params[3]
  stores = {}
  for n in ast.walk(fn):
    if isinstance(n, ast.Name) and isinstance(n.ctx, (ast.Store, ast.Del)):
      stores[n.id] = stores.get(n.id, 0) + 1
  if any(stores.get(p) for p in (name_p, x_p, y_p)):
    raise AnalysisError("_call_binop_on_bindings re-binds its operand parameters")
  rvars = [n.targets[0].id for n in fn.body if isinstance(n, ast.Assign)
           and len(n.targets) == 1 and isinstance(n.targets[0], ast.Name)
           and src(n.value) == f"slots.REVERSE_NAME_MAPPING.get({name_p})"
           and stores.get(n.targets[0].id) == 1]
  if len(rvars) != 1:
    raise AnalysisError("_call_binop_on_bindings: the local holding the reflected "
                        "method name was not identified")
  r_v = rvars[0]
  loops = [st for st in fn.body if isinstance(st, ast.For) and any(
      isinstance(c.func, ast.Attribute) and c.func.attr == "get_attribute"
      for c in calls_in(st))]
  if len(loops) != 1:
    raise AnalysisError("_call_binop_on_bindings: the loop that looks the operator "
                        "methods up was not found")
  loop = loops[0]
  lp = U.ListPaths(vu)
  try:
    results = lp.at_loop(fn, loop)
  except U.NotUnderstood as e:
    raise AnalysisError(f"_call_binop_on_bindings: the list of operand orders is built "
                        f"in a way that is not understood: {e}") from e
  if lp.records:
    # the options are module-local records (dataclass / NamedTuple) instead of
    # tuples: a record is the tuple of its fields in declaration order, provided
    # the loop's get_attribute call shows which field is the receiver and which the method
    if len(lp.records) != 1:
      raise AnalysisError("_call_binop_on_bindings: the options are records of several "
                          f"classes {sorted(lp.records)}")
    roles = U.record_loop_roles(loop, list(lp.records.values())[0])
    if isinstance(roles, str):
      raise AnalysisError("_call_binop_on_bindings: the options are "
                          f"{sorted(lp.records)[0]} records but {roles}")
    results = [(path, ("list", tuple(("tuple", tuple(it[1][i] for i in roles))
                                     if it[0] == "tuple" and len(it[1]) == 3 else it
                                     for it in val[1])) if val[0] == "list" else val)
               for path, val in results]
  if not results:
    raise AnalysisError("_call_binop_on_bindings: no path reaches the dispatch loop")
  fwd, refl = (x_p, y_p, name_p), (y_p, x_p, r_v)
  ov = f"_overrides({y_p}.data.cls, {x_p}.data.cls, {r_v})"
  xc, yc = f"{x_p}.data.cls", f"{y_p}.data.cls"

  def same_class(conds):
    """True/False/None: what the path knows about x.data.cls == y.data.cls."""
    known = None
    for text, pol in conds.items():
      try:
        t = ast.parse(text, mode="eval").body
      except SyntaxError:
        continue
      if isinstance(t, ast.Name) and stores.get(t.id) == 1:
        # a flag bound once to the comparison (`same = x.data.cls == y.data.cls`)
        flag = t.id
        for n in fn.body:
          if isinstance(n, ast.Assign) and len(n.targets) == 1 and \
              isinstance(n.targets[0], ast.Name) and n.targets[0].id == flag:
            t = n.value
            break
      if isinstance(t, ast.Compare) and len(t.ops) == 1 and \
          {src(t.left), src(t.comparators[0])} == {xc, yc} and \
          isinstance(t.ops[0], (ast.Eq, ast.NotEq, ast.Is, ast.IsNot)):
        v = pol if isinstance(t.ops[0], (ast.Eq, ast.Is)) else not pol
        if known is not None and known != v:
          raise AnalysisError("_call_binop_on_bindings: contradictory class comparisons "
                              f"on the path {list(conds.items())}")
        known = v
    return known

  problems, shown = [], []
  for path, val in results:
    conds = dict(path)
    if val[0] != "list" or not all(it[0] == "tuple" for it in val[1]):
      raise AnalysisError("_call_binop_on_bindings: the dispatch loop does not walk a "
                          f"list of tuples on the path {list(path)}")
    got = [it[1] for it in val[1]]
    r, o, same = conds.get(r_v), conds.get(ov), same_class(conds)
    case = f"{r_v}={r}, same class={same}, overrides={o}"
    shown.append({"when": case, "order": [list(t) for t in got]})
    if r is False or same is True:
      want = [fwd]
    elif r is True and same is False and o is True:
      want = [refl, fwd]
    elif r is True and same is False and o is False:
      want = [fwd, refl]
    else:
      want = None
    if want is None:
      missing = (f"`{r_v}`" if r is None else
                 f"whether {xc} and {yc} are the same class" if same is None else f"`{ov}`")
      problems.append(f"the order {got} is chosen without testing {missing}")
    elif got != want:
      problems.append(f"when {case} the order is {got}, expected {want}")
  ctx.check(not problems, "_call_binop_on_bindings:order", vu.rel, fn.lineno,
            "operands must be tried as (x, y, op) then (y, x, rop) - the reflected "
            "option only when the operands' classes differ - reversed only when y's "
            "class overrides the reflected method: " + "; ".join(problems),
            {"paths": shown})


@rule("R14.3", "C14", floor=16)
def r14_3(ctx):
  """Reflected operators."""
  rel = "pytype/pytd/slots.py"
  mod = get_module(ctx, rel)
  node = mod.const("SLOTS")
  if not isinstance(node, ast.List):
    raise AnalysisError("slots.SLOTS is not a list literal")
  slots = []
  for e in node.elts:
    if not (isinstance(e, ast.Call) and dotted(e.func) == "Slot"):
      raise AnalysisError("SLOTS element is not a Slot(...) call")
    pos = [try_fold(a) for a in e.args]
    kw = {k.arg: try_fold(k.value) for k in e.keywords}
    slots.append({"python_name": pos[0], "c_name": pos[1], "index": kw.get("index"),
                  "line": e.lineno})
  fwd = [s for s in slots if s["index"] == 0]
  rev = {s["c_name"]: s for s in slots if s["index"] == 1}
  dup = [s["c_name"] for s in slots if s["index"] == 1]
  if len(dup) != len(set(dup)):
    raise AnalysisError("two index=1 slots share a c_name")
  for s in fwd:
    r = rev.get(s["c_name"])
    want = "__r" + s["python_name"][2:]
    ctx.check(r is not None and r["python_name"] == want, f"reverse:{s['python_name']}",
              rel, s["line"], f"the reflected method of {s['python_name']} is "
              f"{r and r['python_name']}, expected {want}", {"c_name": s["c_name"]})
  # the mapping function builds forward->reverse by c_name
  fn = mod.func("_ReverseNameMapping")
  comps = [n for n in ast.walk(fn) if isinstance(n, ast.DictComp)]
  shape = sorted((src(c.key), src(c.value), [src(i) for g in c.generators for i in g.ifs])
                 for c in comps)
  want = sorted([("slot.c_name", "slot.python_name", ["slot.index == 1"]),
                 ("slot.python_name", "c_name_to_reverse[slot.c_name]", ["slot.index == 0"])])
  ctx.check(shape == want, "_ReverseNameMapping", rel, fn.lineno,
            f"mapping construction is {shape}", {"shape": str(shape)})
  vu = get_module(ctx, "pytype/vm_utils.py")
  fn = vu.func("_call_binop_on_bindings")
  _binop_order(ctx, vu, fn)
  rn = [src(n.value) for n in ast.walk(fn) if isinstance(n, ast.Assign)
        and dotted(n.targets[0]) == "rname"]
  ctx.check(rn == ["slots.REVERSE_NAME_MAPPING.get(name)"], "_call_binop_on_bindings:rname",
            vu.rel, fn.lineno, f"rname = {rn}", {"rname": rn})
  fn = vu.func("call_inplace_operator")
  nm = [src(n.value) for n in ast.walk(fn) if isinstance(n, ast.Assign)
        and dotted(n.targets[0]) == "name"]
  ctx.check(nm == ["iname.replace('i', '', 1)"], "call_inplace_operator:fallback-name",
            vu.rel, fn.lineno, f"the fallback name is computed as {nm}; "
            "__iadd__ must fall back to __add__", {"name": nm})
  c = [x for x in calls_in(fn) if dotted(x.func) == "call_binary_operator"]
  ok = len(c) == 1 and [src(a) for a in c[0].args[:4]] == ["state", "name", "x", "y"]
  ctx.check(ok, "call_inplace_operator:fallback-call", vu.rel, fn.lineno,
            "the fallback must call the plain operator on the same operands")


SURFACE_EXCLUDED = {}


@rule("R14.4", "C14", floor=140)
def r14_4(ctx):
  """Operator dunder presence along the stub MRO == CPython."""
  st = stubs.get_stubs(ctx)
  for tn in REF.SURFACE_TYPES:
    t = st.cls(f"builtins.{tn}")
    for d, want in sorted(REF.DUNDER_PRESENCE[tn].items()):
      if d in ("__hash__", "__reversed__", "__mod__", "__contains__"):
        # __hash__/__reversed__: R2.5 (Hashable/Reversible); __mod__: R14.5;
        # __contains__: `in` falls back to iteration, presence is not observable
        continue
      got = st.defines(t, d)
      if d == "__iter__" and not got and st.defines(t, "__getitem__"):
        continue  # implicit iteration protocol
      ctx.check(got == want, f"{tn}.{d}", stubs.BUILTINS, t.line,
                f"{tn}.{d}: stub {'defines' if got else 'lacks'} it, CPython "
                f"{'has' if want else 'lacks'} it", {"stub": got, "cpython": want})


def _op_verdict(st, adm, a, b, dunder):
  """admit/reject/unknown for `a <op> b` under the stub, mimicking
  _call_binop_on_bindings (forward, then reflected on the right operand)."""
  res = []
  rd = "__r" + dunder[2:]
  for left, right, name in ((a, b, dunder), (b, a, rd)):
    owner, entries = st.lookup(left, name)
    if entries is None or not st.defines(left, name):
      res.append(stubs.REJECT)
      continue
    over = []
    for e in entries:
      if not isinstance(e, stubs.Method):
        over.append(stubs.UNKNOWN)
        continue
      params, va, kw = e.params()
      if not params:
        over.append(stubs.ADMIT if va else stubs.REJECT)
        continue
      required = [p for p in params if not p[2]]
      if len(required) > 1:
        over.append(stubs.REJECT)
        continue
      over.append(adm.admits(right, params[0][1], owner))
    res.append(adm._any(over))
  return adm._any(res)


def _unary_verdict(st, t, dunder):
  return stubs.ADMIT if st.defines(t, dunder) else stubs.REJECT


LISTED = {"__add__", "__sub__", "__mul__", "__truediv__"}


@rule("R14.5", "C14", floor=2500)
def r14_5(ctx):
  """Operator acceptance on ground builtin operands == CPython."""
  st = stubs.get_stubs(ctx)
  adm = ctx.memo(("admission",), lambda: stubs.Admission(ctx, st))
  unknown = 0
  for (op, a, b), want in sorted(REF.BINOP_ACCEPTS.items()):
    ta, tb = st.cls(f"builtins.{a}"), st.cls(f"builtins.{b}")
    v = _op_verdict(st, adm, ta, tb, op)
    key = f"{a}{op}{b}"
    if v == stubs.UNKNOWN:
      unknown += 1
      ctx.ok(key, stubs.BUILTINS, ta.line, {"verdict": "unknown (class-scoped TypeVar): not compared"})
      continue
    got = v == stubs.ADMIT
    if got and not want:
      if op in LISTED:
        ctx.bad(key, stubs.BUILTINS, ta.line,
                f"`{a} {op} {b}` raises TypeError in CPython but the stub "
                f"signatures admit it: the mistake is not flagged",
                {"stub": "accepts", "cpython": "TypeError"})
      else:
        ctx.ok(key, stubs.BUILTINS, ta.line, {"note": "stub more permissive; operator not in the advertised set"})
    elif want and not got:
      ctx.bad(key, stubs.BUILTINS, ta.line,
              f"`{a} {op} {b}` runs cleanly in CPython but the stub "
              f"signatures reject it: clean code is flagged",
              {"stub": "rejects", "cpython": "accepts"})
    else:
      ctx.ok(key, stubs.BUILTINS, ta.line, {"accepts": got})
  for a, want in sorted(REF.NEG_ACCEPTS.items()):
    ta = st.cls(f"builtins.{a}")
    got = _unary_verdict(st, ta, "__neg__") == stubs.ADMIT
    ctx.check(got == want, f"-{a}", stubs.BUILTINS, ta.line,
              f"unary minus on {a}: stub {'accepts' if got else 'rejects'}, "
              f"CPython {'accepts' if want else 'raises TypeError'}",
              {"stub": got, "cpython": want})
  for (a, b), want in sorted(REF.SUBSCR_ACCEPTS.items()):
    ta, tb = st.cls(f"builtins.{a}"), st.cls(f"builtins.{b}")
    owner, entries = st.lookup(ta, "__getitem__")
    key = f"{a}[{b}]"
    if entries is None or not st.defines(ta, "__getitem__"):
      v = stubs.REJECT
    else:
      over = []
      for e in entries:
        if isinstance(e, stubs.Method):
          params, va, kw = e.params()
          over.append(adm.admits(tb, params[0][1], owner) if params else
                      (stubs.ADMIT if va else stubs.REJECT))
      v = adm._any(over)
    if v == stubs.UNKNOWN:
      unknown += 1
      ctx.ok(key, stubs.BUILTINS, ta.line, {"verdict": "unknown (class-scoped TypeVar): not compared"})
      continue
    got = v == stubs.ADMIT
    ctx.check(got == want, key, stubs.BUILTINS, ta.line,
              f"`{a}[{b}]`: stub {'accepts' if got else 'rejects'}, CPython "
              f"{'accepts' if want else 'raises TypeError'}",
              {"stub": got, "cpython": want})
  ctx.note(f"R14.5: {unknown} cases not compared (annotation mentions a class-scoped TypeVar)")


@rule("R14.6", "C14", floor=16)
def r14_6(ctx):
  """Public attribute surface of builtin types == CPython 3.12."""
  st = stubs.get_stubs(ctx)
  for tn in REF.SURFACE_TYPES:
    t = st.cls(f"builtins.{tn}")
    have = st.names(t)
    want = set(REF.ATTR_SURFACE[tn])
    missing = sorted(want - have)
    extra = sorted(have - want)
    for n in missing:
      ctx.bad(f"{tn}:missing:{n}", stubs.BUILTINS, t.line,
              f"{tn}.{n} exists in CPython 3.12 but not along the stub MRO: "
              f"clean code using it is flagged [attribute-error]", {"name": n})
    for n in extra:
      ctx.bad(f"{tn}:extra:{n}", stubs.BUILTINS, t.line,
              f"{tn}.{n} is defined along the stub MRO but CPython 3.12 raises "
              f"AttributeError: the mistake is not flagged", {"name": n})
    if not missing and not extra:
      ctx.ok(f"{tn}:surface", stubs.BUILTINS, t.line, {"public_names": len(have)})
    else:
      ctx.ok(f"{tn}:surface-compared", stubs.BUILTINS, t.line,
             {"public_names": len(have), "missing": missing, "extra": extra})


@rule("R14.7", "C14", floor=3)
def r14_7(ctx):
  """Reporting of failed operators."""
  vu = get_module(ctx, "pytype/vm_utils.py")
  fn = vu.func("call_binary_operator")
  uo = [c for c in calls_in(fn) if (dotted(c.func) or "").endswith("errorlog.unsupported_operands")]
  ic = [c for c in calls_in(fn) if (dotted(c.func) or "").endswith("errorlog.invalid_function_call")]
  if len(uo) != 1 or len(ic) != 1:
    raise AnalysisError("call_binary_operator: reporting calls not found")
  g = set(flow.guards_txt(vu.parent, vu.enclosing_stmt(uo[0])))
  want = {("report_errors", True), ("error is None", True), ("result.bindings", False),
          ("ctx.options.report_errors", True)}
  ctx.check(g == want, "unsupported_operands:guard", vu.rel, uo[0].lineno,
            f"unsupported-operands must be reported exactly when errors are "
            f"reported, no binder error was saved and there is no result; "
            f"guards={sorted(g)}", {"guards": sorted(g)})
  ctx.check([src(a) for a in uo[0].args[1:]] == ["name", "x", "y"],
            "unsupported_operands:args", vu.rel, uo[0].lineno,
            "the report must name the operator and both operands")
  g = set(flow.guards_txt(vu.parent, vu.enclosing_stmt(ic[0])))
  ok = ("report_errors", True) in g and ("error is None", False) in g and \
      ("ctx.options.report_errors", True) in g
  ctx.check(ok, "invalid_function_call:guard", vu.rel, ic[0].lineno,
            f"a saved binder error must be reported; guards={sorted(g)}",
            {"guards": sorted(g)})
  er = get_module(ctx, "pytype/errors/errors.py")
  fn = er.func("VmErrorLog.invalid_function_call")
  arm = None
  for n in ast.walk(fn):
    if isinstance(n, ast.If) and src(n.test) == "isinstance(error, error_types.NotCallable)":
      arm = [src(s) for s in n.body]
  ctx.check(arm is not None and any(a.startswith("self.not_callable(") for a in arm),
            "invalid_function_call:NotCallable", er.rel, fn.lineno,
            f"NotCallable must be dispatched to not_callable; arm={arm}", {"arm": arm})
  ms = er.methods("VmErrorLog")
  for m, name in (("not_callable", "not-callable"), ("_unsupported_operands", "unsupported-operands"),
                  ("_attribute_error", "attribute-error")):
    if m not in ms:
      raise AnalysisError(f"VmErrorLog.{m} not found")
    decs = [try_fold(d.args[0]) for d in ms[m].decorator_list
            if isinstance(d, ast.Call) and dotted(d.func) == "_error_name" and d.args]
    ctx.check(decs == [name], f"{m}:error-name", er.rel, ms[m].lineno,
              f"{m} is registered as {decs}, expected [{name!r}]", {"names": decs})


# -- R14.8 ------------------------------------------------------------------------

CONVERT = "pytype/convert.py"
_CONTAINER_KINDS = ("tuple", "frozenset", "list", "set", "dict")
# value -> abstract caches scanned for raw-constant key components
_CACHE_FILES = (CONVERT, "pytype/output.py", "pytype/abstract/abstract_utils.py")
# (file, function, raw parameter in the key) -> why equal-but-differently-typed
# constants cannot meet in that component
_RAW_KEY_TRIAGE = {
    (CONVERT, "Converter._create_new_unknown_value", "action"):
        "an opcode label: every caller passes a str literal or None (read on "
        "the reference tree), never a number",
}


def _kind_tests(test, pname):
  """Container kinds K for which `test` holds only if <pname> is a K."""
  out = set()
  for n in ast.walk(test):
    if isinstance(n, ast.Compare) and len(n.ops) == 1 and \
        isinstance(n.ops[0], (ast.Is, ast.Eq)):
      l, r = src(n.left), src(n.comparators[0])
      for a, b in ((l, r), (r, l)):
        if a in (f"{pname}.__class__", f"type({pname})") and b in _CONTAINER_KINDS:
          out.add(b)
    elif isinstance(n, ast.Call) and dotted(n.func) == "isinstance" and \
        len(n.args) == 2 and src(n.args[0]) == pname:
      ks = n.args[1].elts if isinstance(n.args[1], ast.Tuple) else [n.args[1]]
      for k in ks:
        if dotted(k) in _CONTAINER_KINDS:
          out.add(dotted(k))
  return out


def _mentions_type_of(expr, pname):
  return any(src(n) in (f"type({pname})", f"{pname}.__class__")
             for n in ast.walk(expr))


def _element_types(expr, pname):
  """`expr` takes type(e) / e.__class__ of the elements e of <pname>, or hands
  the elements to a function: returns ('types', None) / ('call', callee) / None."""
  for n in ast.walk(expr):
    if not isinstance(n, (ast.GeneratorExp, ast.ListComp, ast.SetComp, ast.DictComp)):
      continue
    for g in n.generators:
      its = src(g.iter)
      if its not in (pname, f"{pname}.items()", f"{pname}.values()", f"{pname}.keys()",
                     f"sorted({pname})", f"iter({pname})"):
        continue
      tnames = {x.id for x in ast.walk(g.target) if isinstance(x, ast.Name)}
      elts = [n.elt] if not isinstance(n, ast.DictComp) else [n.key, n.value]
      for e in elts:
        for m in ast.walk(e):
          if isinstance(m, ast.Call) and dotted(m.func) == "type" and m.args and \
              isinstance(m.args[0], ast.Name) and m.args[0].id in tnames:
            return ("types", None)
          if isinstance(m, ast.Attribute) and m.attr == "__class__" and \
              isinstance(m.value, ast.Name) and m.value.id in tnames:
            return ("types", None)
        for m in ast.walk(e):
          if isinstance(m, ast.Call) and dotted(m.func) not in ("type", None) and any(
              isinstance(a, ast.Name) and a.id in tnames for a in m.args):
            return ("call", dotted(m.func))
  for m in ast.walk(expr):
    if isinstance(m, ast.Call) and dotted(m.func) == "map" and len(m.args) == 2 \
        and src(m.args[1]) == pname:
      d = dotted(m.args[0])
      return ("types", None) if d == "type" else ("call", d)
  return None


def _element_callees(expr, pname):
  """Names of the functions `expr` applies to the elements of <pname>
  (anywhere inside a comprehension over <pname>, or through map())."""
  out = set()
  for n in ast.walk(expr):
    if isinstance(n, (ast.GeneratorExp, ast.ListComp, ast.SetComp, ast.DictComp)):
      for g in n.generators:
        if src(g.iter) not in (pname, f"{pname}.items()", f"{pname}.values()",
                               f"{pname}.keys()", f"sorted({pname})", f"iter({pname})"):
          continue
        tnames = {x.id for x in ast.walk(g.target) if isinstance(x, ast.Name)}
        elts = [n.elt] if not isinstance(n, ast.DictComp) else [n.key, n.value]
        for e in elts:
          for m in ast.walk(e):
            if isinstance(m, ast.Call) and dotted(m.func) and any(
                isinstance(a, ast.Name) and a.id in tnames for a in m.args):
              out.add(dotted(m.func))
    if isinstance(n, ast.Call) and dotted(n.func) == "map" and len(n.args) == 2 \
        and src(n.args[1]) == pname and dotted(n.args[0]):
      out.add(dotted(n.args[0]))
  return out


def _resolve_helper(mod, fn, callee):
  """The def a callee name denotes: nested def, module function or self.method."""
  if callee is None:
    return None
  for n in ast.walk(fn):
    if isinstance(n, ast.FunctionDef) and n is not fn and n.name == callee:
      return n
  if callee in mod.functions:
    return mod.functions[callee]
  if callee.startswith("self.") and callee.count(".") == 1:
    cls = mod.parent.get(fn)
    if isinstance(cls, ast.ClassDef):
      for st in cls.body:
        if isinstance(st, ast.FunctionDef) and st.name == callee[5:]:
          return st
  return None


def _type_key_arms(mod, fn, pname, comp, use_stmt, depth=0):
  """How the type component of a cache key is computed from <pname>.

  -> (arms, recursive): arms = list of (kinds tested true on the path, kinds
  tested false, value expr, the function the expr lives in); recursive = the
  computation calls itself on the elements.
  """
  if depth > 3:
    raise AnalysisError("constant cache key: helper chain too deep")
  # a call of a helper on the constant: the helper's returns are the arms
  if isinstance(comp, ast.Call) and len(comp.args) == 1 and not comp.keywords and \
      src(comp.args[0]) == pname and dotted(comp.func) != "type":
    h = _resolve_helper(mod, fn, dotted(comp.func))
    if h is None:
      raise AnalysisError(f"constant cache key: helper {src(comp.func)} not found")
    ps = [a.arg for a in h.args.args if a.arg not in ("self", "cls")]
    if len(ps) != 1:
      raise AnalysisError(f"constant cache key: helper {h.name} has parameters {ps}")
    hp = ps[0]
    arms = []
    rets = [n for n in ast.walk(h) if isinstance(n, ast.Return) and n.value is not None
            and mod.enclosing_function(n) is h]
    if not rets:
      raise AnalysisError(f"constant cache key: helper {h.name} returns nothing")
    for r in rets:
      pos, neg = set(), set()
      for t, p in flow.guards(mod.parent, r, stop=h):
        (pos if p else neg).update(_kind_tests(t, hp))
      arms.append((pos, neg, r.value, h, hp))
    me = {h.name, f"self.{h.name}"}
    recursive = any(isinstance(c, ast.Call) and dotted(c.func) in me
                    for c in ast.walk(h))
    return arms, recursive
  if isinstance(comp, ast.Name):
    from rules._pytd_schema import reaching, defs_at
    rd = reaching(fn)
    defs = defs_at(rd, use_stmt, comp.id)
    if not defs:
      raise AnalysisError(f"constant cache key: `{comp.id}` has no local definition")
    arms, rec = [], False
    for d in defs:
      if not (isinstance(d, ast.Assign) and len(d.targets) == 1
              and isinstance(d.targets[0], ast.Name)):
        raise AnalysisError(f"constant cache key: `{comp.id}` is bound by "
                            f"{type(d).__name__}")
      if isinstance(d.value, ast.Call) and len(d.value.args) == 1 and \
          src(d.value.args[0]) == pname and dotted(d.value.func) not in (
              "type", "tuple", "frozenset", "list", "set", "sorted"):
        sub, r2 = _type_key_arms(mod, fn, pname, d.value, d, depth + 1)
        arms.extend(sub)
        rec = rec or r2
        continue
      pos, neg = set(), set()
      for t, p in flow.guards(mod.parent, d, stop=fn):
        (pos if p else neg).update(_kind_tests(t, pname))
      arms.append((pos, neg, d.value, fn, pname))
    return arms, rec
  return [(set(), set(), comp, fn, pname)], False


def _converted_container_kinds(mod, fn, pname, seen=None):
  """Container kinds the converter turns into a value element by element:
  arms of the dispatch (followed through self.* calls that forward <pname>)
  that test `<pname>.__class__ is K` / isinstance(<pname>, K)."""
  seen = seen if seen is not None else set()
  if fn in seen:
    return set()
  seen.add(fn)
  kinds = set()
  for n in ast.walk(fn):
    if isinstance(n, ast.If):
      kinds |= _kind_tests(n.test, pname)
    if isinstance(n, ast.Call) and (dotted(n.func) or "").startswith("self.") and \
        n.args and src(n.args[0]) == pname:
      h = _resolve_helper(mod, fn, dotted(n.func))
      if h is not None and h is not fn:
        ps = [a.arg for a in h.args.args if a.arg != "self"]
        if ps:
          kinds |= _converted_container_kinds(mod, h, ps[0], seen)
  return kinds


@rule("R14.8", "C14", floor=7)
def r14_8(ctx):
  """A cache from constant *values* to abstract values keys on their types."""
  mod = get_module(ctx, CONVERT)
  fn = mod.func("Converter.constant_to_value")
  params = [a.arg for a in fn.args.args if a.arg != "self"]
  if not params:
    raise AnalysisError("constant_to_value: no constant parameter")
  pname = params[0]
  # (a once-bound local alias of the cache attribute, `cache = self._convert_cache`,
  # denotes the same dict: subscripts through it are cache accesses too)
  def _cache_path(n):
    return dotted(U.resolve_aliases(fn, n.value)) or ""
  subs = [n for n in ast.walk(fn) if isinstance(n, ast.Subscript)
          and _cache_path(n).startswith("self.") and "cache" in _cache_path(n)]
  if not subs:
    raise AnalysisError("constant_to_value: no `self.<cache>[key]` access found")
  from rules._pytd_schema import reaching, defs_at
  rd = reaching(fn)
  key_defs = set()
  for s in subs:
    if not isinstance(s.slice, ast.Name):
      raise AnalysisError(f"constant_to_value: cache index `{src(s.slice)}` is "
                          "not a local name")
    ds = defs_at(rd, mod.enclosing_stmt(s), s.slice.id)
    if not ds and mod.enclosing_function(s) is not fn:
      continue
    key_defs.update(ds)
  if len(key_defs) != 1:
    raise AnalysisError(f"constant_to_value: {len(key_defs)} definitions of the "
                        "cache key (expected one)")
  kd = next(iter(key_defs))
  if not (isinstance(kd, ast.Assign) and isinstance(kd.value, ast.Tuple)):
    raise AnalysisError("constant_to_value: the cache key is not a tuple display")
  comps = kd.value.elts
  raw = [c for c in comps if isinstance(c, ast.Name) and c.id == pname]
  if not raw:
    raise AnalysisError("constant_to_value: the cache key does not contain the "
                        f"constant `{pname}` (the rule is about value-keyed caches)")
  others = [c for c in comps if c not in raw and not isinstance(c, ast.Constant)]
  arms, recursive = [], False
  for c in others:
    a, r = _type_key_arms(mod, fn, pname, c, kd)
    arms.extend(a)
    recursive = recursive or r
  facts = {"key": src(kd.value),
           "type_component": [src(a[2])[:80] for a in arms], "recursive": recursive}
  scalar = [a for a in arms if not a[0] and _mentions_type_of(a[2], a[4])]
  ctx.check(bool(scalar), "constant_to_value:key-has-type", CONVERT, kd.lineno,
            f"the memo key {src(kd.value)} holds the constant itself but no "
            f"type({pname}) component: 1 == 1.0 == True hash equal, so an int, a "
            "float and a bool constant would share one abstract value", facts)
  disp = mod.func("Converter._constant_to_value")
  dparams = [a.arg for a in disp.args.args if a.arg != "self"]
  kinds = sorted(_converted_container_kinds(mod, disp, dparams[0]))
  if "tuple" not in kinds:
    raise AnalysisError("_constant_to_value: the tuple arm of the constant "
                        "dispatch was not found")
  for k in kinds:
    mine = [a for a in arms if k in a[0]]
    et = [_element_types(a[2], a[4]) for a in mine]
    f2 = facts | {"kind": k, "arms": [src(a[2])[:80] for a in mine]}
    if not mine or not all(et):
      ctx.bad(f"constant_to_value:{k}-key-lacks-element-types", CONVERT, kd.lineno,
              f"{k} constants are converted element by element, but for a {k} "
              f"the memo key {src(kd.value)} carries only the container's own "
              f"type: equal {k}s with differently typed elements "
              "(e.g. (1, 2) == (1.0, 2.0), {1} == {1.0}) hash equal and the "
              "later one receives the earlier one's abstract value (wrong "
              "element types: false alarms and missed errors)", f2)
      continue
    # per arm: some function applied to the elements must call itself (a
    # self-calling helper elsewhere in the computation does not make *this*
    # kind's key deep)
    deep = all(any(_is_recursive(mod, a[3], c) for c in _element_callees(a[2], a[4]))
               for a in mine)
    if not deep:
      ctx.bad(f"constant_to_value:{k}-key-not-recursive", CONVERT, kd.lineno,
              f"for a {k} the memo key records the types of the direct "
              "elements only; constants nest (((1,), 2) == ((1.0,), 2), "
              "{(1, 2)} == {(1.0, 2.0)}), and the nested element types are not "
              "in the key, so the later constant receives the earlier one's "
              "abstract value", f2)
      continue
    ctx.ok(f"constant_to_value:{k}-key", CONVERT, kd.lineno, f2)
  # sibling caches: a raw (unannotated) parameter used as a key component
  n_sites = 0
  for rel in _CACHE_FILES:
    m = get_module(ctx, rel)
    for f in ast.walk(m.tree):
      if not isinstance(f, ast.FunctionDef):
        continue
      ps = {a.arg: a for a in f.args.args + f.args.kwonlyargs if a.arg not in ("self", "cls")}
      keys = {}
      for n in ast.walk(f):
        if isinstance(n, ast.Subscript) and "cache" in (dotted(n.value) or "").split(".")[-1] \
            and m.enclosing_function(n) is f:
          keys.setdefault(src(n.slice), (n, m.enclosing_stmt(n)))
      if not keys:
        continue
      qual = _qual(m, f)
      rdf = reaching(f)
      for ktxt, (n, st) in sorted(keys.items()):
        kexprs = [n.slice]
        if isinstance(n.slice, ast.Name):
          kexprs = [d.value for d in defs_at(rdf, st, n.slice.id)
                    if isinstance(d, ast.Assign)]
        for ke in kexprs:
          elts = ke.elts if isinstance(ke, ast.Tuple) else [ke]
          rawp = [e.id for e in elts if isinstance(e, ast.Name) and e.id in ps
                  and not _typed_param(ps[e.id])]
          n_sites += 1
          construct = f"cache-key:{qual}:{src(ke)[:60]}"
          if not rawp:
            ctx.ok(construct, rel, n.lineno, {"key": src(ke), "raw_parameters": []})
            continue
          for p in rawp:
            if f is fn and p == pname:
              ctx.ok(f"{construct}:{p}", rel, n.lineno,
                     {"key": src(ke), "note": "decided by the constant_to_value:* instances"})
              continue
            typed = any(_mentions_type_of(e, p) or (
                isinstance(e, ast.Name) and e.id != p and any(
                    isinstance(d, ast.Assign) and _mentions_type_of(d.value, p)
                    for d in defs_at(rdf, st, e.id))) for e in elts)
            why = _RAW_KEY_TRIAGE.get((rel, qual, p))
            ctx.check(typed or why is not None, f"{construct}:{p}", rel, n.lineno,
                      f"{qual} memoises on the raw value of `{p}` "
                      f"(key {src(ke)}) without a type({p}) component: equal "
                      "constants of different types (1, 1.0, True) would share "
                      "an entry", {"key": src(ke), "typed": typed, "triaged": why})
  if n_sites < 3:
    raise AnalysisError(f"only {n_sites} cache-key sites found in {_CACHE_FILES}")


def _typed_param(a):
  """The parameter is annotated with something other than Any/object."""
  if a.annotation is None:
    return False
  return (dotted(a.annotation) or src(a.annotation)).split(".")[-1] not in ("Any", "object")


def _qual(mod, node):
  parts = [node.name]
  cur = node
  while cur in mod.parent:
    cur = mod.parent[cur]
    if isinstance(cur, (ast.FunctionDef, ast.ClassDef)):
      parts.append(cur.name)
  return ".".join(reversed(parts))


def _is_recursive(mod, fn, callee):
  h = _resolve_helper(mod, fn, callee)
  if h is None:
    return False
  me = {h.name, f"self.{h.name}"}
  return any(isinstance(c, ast.Call) and dotted(c.func) in me for c in ast.walk(h))


_OPTIONS_OLD = ("  options = [(xval, yval, name)]\n"
                "  if rname and xval.data.cls != yval.data.cls:\n"
                "    # Python does not try the reflected method if the operands have the same\n"
                "    # type.\n"
                "    options.append((yval, xval, rname))\n"
                "    if _overrides(yval.data.cls, xval.data.cls, rname):\n"
                "      # If y is a subclass of x and defines its own reverse operator, then we\n"
                "      # need to try y.__r{op}__ before x.__{op}__.\n"
                "      options.reverse()\n")


def _order_helper(ov_ret="[reflected, forward]", default="[forward, reflected]",
                  reflected="(yval, xval, rname)",
                  call="_binop_dispatch_order(name, rname, xval, yval)",
                  forward_only="not rname or xval.data.cls == yval.data.cls"):
  """the try-order of _call_binop_on_bindings computed by a helper (C14-r1)."""
  vu = "pytype/vm_utils.py"
  return [
      (vu, _OPTIONS_OLD, ""),
      (vu, "  for left_val, right_val, attr_name in options:\n",
       f"  for left_val, right_val, attr_name in {call}:\n"),
      (vu, "def _call_binop_on_bindings(node, name, xval, yval, ctx):\n",
       "def _binop_dispatch_order(name, rname, xval, yval):\n"
       "  forward = (xval, yval, name)\n"
       f"  if {forward_only}:\n"
       "    return [forward]\n"
       f"  reflected = {reflected}\n"
       "  if _overrides(yval.data.cls, xval.data.cls, rname):\n"
       f"    return {ov_ret}\n"
       f"  return {default}\n\n\n"
       "def _call_binop_on_bindings(node, name, xval, yval, ctx):\n")]


def _record_form(first="receiver=xval, operand=yval, method=name",
                 refl="receiver=yval, operand=xval, method=rname",
                 fields=("receiver", "operand", "method"),
                 lookup="attempt.receiver.data, attempt.method",
                 cond="rname and xval.data.cls != yval.data.cls"):
  """The (left, right, method) tuples as a module-local frozen dataclass
  (the shape of benign/C14-b3r1), with room for a defect."""
  vu = "pytype/vm_utils.py"
  return [
      (vu, "def _call_binop_on_bindings(node, name, xval, yval, ctx):\n",
       "@dataclasses.dataclass(frozen=True)\nclass _BinopAttempt:\n"
       + "".join(f"  {f}: {t}\n" for f, t in zip(fields, ("cfg.Binding", "cfg.Binding", "str")))
       + "\n\ndef _call_binop_on_bindings(node, name, xval, yval, ctx):\n"),
      (vu, "  options = [(xval, yval, name)]\n", f"  options = [_BinopAttempt({first})]\n"),
      (vu, "  if rname and xval.data.cls != yval.data.cls:\n", f"  if {cond}:\n"),
      (vu, "    options.append((yval, xval, rname))\n",
       f"    options.append(_BinopAttempt({refl}))\n"),
      (vu, "  for left_val, right_val, attr_name in options:\n",
       "  for attempt in options:\n"
       "    left_val, right_val, attr_name = attempt.receiver, attempt.operand, attempt.method\n"),
      (vu, "        node, left_val.data, attr_name, valself\n",
       f"        node, {lookup}, valself\n")]


B = stubs.BUILTINS
_KEY_TODAY = '    key = ("constant", pyval, _type_key(pyval))\n'
_TUPLE_ARM_TODAY = "    return (tuple, tuple(_type_key(v) for v in pyval))\n"
VARIANTS = [
    {"name": "binops-swap-add-and", "rule": "R14.1", "file": VM, "expect": "fire",
     "old": "        self.byte_BINARY_ADD,\n        self.byte_BINARY_AND,",
     "new": "        self.byte_BINARY_AND,\n        self.byte_BINARY_ADD,"},
    {"name": "binops-inplace-uses-binary", "rule": "R14.1", "file": VM, "expect": "fire",
     "old": "        self.byte_INPLACE_XOR,\n    ]", "new": "        self.byte_BINARY_XOR,\n    ]"},
    {"name": "sub-handler-calls-add", "rule": "R14.2", "file": VM, "expect": "fire",
     "old": '    return self.binary_operator(state, "__sub__")', "new": '    return self.binary_operator(state, "__add__")'},
    {"name": "inplace-mul-wrong-dunder", "rule": "R14.2", "file": VM, "expect": "fire",
     "old": '    return self.inplace_operator(state, "__imul__")', "new": '    return self.inplace_operator(state, "__mul__")'},
    {"name": "operands-swapped-in-helper", "rule": "R14.2", "file": VM, "expect": "fire",
     "old": "          state, name, x, y, report_errors=report_errors, ctx=self.ctx",
     "new": "          state, name, y, x, report_errors=report_errors, ctx=self.ctx"},
    {"name": "rsub-named-radd", "rule": "R14.3", "file": "pytype/pytd/slots.py", "expect": "fire",
     "old": '    Slot("__rsub__", "nb_subtract", "binary_nb", index=1),',
     "new": '    Slot("__radd__", "nb_subtract", "binary_nb", index=1),'},
    {"name": "reverse-tried-with-same-order", "rule": "R14.3", "file": "pytype/vm_utils.py", "expect": "fire",
     "old": "    options.append((yval, xval, rname))", "new": "    options.append((xval, yval, rname))"},
    {"name": "always-reversed", "rule": "R14.3", "file": "pytype/vm_utils.py", "expect": "fire",
     "old": "    if _overrides(yval.data.cls, xval.data.cls, rname):\n", "new": "    if True:\n"},
    {"name": "reflected-first-when-not-overridden", "rule": "R14.3", "file": "pytype/vm_utils.py",
     "expect": "fire",
     "old": "    if _overrides(yval.data.cls, xval.data.cls, rname):\n",
     "new": "    if not _overrides(yval.data.cls, xval.data.cls, rname):\n"},
    {"name": "overrides-test-operands-swapped", "rule": "R14.3", "file": "pytype/vm_utils.py",
     "expect": "fire",
     "old": "    if _overrides(yval.data.cls, xval.data.cls, rname):\n",
     "new": "    if _overrides(xval.data.cls, yval.data.cls, rname):\n"},
    {"name": "twin-options-built-by-insert", "rule": "R14.3", "file": "pytype/vm_utils.py",
     "expect": "silent", "old": _OPTIONS_OLD,
     "new": "  options = [(xval, yval, name)]\n"
            "  if xval.data.cls is yval.data.cls:\n"
            "    pass\n"
            "  elif rname and _overrides(yval.data.cls, xval.data.cls, rname):\n"
            "    options.insert(0, (yval, xval, rname))\n"
            "  elif rname:\n"
            "    options.append((yval, xval, rname))\n"},
    # D66, second half: the reflected option is appended for operands of one class too
    {"name": "revert-D66-reflected-option-for-same-class", "rule": "R14.3",
     "file": "pytype/vm_utils.py", "expect": "fire",
     "old": "  if rname and xval.data.cls != yval.data.cls:\n", "new": "  if rname:\n"},
    {"name": "same-class-test-inverted", "rule": "R14.3", "file": "pytype/vm_utils.py",
     "expect": "fire",
     "old": "  if rname and xval.data.cls != yval.data.cls:\n",
     "new": "  if rname and xval.data.cls == yval.data.cls:\n"},
    {"name": "options-built-in-unknown-way", "rule": "R14.3", "file": "pytype/vm_utils.py",
     "expect": "error", "old": _OPTIONS_OLD,
     "new": "  options = [(xval, yval, name)] + ([(yval, xval, rname)] if rname else [])\n"},
    # the try-order returned by a helper with early returns (benign/C14-r1)
    {"name": "twin-benign-C14-r1-binop-helpers", "rule": "R14.3",
     "patch": "benign/C14-r1/patch.diff", "expect": "silent"},
    {"name": "twin-benign-C06-r3-cache-alias", "rule": "R14.8",
     "patch": "benign/C06-r3/patch.diff", "expect": "silent"},
    {"name": "twin-dispatch-order-helper", "rule": "R14.3", "expect": "silent",
     "edits": _order_helper()},
    # the tuples as a module-local frozen dataclass (benign/C14-b3r1)
    {"name": "twin-benign-C14-b3r1-attempt-records", "rule": "R14.3",
     "patch": "benign/C14-b3r1/patch.diff", "expect": "silent"},
    {"name": "twin-attempt-records", "rule": "R14.3", "expect": "silent", "edits": _record_form()},
    {"name": "twin-attempt-records-positional", "rule": "R14.3", "expect": "silent",
     "edits": _record_form(first="xval, yval, name", refl="yval, xval, method=rname")},
    {"name": "attempt-records-reflected-operands-not-swapped", "rule": "R14.3", "expect": "fire",
     "edits": _record_form(refl="receiver=xval, operand=yval, method=rname")},
    {"name": "attempt-records-positional-reflected-not-swapped", "rule": "R14.3", "expect": "fire",
     "edits": _record_form(refl="xval, yval, rname")},
    {"name": "attempt-records-reflected-for-same-class", "rule": "R14.3", "expect": "fire",
     "edits": _record_form(cond="rname")},
    # positional arguments fill the fields in declaration order: against
    # (operand, receiver, method) the method is looked up on the wrong operand
    {"name": "attempt-records-fields-declared-operand-first", "rule": "R14.3", "expect": "fire",
     "edits": _record_form(first="xval, yval, name", refl="yval, xval, rname",
                           fields=("operand", "receiver", "method"))},
    # the loop looks the method up on the other field
    {"name": "attempt-records-lookup-on-operand", "rule": "R14.3", "expect": "fire",
     "edits": _record_form(lookup="attempt.operand.data, attempt.method")},
    {"name": "twin-attempt-records-declared-operand-first-by-keyword", "rule": "R14.3",
     "expect": "silent", "edits": _record_form(fields=("operand", "receiver", "method"))},
    {"name": "attempt-records-lookup-not-on-a-field", "rule": "R14.3", "expect": "error",
     "edits": _record_form(lookup="xval.data, attempt.method")},
    {"name": "order-helper-never-reflects-first", "rule": "R14.3", "expect": "fire",
     "edits": _order_helper(ov_ret="[forward, reflected]")},
    {"name": "order-helper-reflects-first-by-default", "rule": "R14.3", "expect": "fire",
     "edits": _order_helper(ov_ret="[forward, reflected]", default="[reflected, forward]")},
    {"name": "order-helper-reflected-operands-not-swapped", "rule": "R14.3", "expect": "fire",
     "edits": _order_helper(reflected="(xval, yval, rname)")},
    {"name": "order-helper-called-with-swapped-operands", "rule": "R14.3", "expect": "fire",
     "edits": _order_helper(call="_binop_dispatch_order(name, rname, yval, xval)")},
    {"name": "order-helper-drops-reflected", "rule": "R14.3", "expect": "fire",
     "edits": _order_helper(default="[forward]")},
    {"name": "order-helper-reflects-for-same-class", "rule": "R14.3", "expect": "fire",
     "edits": _order_helper(forward_only="not rname")},
    {"name": "str-loses-getitem", "rule": "R14.4", "file": B, "expect": "fire",
     "old": "class list(List[_T]):", "new": "class list(object):"},
    {"name": "revert-D8-set-sub", "rule": "R14.5", "file": B, "expect": "fire",
     "old": "    def __sub__(self, y: AbstractSet) -> set[_T]: ...", "new": "    def __sub__(self, y: Iterable) -> set[_T]: ..."},
    {"name": "revert-D9-bytearray-add-str", "rule": "R14.5", "file": B, "expect": "fire",
     "old": "    def __add__(self, y: Union[bytes, bytearray]) -> bytearray: ...",
     "new": "    def __add__(self, y: Union[str, bytes, bytearray]) -> bytearray: ..."},
    {"name": "revert-D20-float-index", "rule": "R14.5", "file": B, "expect": "fire",
     "old": "    def __floordiv__(self, y: complex) -> complex: ...\n    def __hex__(self) -> str: ...\n",
     "new": "    def __floordiv__(self, y: complex) -> complex: ...\n    def __hex__(self) -> str: ...\n    def __index__(self) -> int: ...\n"},
    {"name": "str-mul-float", "rule": "R14.5", "file": B, "expect": "fire",
     "old": "    def __mul__(self, n: int) -> str: ...", "new": "    def __mul__(self, n: float) -> str: ..."},
    {"name": "revert-D10-as_integer_ratio", "rule": "R14.6", "file": B, "expect": "fire",
     "old": "    def conjugate(self) -> int: ...\n    def __round__(self, ndigits: int = ...) -> int: ...\n    def as_integer_ratio(self) -> tuple[int, int]: ...\n",
     "new": "    def conjugate(self) -> int: ...\n    def __round__(self, ndigits: int = ...) -> int: ...\n"},
    {"name": "str-gains-decode", "rule": "R14.6", "file": B, "expect": "fire",
     "old": "    def __mod__(self, y) -> str: ...", "new": "    def __mod__(self, y) -> str: ...\n    def decode(self, *args, **kwargs) -> str: ..."},
    {"name": "unsupported-operands-not-reported", "rule": "R14.7", "file": "pytype/vm_utils.py", "expect": "fire",
     "old": "      if not result.bindings:\n        if ctx.options.report_errors:\n          ctx.errorlog.unsupported_operands(ctx.vm.frames, name, x, y)",
     "new": "      if not result.bindings:\n        if ctx.options.report_errors and False:\n          ctx.errorlog.unsupported_operands(ctx.vm.frames, name, x, y)"},
    {"name": "twin-binops-tuple", "rule": "R14.1", "file": VM, "expect": "silent",
     "old": "    binop = binops[op.arg]\n    return binop(state, op)", "new": "    return binops[op.arg](state, op)"},
    # -- R14.8 (the two `twin-` variants also repair the two defects the rule
    # reports on the reference tree, so that they are silent there)
    {"name": "seeded-C14-m2", "rule": "R14.8", "patch": "seeded/C14-m2/patch.diff",
     "expect": "fire"},
    {"name": "constant-key-without-type", "rule": "R14.8", "file": CONVERT, "expect": "fire",
     "old": _KEY_TODAY,
     "new": '    key = ("constant", pyval)\n'},
    {"name": "tuple-key-records-length-only", "rule": "R14.8", "file": CONVERT, "expect": "fire",
     "old": _TUPLE_ARM_TODAY,
     "new": "    return (tuple, len(pyval))\n"},
    # the defect repaired by "the constant cache key records element types recursively"
    {"name": "tuple-key-one-level", "rule": "R14.8", "file": CONVERT, "expect": "fire",
     "old": _TUPLE_ARM_TODAY,
     "new": "    return (tuple, tuple(type(v) for v in pyval))\n"},
    {"name": "literal-memo-on-raw-value", "rule": "R14.8", "file": CONVERT, "expect": "fire",
     "old": "      value = pyval\n    return self.constant_to_value(value, subst)\n",
     "new": "      value = pyval\n    memo = (\"literal\", pyval)\n"
            "    if memo not in self._convert_cache:\n"
            "      self._convert_cache[memo] = self.constant_to_value(value, subst)\n"
            "    return self._convert_cache[memo]\n"},
    {"name": "twin-recursive-type-key-helper", "rule": "R14.8", "expect": "silent",
     "edits": [
         # today's helper in guard-clause style, under another name
         (CONVERT, _KEY_TODAY, '    key = ("constant", pyval, _memo_types(pyval))\n'),
         (CONVERT, "class Converter(utils.ContextWeakrefMixin):\n",
          "def _memo_types(const):\n"
          "  if const.__class__ is tuple:\n"
          "    return (tuple, tuple(_memo_types(v) for v in const))\n"
          "  if const.__class__ is frozenset:\n"
          "    return (frozenset, frozenset((v, _memo_types(v)) for v in const))\n"
          "  return type(const)\n\n\n"
          "class Converter(utils.ContextWeakrefMixin):\n")]},
    {"name": "twin-recursive-type-key-method", "rule": "R14.8", "expect": "silent",
     "edits": [
         (CONVERT, _KEY_TODAY,
          "    memo_type = self._constant_type_key(pyval)\n"
          '    key = ("constant", pyval, memo_type)\n'),
         (CONVERT, "  def _load_late_type(self, late_type):\n",
          "  def _constant_type_key(self, const):\n"
          "    if const.__class__ is tuple or const.__class__ is frozenset:\n"
          "      return (const.__class__,\n"
          "              tuple(sorted((repr(e), repr(self._constant_type_key(e)))\n"
          "                           for e in const)))\n"
          "    return const.__class__\n\n"
          "  def _load_late_type(self, late_type):\n")]},
]

EXPLANATION += (
    "  R14.22 (rules/c14_overrides.py): the predicate behind R14.3's "
    "`_overrides(y.cls, x.cls, rop)` - found by role: the module function "
    "_call_binop_on_bindings (or a helper it calls) hands (<right>.data.cls, "
    "<left>.data.cls, <reflected name>) - is *evaluated* from its AST "
    "together with the other path conditions of the option list of "
    "_call_binop_on_bindings (the list is enumerated path by path as in "
    "R14.3; `rname`, the comparison of the operands' classes, once-bound "
    "flags and the predicate call are interpreted by rules/_minieval.py; "
    "module-local helpers such as _base and _provider are interpreted too) "
    "over a class model (.mro, .members[name].bindings, eagerly filled "
    "like InterpreterClass or lazily through load_lazy_attribute like "
    "PyTDClass) for every ordered pair of classes of a small scope of "
    "hierarchies: the chain A<-B<-C with a sibling S(A) under all 64 "
    "placements of __sub__/__rsub__, and D(M, B) with a mixin in front.  The "
    "sequence of methods pytype looks up along the option list must be the "
    "sequence of methods the host CPython calls on real classes of the same "
    "shape (built with type(); both methods log and return NotImplemented): "
    "the reflected method is tried only for operands of different classes; the "
    "reflected method goes first only when the right operand's class is a "
    "proper subclass of the left's and provides another implementation than "
    "the left operand's class sees (binary_op1 / method_is_overloaded).  "
    "R14.22 leaves out pairs in which only one of the two methods exists.  "
    "R14.23 (rules/c14_overrides_lookup.py) is the complete form, active "
    "since D66 was repaired: the same evaluation over the chain, "
    "mixin-in-front, mixin-behind D(B, M) and diamond Y(X, Z) worlds - the "
    "layouts in which a class *behind* the left operand's class in the right "
    "operand's MRO that is not its ancestor provides the reflected method, "
    "where the pre-D66 `_overrides` (MRO scan stopping at the left class) "
    "disagreed with CPython's provider comparison (method_is_overloaded) - "
    "and with the pairs that have only one of the two methods included, so "
    "that `C() - C()` for a class with only __rsub__ (TypeError in CPython: "
    "no reflected attempt for equal types) must come out as 'nothing "
    "looked up after the forward method'.  Blind spots of R14.22/R14.23: "
    "ParameterizedClass operands (the _base unwrapping is executed but never "
    "exercised with a wrapper), metaclass-provided operators, operand classes "
    "that compare equal without being identical, and hierarchies larger than "
    "four classes.  "
    "R14.24 (rules/c14_visibility.py): the attribute handler's visibility "
    "filter (found by role: `attr = self.<m>(node, attr)` re-binding its own "
    "argument before `return node, attr`; today _filter_var, two sites) and "
    "the module-local helpers it hands the variable to read `<input>.bindings` "
    "only as a size query, on a path that establishes at most one binding "
    "(len tests are solved arithmetically), or as the source of a "
    "comprehension filtered per binding by IsVisible(node)/HasCombination; "
    "every Bindings/Filter/FilteredData/Data query names the node parameter; "
    "the input is returned unfiltered only under a test comparing it with a "
    "solver answer; the filter asks the solver at all; and in attribute.py / "
    "vm.py a function that touches a reachability API (is_reachable, "
    "CanHaveCombination) reads no variable's .bindings.  Reachability does not "
    "model shadowing: `box.num = 'one'` pastes into the same member variable "
    "and only the solver hides the value from __init__, so a stale binding "
    "that supports `+ 1` silences the plain type mistake.  Blind spots of "
    "R14.24: lookups that bypass the filter (members read directly by the VM), "
    "a per-binding solver test inside a for-loop (analysis error), and the "
    "correctness of the solver itself (C07-C09).")
ASSUMPTIONS += [
    "R14.22: the host CPython's dispatch order for user classes is the "
    "reference; a method counts as 'defined by a class' when the class's "
    "members map holds a variable with at least one binding; aliasing one "
    "function object under a class attribute of two classes is not modelled",
    "R14.24: Variable.Bindings/Filter/FilteredData/Data and "
    "Binding.IsVisible / CFGNode.HasCombination are the solver's visibility "
    "API; Program.is_reachable and CFGNode.CanHaveCombination are "
    "reachability-only approximations (typegraph/cfg.cc)",
]

EXPLANATION += (
    "  R14.25 (rules/c14_location_keys.py): pytype hands out one abstract "
    "object per code location by memoising on the opcode being executed "
    "(`<..>.current_opcode`: the Instance a class call creates, the Unknown "
    "of a call, the instance an annotation is instantiated to); what keeps "
    "`a, b = A(), A()` two objects - so that `a.foo = 1; b.foo` is flagged - "
    "is that the memo key is as fine as the opcode's identity.  In every "
    "non-test module that mentions current_opcode, every function that both "
    "stores into a container under a key and looks it up under the same key "
    "(`D[K] = ..`/setdefault with `D[K]`/`K in D`/`D.get(K)`) has its key "
    "followed through reaching definitions, or/and/conditional expressions, "
    "tuples and module-local or same-class helpers; a key alternative that "
    "is derived from the current opcode must hold the opcode object itself "
    "or both its code object and its index; line, code.name, code.filename, "
    "index alone, type(op), str(op) are shared by distinct opcodes and are "
    "reported.  No class of pyc/opcodes.py may define __eq__/__hash__ "
    "(identity equality is what makes the opcode a location).  Blind spots "
    "of R14.25: opcodes that reach a memo through a parameter or a frame "
    "field other than current_opcode, helpers in other modules, a key that "
    "lacks a location component altogether (the instances then vanish: floor "
    "-> analysis error, not a violation), and pytype/rewrite/.")
ASSUMPTIONS += [
    "R14.25: an attribute named current_opcode holds the opcode being "
    "executed (vm.VirtualMachine.current_opcode, state.Frame.current_opcode); "
    "Opcode.index is unique within one code object and Opcode.code is the "
    "code object it belongs to",
]

EXPLANATION += (
    "\n\nR14.3 / R14.22 / R14.23, options as records: the (left, right, method) "
    "options the dispatch loop walks may be instances of a module-local record "
    "class - a @dataclasses.dataclass class without bases or a direct "
    "typing.NamedTuple subclass whose generated constructor takes exactly its "
    "annotated fields (rules/_util_c16c19.record_fields) - constructed "
    "positionally or by keyword.  A record is read as the tuple of its fields; "
    "which field is the receiver, which the method name and which the other "
    "operand is decided by use, not by spelling: the loop's single "
    "get_attribute call must look `t.<method field>` up on `t.<receiver "
    "field>.data` (record_loop_roles), anything else is an AnalysisError.  "
    "Positional arguments fill the fields in declaration order, so a class "
    "declaring (operand, receiver, method) and built positionally fires."
)
ASSUMPTIONS += [
    "R14.3/R14.22 (records): a class decorated with dataclasses.dataclass / "
    "deriving typing.NamedTuple that defines no __init__/__new__/__post_init__ "
    "has the generated constructor (fields in declaration order, by position or "
    "keyword) and attribute reads return the constructor arguments",
]
