"""C14 - errors on ground code are real; plain mistakes are caught.

Decides operator tables and, for ground builtin operands, that the stubs
accept exactly what CPython accepts (through the static admission model of
sa/stubs.py compared with frozen CPython reference tables).  Does NOT decide
overload resolution in general, user classes, or method-call argument checks.
"""
import ast
import opcode

from sa.core import rule, AnalysisError
from sa.pyindex import get_module, dotted, src, calls_in, kwarg, try_fold
from sa import flow, stubs
from refs import cpython312 as REF

TECHNIQUE = ("static analysis: operator/dunder table extraction checked "
             "against CPython's opcode tables; static model of stub argument "
             "admission over builtins.pytd/typing.pytd compared with frozen "
             "CPython acceptance tables")
EXPLANATION = (
    "R14.1 the BINARY_OP dispatch list equals opcode._nb_ops position by "
    "position; R14.2 every BINARY_*/INPLACE_*/UNARY_* handler passes the "
    "dunder its name denotes; R14.3 the reflected-operator table derived from "
    "SLOTS pairs __op__ with __rop__, _call_binop_on_bindings tries (x,y,op) "
    "then (y,x,rop), and the in-place fallback strips the leading i; R14.4 "
    "for 16 builtin types the presence of +,-,*,/,neg,[] (and len/iter/"
    "contains/call) along the stub MRO equals CPython's; R14.5 for 14 ground "
    "builtin types the stub operator signatures admit an operand pair iff "
    "CPython accepts it (missed-error direction for + - * / unary-minus and "
    "subscripting, false-alarm direction for all 13 binary operators); R14.6 "
    "the public attribute surface of 16 builtin types in the stub equals "
    "CPython 3.12's; R14.7 an operator with no result and no error reports "
    "unsupported-operands, otherwise the binder error. These decide the "
    "property for ground builtin operands up to the fidelity of the admission "
    "model (calibrated against the real matcher at design time: 2542/2548 "
    "cases); user classes, method-call arguments and overload resolution in "
    "general are not decided.")
ASSUMPTIONS = [
    "refs/cpython312.py (host CPython introspection on sample values) is the "
    "oracle for operator acceptance and attribute surfaces",
    "the static admission model (nominal | compat table | structural protocol "
    "| union; class-scoped TypeVars = unknown, not compared) mirrors the "
    "matcher for ground builtin operands",
    "types implemented by overlays (property, super, type) are excluded",
]

VM = "pytype/vm.py"

_NB = {"ADD": "add", "AND": "and", "FLOOR_DIVIDE": "floordiv", "LSHIFT": "lshift",
       "MATRIX_MULTIPLY": "matmul", "MULTIPLY": "mul", "REMAINDER": "mod",
       "MODULO": "mod", "OR": "or", "POWER": "pow", "RSHIFT": "rshift",
       "SUBTRACT": "sub", "TRUE_DIVIDE": "truediv", "XOR": "xor"}
_UNARY = {"UNARY_NEGATIVE": "__neg__", "UNARY_POSITIVE": "__pos__",
          "UNARY_INVERT": "__invert__"}


@rule("R14.1", "C14", floor=26)
def r14_1(ctx):
  """binops list == opcode._nb_ops order."""
  mod = get_module(ctx, VM)
  fn = mod.func("VirtualMachine.byte_BINARY_OP")
  lst = None
  for n in ast.walk(fn):
    if isinstance(n, ast.Assign) and dotted(n.targets[0]) == "binops" and \
        isinstance(n.value, (ast.List, ast.Tuple)):
      lst = n.value
  if lst is None:
    raise AnalysisError("byte_BINARY_OP: binops list literal not found")
  idx = [n for n in ast.walk(fn) if isinstance(n, ast.Subscript)
         and dotted(n.value) == "binops"]
  ctx.check(len(idx) == 1 and src(idx[0].slice) == "op.arg", "binops[op.arg]", VM,
            fn.lineno, "the dispatch list must be indexed by op.arg")
  ref = opcode._nb_ops  # [(NB_ADD, '+'), ...]
  for i, (nb, sym) in enumerate(ref):
    name = nb[3:]
    inplace = name.startswith("INPLACE_")
    base = name[len("INPLACE_"):] if inplace else name
    want = {f"self.byte_{'INPLACE' if inplace else 'BINARY'}_{alt}"
            for alt in ([base] + (["MODULO"] if base == "REMAINDER" else []))}
    got = dotted(lst.elts[i]) if i < len(lst.elts) else None
    ctx.check(got in want, f"{nb}", VM, lst.lineno,
              f"binops[{i}] is {got} but CPython's {nb} ({sym}) is operation "
              f"number {i}", {"index": i, "got": got})
  ctx.check(len(lst.elts) == len(ref), "binops-length", VM, lst.lineno,
            f"{len(lst.elts)} entries, CPython has {len(ref)}")


@rule("R14.2", "C14", floor=30)
def r14_2(ctx):
  """Each operator handler passes the dunder its name denotes."""
  mod = get_module(ctx, VM)
  ms = mod.methods("VirtualMachine")
  for name, fn in sorted(ms.items()):
    if not name.startswith("byte_"):
      continue
    op = name[5:]
    want = helper = None
    if op in _UNARY:
      want, helper = _UNARY[op], "unary_operator"
    elif op == "BINARY_SUBSCR":
      want, helper = "__getitem__", "binary_operator"
    elif op.startswith("BINARY_") and op[7:] in _NB:
      want, helper = f"__{_NB[op[7:]]}__", "binary_operator"
    elif op.startswith("INPLACE_") and op[8:] in _NB:
      want, helper = f"__i{_NB[op[8:]]}__", "inplace_operator"
    else:
      continue
    calls = [c for c in calls_in(fn) if dotted(c.func) == f"self.{helper}"]
    got = [try_fold(c.args[1]) for c in calls if len(c.args) > 1]
    ctx.check(got == [want], op, VM, fn.lineno,
              f"{name} calls {helper} with {got}, expected [{want!r}]",
              {"helper": helper, "dunder": got})
  # the helpers forward the name unchanged
  for helper, callee in (("binary_operator", "call_binary_operator"),
                         ("inplace_operator", "call_inplace_operator")):
    fn = ms[helper]
    c = [x for x in calls_in(fn) if (dotted(x.func) or "").endswith(callee)]
    ok = len(c) == 1 and [src(a) for a in c[0].args[:4]] == ["state", "name", "x", "y"]
    pop = [src(n) for n in ast.walk(fn) if isinstance(n, ast.Assign)
           and "popn(2)" in src(n.value)]
    ok = ok and pop == ["state, (x, y) = state.popn(2)"]
    ctx.check(ok, f"{helper}:forwards", VM, fn.lineno,
              f"{helper} must pop (x, y) and forward (state, name, x, y) to {callee}")


@rule("R14.3", "C14", floor=16)
def r14_3(ctx):
  """Reflected operators."""
  rel = "pytype/pytd/slots.py"
  mod = get_module(ctx, rel)
  node = mod.const("SLOTS")
  if not isinstance(node, ast.List):
    raise AnalysisError("slots.SLOTS is not a list literal")
  slots = []
  for e in node.elts:
    if not (isinstance(e, ast.Call) and dotted(e.func) == "Slot"):
      raise AnalysisError("SLOTS element is not a Slot(...) call")
    pos = [try_fold(a) for a in e.args]
    kw = {k.arg: try_fold(k.value) for k in e.keywords}
    slots.append({"python_name": pos[0], "c_name": pos[1], "index": kw.get("index"),
                  "line": e.lineno})
  fwd = [s for s in slots if s["index"] == 0]
  rev = {s["c_name"]: s for s in slots if s["index"] == 1}
  dup = [s["c_name"] for s in slots if s["index"] == 1]
  if len(dup) != len(set(dup)):
    raise AnalysisError("two index=1 slots share a c_name")
  for s in fwd:
    r = rev.get(s["c_name"])
    want = "__r" + s["python_name"][2:]
    ctx.check(r is not None and r["python_name"] == want, f"reverse:{s['python_name']}",
              rel, s["line"], f"the reflected method of {s['python_name']} is "
              f"{r and r['python_name']}, expected {want}", {"c_name": s["c_name"]})
  # the mapping function builds forward->reverse by c_name
  fn = mod.func("_ReverseNameMapping")
  comps = [n for n in ast.walk(fn) if isinstance(n, ast.DictComp)]
  shape = sorted((src(c.key), src(c.value), [src(i) for g in c.generators for i in g.ifs])
                 for c in comps)
  want = sorted([("slot.c_name", "slot.python_name", ["slot.index == 1"]),
                 ("slot.python_name", "c_name_to_reverse[slot.c_name]", ["slot.index == 0"])])
  ctx.check(shape == want, "_ReverseNameMapping", rel, fn.lineno,
            f"mapping construction is {shape}", {"shape": str(shape)})
  vu = get_module(ctx, "pytype/vm_utils.py")
  fn = vu.func("_call_binop_on_bindings")
  init = [src(n.value) for n in ast.walk(fn) if isinstance(n, ast.Assign)
          and dotted(n.targets[0]) == "options"]
  app = [src(c.args[0]) for c in calls_in(fn) if dotted(c.func) == "options.append"]
  rv = [c for c in calls_in(fn) if dotted(c.func) == "options.reverse"]
  ok = init == ["[(xval, yval, name)]"] and app == ["(yval, xval, rname)"] and len(rv) == 1
  if ok:
    g = flow.guards_txt(vu.parent, vu.enclosing_stmt(rv[0]))
    need = {("_overrides(yval.data.cls, xval.data.cls, rname)", True), ("rname", True)}
    ok = need <= set(g) and all(p is False or (t, p) in need for t, p in g)
  ctx.check(ok, "_call_binop_on_bindings:order", vu.rel, fn.lineno,
            "operands must be tried as (x, y, op) then (y, x, rop), reversed "
            "only when y's class overrides the reflected method",
            {"init": init, "append": app})
  rn = [src(n.value) for n in ast.walk(fn) if isinstance(n, ast.Assign)
        and dotted(n.targets[0]) == "rname"]
  ctx.check(rn == ["slots.REVERSE_NAME_MAPPING.get(name)"], "_call_binop_on_bindings:rname",
            vu.rel, fn.lineno, f"rname = {rn}", {"rname": rn})
  fn = vu.func("call_inplace_operator")
  nm = [src(n.value) for n in ast.walk(fn) if isinstance(n, ast.Assign)
        and dotted(n.targets[0]) == "name"]
  ctx.check(nm == ["iname.replace('i', '', 1)"], "call_inplace_operator:fallback-name",
            vu.rel, fn.lineno, f"the fallback name is computed as {nm}; "
            "__iadd__ must fall back to __add__", {"name": nm})
  c = [x for x in calls_in(fn) if dotted(x.func) == "call_binary_operator"]
  ok = len(c) == 1 and [src(a) for a in c[0].args[:4]] == ["state", "name", "x", "y"]
  ctx.check(ok, "call_inplace_operator:fallback-call", vu.rel, fn.lineno,
            "the fallback must call the plain operator on the same operands")


SURFACE_EXCLUDED = {}


@rule("R14.4", "C14", floor=140)
def r14_4(ctx):
  """Operator dunder presence along the stub MRO == CPython."""
  st = stubs.get_stubs(ctx)
  for tn in REF.SURFACE_TYPES:
    t = st.cls(f"builtins.{tn}")
    for d, want in sorted(REF.DUNDER_PRESENCE[tn].items()):
      if d in ("__hash__", "__reversed__", "__mod__", "__contains__"):
        # __hash__/__reversed__: R2.5 (Hashable/Reversible); __mod__: R14.5;
        # __contains__: `in` falls back to iteration, presence is not observable
        continue
      got = st.defines(t, d)
      if d == "__iter__" and not got and st.defines(t, "__getitem__"):
        continue  # implicit iteration protocol
      ctx.check(got == want, f"{tn}.{d}", stubs.BUILTINS, t.line,
                f"{tn}.{d}: stub {'defines' if got else 'lacks'} it, CPython "
                f"{'has' if want else 'lacks'} it", {"stub": got, "cpython": want})


def _op_verdict(st, adm, a, b, dunder):
  """admit/reject/unknown for `a <op> b` under the stub, mimicking
  _call_binop_on_bindings (forward, then reflected on the right operand)."""
  res = []
  rd = "__r" + dunder[2:]
  for left, right, name in ((a, b, dunder), (b, a, rd)):
    owner, entries = st.lookup(left, name)
    if entries is None or not st.defines(left, name):
      res.append(stubs.REJECT)
      continue
    over = []
    for e in entries:
      if not isinstance(e, stubs.Method):
        over.append(stubs.UNKNOWN)
        continue
      params, va, kw = e.params()
      if not params:
        over.append(stubs.ADMIT if va else stubs.REJECT)
        continue
      required = [p for p in params if not p[2]]
      if len(required) > 1:
        over.append(stubs.REJECT)
        continue
      over.append(adm.admits(right, params[0][1], owner))
    res.append(adm._any(over))
  return adm._any(res)


def _unary_verdict(st, t, dunder):
  return stubs.ADMIT if st.defines(t, dunder) else stubs.REJECT


LISTED = {"__add__", "__sub__", "__mul__", "__truediv__"}


@rule("R14.5", "C14", floor=2500)
def r14_5(ctx):
  """Operator acceptance on ground builtin operands == CPython."""
  st = stubs.get_stubs(ctx)
  adm = ctx.memo(("admission",), lambda: stubs.Admission(ctx, st))
  unknown = 0
  for (op, a, b), want in sorted(REF.BINOP_ACCEPTS.items()):
    ta, tb = st.cls(f"builtins.{a}"), st.cls(f"builtins.{b}")
    v = _op_verdict(st, adm, ta, tb, op)
    key = f"{a}{op}{b}"
    if v == stubs.UNKNOWN:
      unknown += 1
      ctx.ok(key, stubs.BUILTINS, ta.line, {"verdict": "unknown (class-scoped TypeVar): not compared"})
      continue
    got = v == stubs.ADMIT
    if got and not want:
      if op in LISTED:
        ctx.bad(key, stubs.BUILTINS, ta.line,
                f"`{a} {op} {b}` raises TypeError in CPython but the stub "
                f"signatures admit it: the mistake is not flagged",
                {"stub": "accepts", "cpython": "TypeError"})
      else:
        ctx.ok(key, stubs.BUILTINS, ta.line, {"note": "stub more permissive; operator not in the advertised set"})
    elif want and not got:
      ctx.bad(key, stubs.BUILTINS, ta.line,
              f"`{a} {op} {b}` runs cleanly in CPython but the stub "
              f"signatures reject it: clean code is flagged",
              {"stub": "rejects", "cpython": "accepts"})
    else:
      ctx.ok(key, stubs.BUILTINS, ta.line, {"accepts": got})
  for a, want in sorted(REF.NEG_ACCEPTS.items()):
    ta = st.cls(f"builtins.{a}")
    got = _unary_verdict(st, ta, "__neg__") == stubs.ADMIT
    ctx.check(got == want, f"-{a}", stubs.BUILTINS, ta.line,
              f"unary minus on {a}: stub {'accepts' if got else 'rejects'}, "
              f"CPython {'accepts' if want else 'raises TypeError'}",
              {"stub": got, "cpython": want})
  for (a, b), want in sorted(REF.SUBSCR_ACCEPTS.items()):
    ta, tb = st.cls(f"builtins.{a}"), st.cls(f"builtins.{b}")
    owner, entries = st.lookup(ta, "__getitem__")
    key = f"{a}[{b}]"
    if entries is None or not st.defines(ta, "__getitem__"):
      v = stubs.REJECT
    else:
      over = []
      for e in entries:
        if isinstance(e, stubs.Method):
          params, va, kw = e.params()
          over.append(adm.admits(tb, params[0][1], owner) if params else
                      (stubs.ADMIT if va else stubs.REJECT))
      v = adm._any(over)
    if v == stubs.UNKNOWN:
      unknown += 1
      ctx.ok(key, stubs.BUILTINS, ta.line, {"verdict": "unknown (class-scoped TypeVar): not compared"})
      continue
    got = v == stubs.ADMIT
    ctx.check(got == want, key, stubs.BUILTINS, ta.line,
              f"`{a}[{b}]`: stub {'accepts' if got else 'rejects'}, CPython "
              f"{'accepts' if want else 'raises TypeError'}",
              {"stub": got, "cpython": want})
  ctx.note(f"R14.5: {unknown} cases not compared (annotation mentions a class-scoped TypeVar)")


@rule("R14.6", "C14", floor=16)
def r14_6(ctx):
  """Public attribute surface of builtin types == CPython 3.12."""
  st = stubs.get_stubs(ctx)
  for tn in REF.SURFACE_TYPES:
    t = st.cls(f"builtins.{tn}")
    have = st.names(t)
    want = set(REF.ATTR_SURFACE[tn])
    missing = sorted(want - have)
    extra = sorted(have - want)
    for n in missing:
      ctx.bad(f"{tn}:missing:{n}", stubs.BUILTINS, t.line,
              f"{tn}.{n} exists in CPython 3.12 but not along the stub MRO: "
              f"clean code using it is flagged [attribute-error]", {"name": n})
    for n in extra:
      ctx.bad(f"{tn}:extra:{n}", stubs.BUILTINS, t.line,
              f"{tn}.{n} is defined along the stub MRO but CPython 3.12 raises "
              f"AttributeError: the mistake is not flagged", {"name": n})
    if not missing and not extra:
      ctx.ok(f"{tn}:surface", stubs.BUILTINS, t.line, {"public_names": len(have)})
    else:
      ctx.ok(f"{tn}:surface-compared", stubs.BUILTINS, t.line,
             {"public_names": len(have), "missing": missing, "extra": extra})


@rule("R14.7", "C14", floor=3)
def r14_7(ctx):
  """Reporting of failed operators."""
  vu = get_module(ctx, "pytype/vm_utils.py")
  fn = vu.func("call_binary_operator")
  uo = [c for c in calls_in(fn) if (dotted(c.func) or "").endswith("errorlog.unsupported_operands")]
  ic = [c for c in calls_in(fn) if (dotted(c.func) or "").endswith("errorlog.invalid_function_call")]
  if len(uo) != 1 or len(ic) != 1:
    raise AnalysisError("call_binary_operator: reporting calls not found")
  g = set(flow.guards_txt(vu.parent, vu.enclosing_stmt(uo[0])))
  want = {("report_errors", True), ("error is None", True), ("result.bindings", False),
          ("ctx.options.report_errors", True)}
  ctx.check(g == want, "unsupported_operands:guard", vu.rel, uo[0].lineno,
            f"unsupported-operands must be reported exactly when errors are "
            f"reported, no binder error was saved and there is no result; "
            f"guards={sorted(g)}", {"guards": sorted(g)})
  ctx.check([src(a) for a in uo[0].args[1:]] == ["name", "x", "y"],
            "unsupported_operands:args", vu.rel, uo[0].lineno,
            "the report must name the operator and both operands")
  g = set(flow.guards_txt(vu.parent, vu.enclosing_stmt(ic[0])))
  ok = ("report_errors", True) in g and ("error is None", False) in g and \
      ("ctx.options.report_errors", True) in g
  ctx.check(ok, "invalid_function_call:guard", vu.rel, ic[0].lineno,
            f"a saved binder error must be reported; guards={sorted(g)}",
            {"guards": sorted(g)})
  er = get_module(ctx, "pytype/errors/errors.py")
  fn = er.func("VmErrorLog.invalid_function_call")
  arm = None
  for n in ast.walk(fn):
    if isinstance(n, ast.If) and src(n.test) == "isinstance(error, error_types.NotCallable)":
      arm = [src(s) for s in n.body]
  ctx.check(arm is not None and any(a.startswith("self.not_callable(") for a in arm),
            "invalid_function_call:NotCallable", er.rel, fn.lineno,
            f"NotCallable must be dispatched to not_callable; arm={arm}", {"arm": arm})
  ms = er.methods("VmErrorLog")
  for m, name in (("not_callable", "not-callable"), ("_unsupported_operands", "unsupported-operands"),
                  ("_attribute_error", "attribute-error")):
    if m not in ms:
      raise AnalysisError(f"VmErrorLog.{m} not found")
    decs = [try_fold(d.args[0]) for d in ms[m].decorator_list
            if isinstance(d, ast.Call) and dotted(d.func) == "_error_name" and d.args]
    ctx.check(decs == [name], f"{m}:error-name", er.rel, ms[m].lineno,
              f"{m} is registered as {decs}, expected [{name!r}]", {"names": decs})


B = stubs.BUILTINS
VARIANTS = [
    {"name": "binops-swap-add-and", "rule": "R14.1", "file": VM, "expect": "fire",
     "old": "        self.byte_BINARY_ADD,\n        self.byte_BINARY_AND,",
     "new": "        self.byte_BINARY_AND,\n        self.byte_BINARY_ADD,"},
    {"name": "binops-inplace-uses-binary", "rule": "R14.1", "file": VM, "expect": "fire",
     "old": "        self.byte_INPLACE_XOR,\n    ]", "new": "        self.byte_BINARY_XOR,\n    ]"},
    {"name": "sub-handler-calls-add", "rule": "R14.2", "file": VM, "expect": "fire",
     "old": '    return self.binary_operator(state, "__sub__")', "new": '    return self.binary_operator(state, "__add__")'},
    {"name": "inplace-mul-wrong-dunder", "rule": "R14.2", "file": VM, "expect": "fire",
     "old": '    return self.inplace_operator(state, "__imul__")', "new": '    return self.inplace_operator(state, "__mul__")'},
    {"name": "operands-swapped-in-helper", "rule": "R14.2", "file": VM, "expect": "fire",
     "old": "          state, name, x, y, report_errors=report_errors, ctx=self.ctx",
     "new": "          state, name, y, x, report_errors=report_errors, ctx=self.ctx"},
    {"name": "rsub-named-radd", "rule": "R14.3", "file": "pytype/pytd/slots.py", "expect": "fire",
     "old": '    Slot("__rsub__", "nb_subtract", "binary_nb", index=1),',
     "new": '    Slot("__radd__", "nb_subtract", "binary_nb", index=1),'},
    {"name": "reverse-tried-with-same-order", "rule": "R14.3", "file": "pytype/vm_utils.py", "expect": "fire",
     "old": "    options.append((yval, xval, rname))", "new": "    options.append((xval, yval, rname))"},
    {"name": "always-reversed", "rule": "R14.3", "file": "pytype/vm_utils.py", "expect": "fire",
     "old": "    if _overrides(yval.data.cls, xval.data.cls, rname):\n", "new": "    if True:\n"},
    {"name": "str-loses-getitem", "rule": "R14.4", "file": B, "expect": "fire",
     "old": "class list(List[_T]):", "new": "class list(object):"},
    {"name": "revert-D8-set-sub", "rule": "R14.5", "file": B, "expect": "fire",
     "old": "    def __sub__(self, y: AbstractSet) -> set[_T]: ...", "new": "    def __sub__(self, y: Iterable) -> set[_T]: ..."},
    {"name": "revert-D9-bytearray-add-str", "rule": "R14.5", "file": B, "expect": "fire",
     "old": "    def __add__(self, y: Union[bytes, bytearray]) -> bytearray: ...",
     "new": "    def __add__(self, y: Union[str, bytes, bytearray]) -> bytearray: ..."},
    {"name": "revert-D20-float-index", "rule": "R14.5", "file": B, "expect": "fire",
     "old": "    def __hex__(self) -> str: ...\n    if PYTYPE_OPTIONS.strict_primitive_comparisons:\n        def __lt__(self, y: float, /) -> bool: ...",
     "new": "    def __hex__(self) -> str: ...\n    def __index__(self) -> int: ...\n    if PYTYPE_OPTIONS.strict_primitive_comparisons:\n        def __lt__(self, y: float, /) -> bool: ..."},
    {"name": "str-mul-float", "rule": "R14.5", "file": B, "expect": "fire",
     "old": "    def __mul__(self, n: int) -> str: ...", "new": "    def __mul__(self, n: float) -> str: ..."},
    {"name": "revert-D10-as_integer_ratio", "rule": "R14.6", "file": B, "expect": "fire",
     "old": "    def conjugate(self) -> int: ...\n    def __round__(self, ndigits: int = ...) -> int: ...\n    def as_integer_ratio(self) -> tuple[int, int]: ...\n",
     "new": "    def conjugate(self) -> int: ...\n    def __round__(self, ndigits: int = ...) -> int: ...\n"},
    {"name": "str-gains-decode", "rule": "R14.6", "file": B, "expect": "fire",
     "old": "    def __mod__(self, y) -> str: ...", "new": "    def __mod__(self, y) -> str: ...\n    def decode(self, *args, **kwargs) -> str: ..."},
    {"name": "unsupported-operands-not-reported", "rule": "R14.7", "file": "pytype/vm_utils.py", "expect": "fire",
     "old": "      if not result.bindings:\n        if ctx.options.report_errors:\n          ctx.errorlog.unsupported_operands(ctx.vm.frames, name, x, y)",
     "new": "      if not result.bindings:\n        if ctx.options.report_errors and False:\n          ctx.errorlog.unsupported_operands(ctx.vm.frames, name, x, y)"},
    {"name": "twin-binops-tuple", "rule": "R14.1", "file": VM, "expect": "silent",
     "old": "    binop = binops[op.arg]\n    return binop(state, op)", "new": "    return binops[op.arg](state, op)"},
]
