"""E7 schema reader for pytd/pytd.py + parse/node.py, shared by rules/c04.py and rules/c12.py

(rules/_schema.py is a different helper, owned by c17/c18.)

Reads, from the AST only: the `Node` class hierarchy, msgspec struct options
(`frozen`, `eq`), the annotated fields of every Node class (own + inherited)
with the union aliases (`TypeU`, `TypeParameterU`, `SetOfTypesU`,
`GenericTypeU`, ...) expanded to the set of Node classes a field admits.

Also hosts `serialisation_instances`, the encoder / gzip / dependency-order
obligations that R4.4 and R12.4 both state.
"""
from __future__ import annotations

import ast
import dataclasses

from sa.core import AnalysisError
from sa.pyindex import get_module, dotted, src, kwarg, calls_in
from sa import flow

PYTD = "pytype/pytd/pytd.py"
NODE = "pytype/pytd/parse/node.py"
PICKLE = "pytype/imports/pickle_utils.py"
SERIALIZE = "pytype/pytd/serialize_ast.py"

# annotation atoms that are not Node classes
_ATOMS = {"str", "int", "bool", "float", "bytes", "None", "Any", "object"}
_CONTAINERS = {"tuple", "list", "dict", "set", "frozenset", "Tuple", "List",
               "Dict", "Set", "FrozenSet", "Sequence", "Mapping"}


@dataclasses.dataclass
class ClassInfo:
  name: str
  bases: list
  node: ast.ClassDef
  options: dict          # struct keyword options given on this class
  own_fields: list       # [(name, annotation node, has_default)]


class Schema:
  """The pytd Node schema as written in the source."""

  def __init__(self, ctx):
    self.mod = get_module(ctx, PYTD)
    self.node_mod = get_module(ctx, NODE)
    self.classes: dict[str, ClassInfo] = {}
    self.aliases: dict[str, ast.AST] = {}
    self.other_classes: set[str] = set()
    root = self.node_mod.cls("Node")
    self.classes["Node"] = self._info(root, ["<Struct>"])
    # `Node = node.Node` alias in pytd.py
    alias = self.mod.assigns.get("Node")
    if alias is None or dotted(alias) != "node.Node":
      raise AnalysisError("pytd.py: `Node = node.Node` alias not found")
    for st in self.mod.tree.body:
      if isinstance(st, ast.ClassDef):
        bases = [dotted(b) for b in st.bases]
        if None in bases:
          raise AnalysisError(f"pytd.{st.name}: unreadable base list")
        if any(b in self.classes for b in bases):
          self.classes[st.name] = self._info(st, bases)
        else:
          self.other_classes.add(st.name)
      elif isinstance(st, ast.Assign) and len(st.targets) == 1 and \
          isinstance(st.targets[0], ast.Name):
        self.aliases[st.targets[0].id] = st.value
    if len(self.classes) < 20:
      raise AnalysisError(
          f"pytd schema: only {len(self.classes)} Node classes found")

  def _info(self, cd, bases):
    opts = {}
    for k in cd.keywords:
      if k.arg is None:
        raise AnalysisError(f"{cd.name}: **kwargs in class keywords")
      if isinstance(k.value, ast.Constant):
        opts[k.arg] = k.value.value
      else:
        opts[k.arg] = src(k.value)
    fields = []
    for st in cd.body:
      if isinstance(st, ast.AnnAssign) and isinstance(st.target, ast.Name):
        ann = st.annotation
        if isinstance(ann, ast.Subscript) and \
            (dotted(ann.value) or "").split(".")[-1] == "ClassVar":
          continue
        fields.append((st.target.id, ann, st.value is not None))
    return ClassInfo(cd.name, bases, cd, opts, fields)

  # -- hierarchy ------------------------------------------------------------
  def is_node(self, name):
    return name in self.classes

  def ancestors(self, name):
    out, todo = [], list(self.classes[name].bases)
    while todo:
      b = todo.pop(0)
      if b in self.classes and b not in out:
        out.append(b)
        todo.extend(self.classes[b].bases)
    return out

  def subclasses(self, name):
    """All transitive subclasses (excluding name)."""
    return [c for c in self.classes if c != name and name in self.ancestors(c)]

  def option(self, name, opt, default=None):
    """Struct option as inherited along the (single-inheritance) chain."""
    for c in [name] + self.ancestors(name):
      if opt in self.classes[c].options:
        return self.classes[c].options[opt]
    return default

  def fields(self, name):
    """Own + inherited annotated fields, base first; subclass overrides."""
    chain = list(reversed([name] + self.ancestors(name)))
    out = {}
    for c in chain:
      for fname, ann, dflt in self.classes[c].own_fields:
        out[fname] = (ann, dflt, c)
    return out

  def is_abstract(self, name):
    """Never instantiated: Node, private bases, field-less marker bases."""
    if name == "Node" or name.startswith("_"):
      return True
    return not self.fields(name) and bool(self.subclasses(name))

  def concrete_subclasses(self, name):
    return [c for c in self.subclasses(name) if not self.is_abstract(c)]

  # -- annotations ------------------------------------------------------------
  def expand(self, ann, depth=0):
    """(set of Node class names, set of other atoms) admitted by `ann`."""
    if depth > 12:
      raise AnalysisError("annotation alias cycle")
    if isinstance(ann, ast.Constant):
      if ann.value is None:
        return set(), {"None"}
      if isinstance(ann.value, str):
        try:
          return self.expand(ast.parse(ann.value, mode="eval").body, depth + 1)
        except SyntaxError as e:
          raise AnalysisError(f"unparsable string annotation {ann.value!r}") from e
      if ann.value is Ellipsis:
        return set(), set()
      raise AnalysisError(f"unknown annotation constant {ann.value!r}")
    if isinstance(ann, ast.BinOp) and isinstance(ann.op, ast.BitOr):
      a, x = self.expand(ann.left, depth + 1)
      b, y = self.expand(ann.right, depth + 1)
      return a | b, x | y
    if isinstance(ann, ast.Subscript):
      base = (dotted(ann.value) or "").split(".")[-1]
      elts = ann.slice.elts if isinstance(ann.slice, ast.Tuple) else [ann.slice]
      if base in ("Union", "Optional") or base in _CONTAINERS:
        nodes, atoms = set(), set()
        if base == "Optional":
          atoms.add("None")
        for e in elts:
          n, a = self.expand(e, depth + 1)
          nodes |= n
          atoms |= a
        return nodes, atoms
      raise AnalysisError(f"unknown generic in annotation: {src(ann)}")
    d = dotted(ann)
    if d is None:
      raise AnalysisError(f"unknown annotation shape: {src(ann)}")
    last = d.split(".")[-1]
    if last in self.classes and d in (last, f"pytd.{last}", f"node.{last}"):
      return {last}, set()
    if d in self.aliases:
      return self.expand(self.aliases[d], depth + 1)
    if last in _ATOMS or last in self.other_classes or d.startswith("msgspec."):
      return set(), {last}
    raise AnalysisError(f"unknown name in annotation: {d}")

  def alias_members(self, alias):
    if alias not in self.aliases:
      raise AnalysisError(f"pytd.py: union alias {alias} not found")
    return self.expand(self.aliases[alias])[0]

  def tuple_fields(self, name):
    """Fields whose annotation is `tuple[...]` (optionally `| None`)."""
    out = []
    for fname, (ann, _, _) in self.fields(name).items():
      cands = [ann]
      if isinstance(ann, ast.BinOp) and isinstance(ann.op, ast.BitOr):
        cands = [ann.left, ann.right]
      for c in cands:
        if isinstance(c, ast.Subscript) and dotted(c.value) in ("tuple", "Tuple"):
          out.append(fname)
          break
    return out


def get_schema(ctx) -> Schema:
  return ctx.memo(("schema",), lambda: Schema(ctx))


# ---------------------------------------------------------------------------
# Serialisation settings (R4.4 == R12.4)
# ---------------------------------------------------------------------------

def _is_plain_sorted(node, of_items=True):
  """`sorted(X.items())` / `sorted(X)` without key/reverse."""
  return (isinstance(node, ast.Call) and dotted(node.func) == "sorted"
          and len(node.args) == 1 and not node.keywords)


def serialisation_instances(ctx):
  """Evaluates the encoder/gzip/dependency-order obligations.

  Reports through ctx.ok / ctx.bad; raises AnalysisError on unknown shapes.
  """
  mod = get_module(ctx, PICKLE)
  # 1. the module-level encoder is deterministic
  enc = mod.const("Encoder")
  if not (isinstance(enc, ast.Call) and dotted(enc.func) == "msgspec.msgpack.Encoder"):
    raise AnalysisError("pickle_utils.Encoder is not a msgspec.msgpack.Encoder(...) call")
  order = kwarg(enc, "order")
  val = order.value if isinstance(order, ast.Constant) else (
      src(order) if order is not None else None)
  ctx.check(val in ("deterministic", "sorted"), "Encoder:order", PICKLE, enc.lineno,
            f"msgspec Encoder is built with order={val!r}; sets and dicts "
            "(SerializableAst.dependencies holds set[str]) are then encoded in "
            "hash order", {"order": val})
  # 2. every encoding in the module goes through that encoder
  stray = []
  for c in calls_in(mod.tree):
    d = dotted(c.func) or ""
    if d in ("msgspec.msgpack.encode", "msgspec.json.encode", "msgspec.to_builtins") \
        or (d.endswith(".Encoder") and c is not enc):
      stray.append((d, c.lineno))
  fn = mod.func("Encode")
  rets = [n for n in ast.walk(fn) if isinstance(n, ast.Return)]
  ok = (not stray and len(rets) == 1 and isinstance(rets[0].value, ast.Call)
        and dotted(rets[0].value.func) == "Encoder.encode")
  ctx.check(ok, "Encode:uses-Encoder", PICKLE, fn.lineno,
            "Encode must return Encoder.encode(obj) and no other msgspec "
            f"encoder may be used in pickle_utils (stray={stray})",
            {"returns": [src(r.value) for r in rets if r.value], "stray": stray})
  # 3. Save: what is written is Encode(obj); the gzip header is constant
  fn = mod.func("Save")
  writes = [c for c in calls_in(fn) if isinstance(c.func, ast.Attribute)
            and c.func.attr == "write"]
  if not writes:
    raise AnalysisError("pickle_utils.Save: no .write(...) call")
  wargs = [src(c.args[0]) if c.args else None for c in writes]
  ok = all(len(c.args) == 1 and isinstance(c.args[0], ast.Call)
           and dotted(c.args[0].func) == "Encode" for c in writes)
  ctx.check(ok, "Save:writes-Encode", PICKLE, fn.lineno,
            f"Save must write Encode(obj); writes {wargs}", {"writes": wargs})
  gz = [c for c in calls_in(fn) if (dotted(c.func) or "").endswith("GzipFile")]
  if len(gz) != 1:
    raise AnalysisError(f"pickle_utils.Save: expected one GzipFile call, found {len(gz)}")
  g = gz[0]
  if any(k.arg is None for k in g.keywords) or len(g.args) > 0:
    raise AnalysisError("pickle_utils.Save: GzipFile called with positional/**kwargs")
  mt = kwarg(g, "mtime")
  mt_ok = isinstance(mt, ast.Constant) and isinstance(mt.value, (int, float)) \
      and not isinstance(mt.value, bool)
  ctx.check(mt_ok, "Save:gzip-mtime", PICKLE, g.lineno,
            f"gzip.GzipFile(mtime={src(mt) if mt is not None else '<absent>'}): "
            "the gzip header must carry a constant mtime (absent/None means "
            "time.time())", {"mtime": src(mt) if mt is not None else None})
  fnm = kwarg(g, "filename")
  fn_ok = isinstance(fnm, ast.Constant) and fnm.value == ""
  ctx.check(fn_ok, "Save:gzip-filename", PICKLE, g.lineno,
            f"gzip.GzipFile(filename={src(fnm) if fnm is not None else '<absent>'}): "
            "the header file name must be blanked (absent means fileobj.name)",
            {"filename": src(fnm) if fnm is not None else None})
  # 4. Serialize / SerializeAndSave: SerializeAst -> Encode / Save
  for name, sink in (("Serialize", "Encode"), ("SerializeAndSave", "Save")):
    f = mod.func(name)
    prod = [n for n in ast.walk(f) if isinstance(n, ast.Assign)
            and isinstance(n.value, ast.Call)
            and dotted(n.value.func) == "serialize_ast.SerializeAst"
            and len(n.targets) == 1 and isinstance(n.targets[0], ast.Name)]
    sinks = [c for c in calls_in(f, name=sink)]
    ok = (len(prod) == 1 and len(sinks) == 1 and sinks[0].args
          and dotted(sinks[0].args[0]) == prod[0].targets[0].id
          and not [c for c in calls_in(f) if (dotted(c.func) or "").startswith("msgspec.")])
    ctx.check(ok, f"{name}:pipeline", PICKLE, f.lineno,
              f"{name} must hand the result of serialize_ast.SerializeAst to {sink}",
              {"producer": [src(p.value) for p in prod],
               "sink": [src(s) for s in sinks]})
  # 5. SerializeAst sorts both dependency lists
  smod = get_module(ctx, SERIALIZE)
  f = smod.func("SerializeAst")
  ctor = [c for c in calls_in(f, name="SerializableAst")]
  if len(ctor) != 1:
    raise AnalysisError("SerializeAst: SerializableAst(...) call not found")
  ctor = ctor[0]
  fields = [n.target.id for n in smod.cls("SerializableAst").body
            if isinstance(n, ast.AnnAssign) and isinstance(n.target, ast.Name)]
  for fld in ("dependencies", "late_dependencies"):
    if fld not in fields:
      raise AnalysisError(f"SerializableAst has no field {fld}")
    pos = fields.index(fld)
    a = kwarg(ctor, fld)
    if a is None and len(ctor.args) > pos:
      a = ctor.args[pos]
    if a is None:
      raise AnalysisError(f"SerializeAst: argument {fld} not found")
    ok = _is_plain_sorted(a)
    ctx.check(ok, f"SerializeAst:{fld}-sorted", SERIALIZE, a.lineno,
              f"SerializableAst.{fld} is built from {src(a)}; the module list "
              "must be sorted (it comes from a dict filled in visiting order)",
              {"value": src(a)})


# ---------------------------------------------------------------------------
# Reaching definitions of local names (E3, intra-procedural)
# ---------------------------------------------------------------------------

_DEFS = (ast.FunctionDef, ast.AsyncFunctionDef, ast.ClassDef)


def stored_names(unit):
  """Names (re)bound when `unit` is evaluated (nested defs bind their name)."""
  out = set()
  todo = [unit]
  while todo:
    n = todo.pop()
    if isinstance(n, _DEFS):
      out.add(n.name)
      continue
    if isinstance(n, ast.Lambda):
      continue
    if isinstance(n, ast.Name) and isinstance(n.ctx, (ast.Store, ast.Del)):
      out.add(n.id)
    elif isinstance(n, ast.ExceptHandler) and n.name:
      out.add(n.name)
    todo.extend(ast.iter_child_nodes(n))
  return out


def reaching(fn):
  """May-flow of (name, defining unit) facts over one function."""
  def gen(unit):
    return {(nm, unit) for nm in stored_names(unit)}

  def kill(unit):
    names = stored_names(unit)
    if not names:
      return None
    return lambda fact: fact[0] in names
  return flow.flow(fn, gen, kill, mode="may")


def defs_at(rd, stmt, name):
  """Definitions of `name` that may reach `stmt` ([] = parameter/global)."""
  st = rd.before.get(stmt)
  if st is None:
    return []
  return [d for (n, d) in st if n == name]
