"""C19 - the build plan orders analyses after the stubs they read.

Decides (structurally, on pytype_runner.py and imports_map_loader.py): the
provenance of every imports-map entry and ninja dependency, pass suffixes,
ninja escaping, the imports-file format and the ninja variable wiring.  Does
NOT enumerate schedules; the provenance premises are what make every schedule
safe (see EXPLANATION).
"""
import ast
import re
import re._parser as _sre_parser  # reference: CPython's regex parser

from sa.core import rule, AnalysisError
from sa.pyindex import get_module, dotted, src, calls_in, try_fold, walk_no_nested
from sa import flow
from rules.provenance import (
    ReachingDefs, bind_args, executes_before, strip_iter_wrappers,
    template_tokens)

EXPLANATION = (
    "Value-provenance rules (reaching definitions over the structured "
    "dataflow engine, 'may' mode, plus must-mode dominance) on "
    "tools/analyze_project/pytype_runner.py and imports_map_loader.py.  "
    "Provenance argument: number the ninja steps in the order setup_build "
    "writes them.  (P1, R19.1) every imports-map entry of step k is "
    "module_to_output[m] read by subscript for m in deps_k, or an entry "
    "inherited from module_to_imports_map[m], and every value ever stored in "
    "module_to_output is the result of write_default_pyi() (written before "
    "ninja starts, R19.7) or of write_build_statement(...), which returns "
    "exactly the path it declares as the statement's output - so each entry "
    "names the output of a step < k.  (P2, R19.2) the `|` dependencies of "
    "step k are module_to_output[m] for the same deps binding, filtered only "
    "by `!= default_output`, each escaped and placed after ' | ' in the build "
    "line.  (P3, R19.2) module_to_imports_map[module] and "
    "module_to_output[module] are stored in the same loop iteration and the "
    "imports file of the step holds that very map.  By induction every "
    "direct entry is a declared dependency and every inherited entry was "
    "built before a declared dependency; ninja starts a step only after its "
    "implicit dependencies, so no schedule reads a stub before it exists.  "
    "Cycles: first-pass outputs carry a distinct non-empty suffix and "
    "second-pass deps are extended by the cycle (R19.3).  R19.4 decides that "
    "every path field of the build line is escaped for exactly the "
    "characters ninja's lexer can unescape; R19.5 that the imports-file "
    "writer and reader agree on separator, order and split count; R19.6 that "
    "the `$` variables of the command are the ones the build statement "
    "defines.  Not decided: importlab's dependency graph itself, ninja's "
    "scheduler, what pytype-single does with the map.")
ASSUMPTIONS = [
    "ninja builds all implicit (`|`) dependencies of a step before starting "
    "it and understands exactly the escapes `$$`, `$ `, `$:`, `$<newline>` in "
    "paths (ninja manual, 'Lexical syntax'; frozen in NINJA_ESCAPABLE)",
    "the (group, deps) sequence handed to PytypeRunner is in dependency order "
    "(importlab); a dependency missing from module_to_output raises KeyError "
    "at plan time instead of producing a wrong plan",
    "roles of parameters are taken by position from the def of "
    "get_imports_map / write_build_statement / write_imports; locals are "
    "identified by data flow, never by name",
    "short paths (keys of the imports file) contain no space; the reader "
    "splits at the first separator only",
]

RUN = "pytype/tools/analyze_project/pytype_runner.py"
LOADER = "pytype/imports_map_loader.py"

# Reference: ninja manual, "Lexical syntax": `$` followed by newline, space,
# `:` or `$` are the only character escapes valid inside a path.
NINJA_ESCAPABLE = frozenset("\n :$")
NINJA_BUILTIN_VARS = frozenset({"in", "out"})

_DICT_READERS = {"items", "keys", "values", "copy"}


def _one(xs, what):
  if len(xs) != 1:
    raise AnalysisError(f"expected exactly one {what}, found {len(xs)}")
  return xs[0]


def _self_method(call):
  d = dotted(call.func) if isinstance(call, ast.Call) else None
  if d and d.startswith("self.") and d.count(".") == 1:
    return d[5:]
  return None


def _empty_dict(expr):
  return (isinstance(expr, ast.Dict) and not expr.keys) or (
      isinstance(expr, ast.Call) and dotted(expr.func) == "dict"
      and not expr.args and not expr.keywords)


def _empty_list(expr):
  return (isinstance(expr, ast.List) and not expr.elts) or (
      isinstance(expr, ast.Call) and dotted(expr.func) == "list"
      and not expr.args and not expr.keywords)


def _uses_of(rd, fn, d):
  """Load-uses of the local bound by `d` (AnalysisError on mixed bindings)."""
  out = []
  for n in ast.walk(fn):
    if isinstance(n, ast.Name) and n.id == d.name and isinstance(n.ctx, ast.Load):
      ds = rd.defs_of(n)
      if ds == {d}:
        out.append(n)
      elif d in ds:
        raise AnalysisError(
            f"{fn.name}: {d.name} at line {n.lineno} mixes several bindings")
  return out


def _classify(mod, n):
  """How a container-valued name is used: (kind, node)."""
  p = mod.parent[n]
  if isinstance(p, ast.Subscript) and p.value is n:
    if isinstance(p.ctx, ast.Store):
      return "store", p
    if isinstance(p.ctx, ast.Load):
      return "read", p
    return "del", p
  if isinstance(p, ast.Attribute) and p.value is n:
    gp = mod.parent.get(p)
    if isinstance(gp, ast.Call) and gp.func is p:
      return "method:" + p.attr, gp
    return "attr:" + p.attr, p
  if isinstance(p, ast.Call) and (n in p.args or any(k.value is n for k in p.keywords)):
    return "arg", p
  if isinstance(p, ast.keyword):
    return "arg", mod.parent[p]
  if isinstance(p, ast.Compare) and n in p.comparators and all(
      isinstance(o, (ast.In, ast.NotIn)) for o in p.ops):
    return "contains", p
  if isinstance(p, ast.Return):
    return "return", p
  if isinstance(p, (ast.For, ast.comprehension)) and p.iter is n:
    return "iterate", p
  return "other", p


def _store_stmt(mod, sub):
  st = mod.parent[sub]
  if not isinstance(st, ast.Assign) or sub not in st.targets:
    raise AnalysisError(
        f"store through {src(sub)} at line {sub.lineno} is not a plain assignment")
  return st


def _fold_attr(mod, expr):
  """Folds `Cls.ATTR` (class constant of this module) or a plain constant."""
  if isinstance(expr, ast.Attribute) and isinstance(expr.value, ast.Name) \
      and expr.value.id in mod.classes:
    v = mod.class_attr(expr.value.id, expr.attr)
    if v is not None:
      return try_fold(v, mod=mod, default=_NOFOLD)
  return try_fold(expr, mod=mod, default=_NOFOLD)


_NOFOLD = object()


class _Model:
  pass


def _model(ctx):
  return ctx.memo(("c19", "model"), lambda: _build_model(ctx))


def _build_model(ctx):
  m = _Model()
  m.mod = mod = get_module(ctx, RUN)
  m.sb = mod.func("PytypeRunner.setup_build")
  m.gim = mod.func("get_imports_map")
  m.wbs = mod.func("PytypeRunner.write_build_statement")
  m.wi = mod.func("PytypeRunner.write_imports")
  m.wdp = mod.func("PytypeRunner.write_default_pyi")
  m.ysm = mod.func("PytypeRunner.yield_sorted_modules")
  m.rd_sb = ReachingDefs(mod, m.sb)
  m.gim_call = _one(calls_in(m.sb, name="get_imports_map"),
                    "call of get_imports_map in setup_build")
  m.wbs_call = _one(calls_in(m.sb, name="self.write_build_statement"),
                    "call of write_build_statement in setup_build")
  m.wi_call = _one(calls_in(m.sb, name="self.write_imports"),
                   "call of write_imports in setup_build")
  m.gim_args = bind_args(m.gim_call, m.gim)
  m.wbs_args = bind_args(m.wbs_call, m.wbs, skip_self=True)
  m.wi_args = bind_args(m.wi_call, m.wi, skip_self=True)
  gp = [a.arg for a in m.gim.args.posonlyargs + m.gim.args.args]
  wp = [a.arg for a in m.wbs.args.posonlyargs + m.wbs.args.args][1:]
  ip = [a.arg for a in m.wi.args.posonlyargs + m.wi.args.args][1:]
  if len(gp) != 3 or len(wp) != 5 or len(ip) != 3:
    raise AnalysisError(
        f"signatures changed: get_imports_map{gp} write_build_statement{wp} "
        f"write_imports{ip}")
  m.g_deps, m.g_map, m.g_out = gp
  m.w_module, m.w_action, m.w_deps, m.w_imports, m.w_suffix = wp
  m.i_name, m.i_map, m.i_suffix = ip
  for params, args, what in ((gp, m.gim_args, "get_imports_map"),
                             (wp, m.wbs_args, "write_build_statement"),
                             (ip, m.wi_args, "write_imports")):
    if set(params) - set(args):
      raise AnalysisError(f"call of {what} does not pass {set(params) - set(args)}")
  # the plan loop: for <targets> in self.yield_sorted_modules()
  loop = mod.parent.get(mod.enclosing_stmt(m.gim_call))
  while loop is not None and not isinstance(loop, ast.For):
    loop = mod.parent.get(loop)
  if loop is None or _self_method(loop.iter) != "yield_sorted_modules":
    raise AnalysisError(
        "setup_build: get_imports_map is not called inside the loop over "
        "self.yield_sorted_modules()")
  m.loop = loop
  if not isinstance(loop.target, ast.Tuple) or not all(
      isinstance(e, ast.Name) for e in loop.target.elts):
    raise AnalysisError("setup_build: plan loop target is not a tuple of names")
  m.arity = len(loop.target.elts)
  rd = m.rd_sb

  def local_dict(expr, what):
    if not isinstance(expr, ast.Name):
      raise AnalysisError(f"setup_build: {what} argument is not a local name")
    d = rd.single_def(expr, what)
    if d.kind != "assign" or d.path or not _empty_dict(d.value):
      raise AnalysisError(
          f"setup_build: {what} is not a local created as an empty dict "
          f"({d.describe()})")
    if d.node in ast.walk(loop):
      raise AnalysisError(f"setup_build: {what} is re-created inside the plan loop")
    return d
  m.out_def = local_dict(m.gim_args[m.g_out], "module_to_output")
  m.map_def = local_dict(m.gim_args[m.g_map], "module_to_imports_map")
  if m.out_def is m.map_def:
    raise AnalysisError("setup_build: one dict plays both roles")

  def loop_var(expr, what):
    if not isinstance(expr, ast.Name):
      raise AnalysisError(f"setup_build: {what} is not a plain name: {src(expr)}")
    ds = rd.defs_of(expr)
    return ds
  m.loop_var = loop_var
  # default output: the value of self.write_default_pyi()
  m.wdp_calls = calls_in(m.sb, name="self.write_default_pyi")
  m.build_stmt = _parse_build_statement(m)
  return m


def _is_loop_binding(m, defs, path=None):
  """`defs` is exactly the plan loop's own binding (optionally at `path`)."""
  if len(defs) != 1:
    return False
  d = next(iter(defs))
  return d.kind == "for" and d.node is m.loop and (path is None or d.path == path)


def _origin_label(o):
  if o.kind == "expr" and isinstance(o.expr, ast.Call):
    sm = _self_method(o.expr)
    return sm or (dotted(o.expr.func) or "call")
  if o.kind == "expr":
    return type(o.expr).__name__
  return o.kind


# -- the ninja build statement ---------------------------------------------------

def _parse_build_statement(m):
  """Roles of the fields of the `build` line written by write_build_statement."""
  mod, fn = m.mod, m.wbs
  rd = m.rd_wbs = ReachingDefs(mod, fn)
  writes = [c for c in calls_in(fn) if isinstance(c.func, ast.Attribute)
            and c.func.attr == "write"]
  w = _one(writes, "write call in write_build_statement")
  if len(w.args) != 1 or w.keywords:
    raise AnalysisError("write_build_statement: write() has unexpected arguments")
  toks = template_tokens(w.args[0], mod)
  fields, text = [], ""
  for t in toks:
    if t[0] == "lit":
      if "\x00" in t[1]:
        raise AnalysisError("NUL in the build statement template")
      text += t[1]
    elif t[0] == "field":
      text += f"\x00{len(fields)}\x00"
      fields.append(t[1])
    else:
      raise AnalysisError("write_build_statement: tuple-valued % template")
  lines = text.split("\n")
  if lines[-1] != "":
    raise AnalysisError("build statement does not end with a newline")
  F = "\x00(\\d+)\x00"
  m0 = re.fullmatch(f"build {F}: {F} {F}(?:{F})?", lines[0])
  if not m0:
    raise AnalysisError(
        "build line has unknown shape: " + re.sub("\x00(\\d+)\x00", r"<\1>", lines[0]))
  bs = _Model()
  bs.write = w
  bs.output, bs.rule, bs.input = (fields[int(m0.group(i))] for i in (1, 2, 3))
  bs.deps = fields[int(m0.group(4))] if m0.group(4) else None
  bs.vars = {}
  for ln in lines[1:-1]:
    mv = re.fullmatch(f"\\s+(\\w+) = {F}", ln)
    if not mv:
      raise AnalysisError(
          "build variable line has unknown shape: "
          + re.sub("\x00(\\d+)\x00", r"<\1>", ln))
    bs.vars[mv.group(1)] = fields[int(mv.group(2))]
  # the file written: with open(self.ninja_file, MODE) as f
  recv = w.func.value
  if not isinstance(recv, ast.Name):
    raise AnalysisError("write_build_statement: write receiver is not a name")
  d = rd.single_def(recv, "file handle")
  if d.kind != "with" or dotted(getattr(d.value, "func", None)) != "open":
    raise AnalysisError("write_build_statement: file handle is not `with open(..)`")
  bs.open_call = d.value
  return bs


def _escape_args(rd, expr):
  """If every origin of `expr` is escape_ninja_path(x): the list of x, else None."""
  out = []
  for o in rd.origins(expr):
    if o.kind == "expr" and isinstance(o.expr, ast.Call) \
        and dotted(o.expr.func) == "escape_ninja_path" \
        and len(o.expr.args) == 1 and not o.expr.keywords:
      out.append(o.expr.args[0])
    else:
      return None
  return out or None


# -- R19.1 ---------------------------------------------------------------------------

_ALLOWED_OUTPUT_ORIGINS = {"write_build_statement", "write_default_pyi"}


@rule("R19.1", "C19", floor=7)
def r19_1(ctx):
  """Provenance of module_to_output values and of imports-map entries."""
  m = _model(ctx)
  mod, rd = m.mod, m.rd_sb
  # (a) every store into module_to_output
  stores = 0
  for use in _uses_of(rd, m.sb, m.out_def):
    kind, node = _classify(mod, use)
    if kind == "store":
      st = _store_stmt(mod, node)
      origins = rd.origins(st.value)
      labels = sorted({_origin_label(o) for o in origins})
      for o in origins:
        if o.kind not in ("expr", "global"):
          raise AnalysisError(
              f"setup_build: value stored in {m.out_def.name} at line "
              f"{st.lineno} comes from {o.describe()} (provenance unknown)")
      ok = all(l in _ALLOWED_OUTPUT_ORIGINS for l in labels)
      stores += 1
      ctx.check(ok, "setup_build:output-store<-" + "+".join(labels), RUN,
                st.lineno,
                f"a value stored in {m.out_def.name} comes from "
                f"{[o.describe() for o in origins]}; only the declared output "
                "of write_build_statement(...) or the default stub of "
                "write_default_pyi() names a file some earlier step produces",
                {"origins": [o.describe() for o in origins]})
    elif kind in ("read", "contains") or (
        kind.startswith("method:") and kind[7:] in _DICT_READERS):
      continue
    elif kind == "arg" and node is m.gim_call:
      continue
    elif kind == "method:get":
      ctx.bad("setup_build:output-read-with-default", RUN, node.lineno,
              f"{m.out_def.name}.get(..) hides a dependency whose build "
              "statement has not been written yet (must be a subscript: "
              "KeyError)", {"expr": src(node)})
    else:
      raise AnalysisError(
          f"setup_build: {m.out_def.name} is used in a way the provenance "
          f"rule does not track ({kind} at line {use.lineno})")
  if not stores:
    raise AnalysisError("setup_build: no store into module_to_output found")
  _r19_1_get_imports_map(ctx, m)
  # (c) write_build_statement returns the output it declares
  bs, rdw = m.build_stmt, m.rd_wbs
  inner = _escape_args(rdw, bs.output)
  rets = [n for n in walk_no_nested(m.wbs) if isinstance(n, ast.Return)]
  if not rets:
    raise AnalysisError("write_build_statement has no return")
  ok = inner is not None and len(inner) == 1 and isinstance(inner[0], ast.Name)
  facts = {"declared": src(bs.output), "returned": [src(r.value) for r in rets]}
  if ok:
    decl = rdw.defs_of(inner[0])
    for r in rets:
      ok = ok and isinstance(r.value, ast.Name) and len(decl) == 1 \
          and rdw.defs_of(r.value) == decl
  ctx.check(ok, "write_build_statement:returns-declared-output", RUN,
            rets[0].lineno,
            "the value returned (and recorded in module_to_output) must be "
            "the same unescaped path whose escaped form is the output of the "
            f"build line: {facts}", facts)
  # (d) write_default_pyi returns the path it wrote
  _returns_written_path(ctx, m, m.wdp, "write_default_pyi")


def _returns_written_path(ctx, m, fn, label):
  mod = m.mod
  rd = ReachingDefs(mod, fn)
  rets = [n for n in walk_no_nested(fn) if isinstance(n, ast.Return)]
  opens = [c for c in calls_in(fn, name="open")]
  if not rets or len(opens) != 1:
    raise AnalysisError(f"{label}: expected one open() and a return")
  o = opens[0]
  mode = try_fold(o.args[1], mod=mod) if len(o.args) > 1 else None
  ok = len(o.args) >= 2 and isinstance(o.args[0], ast.Name) and mode == "w"
  if ok:
    want = rd.defs_of(o.args[0])
    ok = len(want) == 1 and all(
        isinstance(r.value, ast.Name) and rd.defs_of(r.value) == want
        for r in rets)
  ctx.check(ok, f"{label}:returns-written-path", RUN, rets[0].lineno,
            f"{label} must return the very path it opened for writing "
            f"(open({src(o.args[0]) if o.args else ''}, {mode!r}))",
            {"opened": src(o.args[0]) if o.args else None, "mode": mode,
             "returned": [src(r.value) for r in rets]})
  return rd


def _r19_1_get_imports_map(ctx, m):
  mod, fn = m.mod, m.gim
  rd = ReachingDefs(mod, fn)
  p_deps, p_map, p_out = (rd.params[x] for x in (m.g_deps, m.g_map, m.g_out))

  def is_param(node, p):
    return isinstance(node, ast.Name) and rd.defs_of(node) == {p}

  def dep_var(node):
    if not isinstance(node, ast.Name):
      return False
    ds = rd.defs_of(node)
    if len(ds) != 1:
      return False
    d = next(iter(ds))
    return d.kind in ("for", "comp") and not d.path and is_param(
        strip_iter_wrappers(d.value), p_deps)

  rets = [n for n in walk_no_nested(fn) if isinstance(n, ast.Return)]
  if not rets or not all(isinstance(r.value, ast.Name) for r in rets):
    raise AnalysisError("get_imports_map: return value is not a local name")
  rdefs = {rd.single_def(r.value, "result") for r in rets}
  r_def = _one(list(rdefs), "result binding of get_imports_map")
  fresh = r_def.kind == "assign" and not r_def.path and _empty_dict(r_def.value)
  # parameters are only read
  for p, allowed in ((p_out, {"read"}), (p_map, {"read", "contains", "method:get"}),
                     (p_deps, {"iterate", "arg"})):
    for use in _uses_of(rd, fn, p):
      kind, node = _classify(mod, use)
      if kind == "arg" and dotted(node.func) not in (
          "sorted", "tuple", "list", "set", "frozenset", "reversed", "iter"):
        kind = "escape"
      if p is p_out and kind.startswith("method:"):
        continue  # judged below at the store it feeds
      if kind not in allowed:
        raise AnalysisError(
            f"get_imports_map: parameter {p.name} is used as `{kind}` at line "
            f"{use.lineno}; only reads are understood")
  entries = inherits = 0
  kinds = []
  for use in _uses_of(rd, fn, r_def):
    kind, node = _classify(mod, use)
    kinds.append(kind)
    if kind == "store":
      st = _store_stmt(mod, node)
      entries += 1
      origins = rd.origins(st.value)
      reason = None
      for o in origins:
        e = o.expr
        if o.kind == "expr" and isinstance(e, ast.Subscript) \
            and is_param(e.value, p_out) and dep_var(e.slice):
          continue
        if o.kind == "expr" and isinstance(e, ast.Call) \
            and isinstance(e.func, ast.Attribute) and is_param(e.func.value, p_out):
          reason = (f"{src(e)} reads {p_out.name} with a default: a dependency "
                    "whose build statement is not written yet is silently "
                    "replaced instead of raising KeyError")
        elif o.kind not in ("expr", "global"):
          raise AnalysisError(
              f"get_imports_map: entry value comes from {o.describe()}")
        else:
          reason = (f"entry value {o.describe()} is not {p_out.name}[m] for "
                    f"m in {p_deps.name}")
      g = flow.guards(mod.parent, st)
      if reason is None and g:
        if any(p_out.name in flow.names_in(t) for t, _ in g):
          reason = ("the entry is only inserted under "
                    f"{[src(t) for t, _ in g]}: a dependency without output "
                    "is skipped silently")
        else:
          raise AnalysisError(
              f"get_imports_map: entry store guarded by {[src(t) for t, _ in g]}")
      key_ok = any(dep_var(n) for n in ast.walk(node.slice)
                   if isinstance(n, ast.Name))
      if reason is None and not key_ok:
        reason = f"the key {src(node.slice)} is not computed from the dependency"
      ctx.check(reason is None, "get_imports_map:entry<-output[dep]", RUN,
                st.lineno, reason or "",
                {"value": [o.describe() for o in origins],
                 "key": src(node.slice), "guards": [src(t) for t, _ in g]})
    elif kind == "method:update":
      inherits += 1
      if len(node.args) != 1 or node.keywords:
        raise AnalysisError("get_imports_map: update() with unexpected arguments")
      origins = rd.origins(node.args[0])
      reason = None
      for o in origins:
        e = o.expr
        if o.kind == "expr" and isinstance(e, ast.Subscript) \
            and is_param(e.value, p_map) and dep_var(e.slice):
          continue
        if o.kind == "expr" and isinstance(e, ast.Call) \
            and isinstance(e.func, ast.Attribute) and e.func.attr == "get" \
            and is_param(e.func.value, p_map) and len(e.args) == 2 \
            and dep_var(e.args[0]) and try_fold(e.args[1]) in ({}, (), []):
          continue
        if o.kind not in ("expr", "global"):
          raise AnalysisError(
              f"get_imports_map: inherited map comes from {o.describe()}")
        reason = (f"inherited entries come from {o.describe()}, not from "
                  f"{p_map.name}[m] for m in {p_deps.name}")
      st = mod.enclosing_stmt(node)
      g = flow.guards(mod.parent, st)
      for t, pol in g:
        good = pol and isinstance(t, ast.Compare) and len(t.ops) == 1 \
            and isinstance(t.ops[0], ast.In) and dep_var(t.left) \
            and is_param(t.comparators[0], p_map)
        if not good:
          raise AnalysisError(
              f"get_imports_map: update guarded by unknown test {src(t)}")
      ctx.check(reason is None, "get_imports_map:inherited<-imports_map[dep]",
                RUN, st.lineno, reason or "",
                {"value": [o.describe() for o in origins],
                 "guards": [src(t) for t, _ in g]})
    elif kind in ("return", "read", "contains") or (
        kind.startswith("method:") and kind[7:] in _DICT_READERS | {"get"}):
      continue
    else:
      raise AnalysisError(
          f"get_imports_map: result dict used as `{kind}` at line {use.lineno}")
  ctx.check(fresh, "get_imports_map:result-is-fresh-dict", RUN, fn.lineno,
            f"the returned map is bound by {r_def.describe()}; it must start "
            "as an empty dict so that every entry has the provenance above",
            {"binding": r_def.describe(), "uses": sorted(set(kinds))})
  if not entries:
    ctx.bad("get_imports_map:entry<-output[dep]", RUN, fn.lineno,
            "no imports-map entry is inserted for the direct dependencies")
