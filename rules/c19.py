"""C19 - the build plan orders analyses after the stubs they read.

Decides (structurally, on pytype_runner.py and imports_map_loader.py): the
provenance of every imports-map entry and ninja dependency, pass suffixes,
ninja escaping, the imports-file format and the ninja variable wiring.  Does
NOT enumerate schedules; the provenance premises are what make every schedule
safe (see EXPLANATION).
"""
import ast
import re
import re._parser as _sre_parser  # reference: CPython's regex parser

from sa.core import rule, AnalysisError
from sa.pyindex import get_module, dotted, src, calls_in, try_fold, walk_no_nested
from sa import flow
from rules import _util_c16c19 as U
from rules.provenance import (
    ReachingDefs as _BaseReachingDefs, bind_args, executes_before,
    strip_iter_wrappers, template_tokens)

EXPLANATION = (
    "Value-provenance rules (reaching definitions over the structured "
    "dataflow engine, 'may' mode, plus must-mode dominance) on "
    "tools/analyze_project/pytype_runner.py and imports_map_loader.py.  "
    "Provenance argument: number the ninja steps in the order setup_build "
    "writes them.  (P1, R19.1) every imports-map entry of step k is "
    "module_to_output[m] read by subscript for m in deps_k, or an entry "
    "inherited from module_to_imports_map[m], and every value ever stored in "
    "module_to_output is the result of write_default_pyi() (written before "
    "ninja starts, R19.7) or of write_build_statement(...), which returns "
    "exactly the path it declares as the statement's output - so each entry "
    "names the output of a step < k.  The map returned by get_imports_map "
    "must be a new object (an empty dict, or a private copy of "
    "module_to_imports_map[dep]): when its binding may be a dict *stored* in "
    "module_to_imports_map (subscript/.get/.setdefault on the parameter, "
    "directly, through a local or one arm of a conditional expression) and "
    "the function then mutates it, the stored map of that dependency - and "
    "every later module inheriting from it - gains entries outside the "
    "closure of its declared deps (definite violation, not an analysis "
    "error; aliasing through containers or helper calls is not tracked).  "
    "(P2, R19.2) the `|` dependencies of "
    "step k are module_to_output[m] for the same deps binding, filtered only "
    "by `!= default_output`, each escaped and placed after ' | ' in the build "
    "line; a comprehension over a comprehension (`x for x in (out[m] for m in "
    "deps) if x != default`) is read as its flattening: a layer variable "
    "stands for the element expression of the layer it walks, the filters of "
    "all layers count.  (P3, R19.2) module_to_imports_map[module] and "
    "module_to_output[module] are stored in the same loop iteration and the "
    "imports file of the step holds that very map.  By induction every "
    "direct entry is a declared dependency and every inherited entry was "
    "built before a declared dependency; ninja starts a step only after its "
    "implicit dependencies, so no schedule reads a stub before it exists.  "
    "Cycles: first-pass outputs carry a distinct non-empty suffix and "
    "second-pass deps are extended by the cycle (R19.3): the yields are "
    "judged in yield_sorted_modules and in every generator of the module it "
    "delegates to with `yield from self.<helper>(..)`; the FIRST_PASS action is "
    "never CHECK (a dominating `if a == CHECK: a = INFER`, a constant, a "
    "conditional expression on `a == CHECK` / `a != CHECK`, or a copy of a name "
    "already known not to be CHECK; anything else is an analysis error); the "
    "SECOND_PASS deps are `deps += tuple(<list filled with every cycle "
    "module>)` or `deps += tuple(m for m, .. in <the list the SECOND_PASS loop "
    "walks>)` without filter; the shape of `modules[0]` is taken from the "
    "appended tuples, a list comprehension of tuples, or the list returned by "
    "a method of the runner.  Methods of PytypeRunner are resolved through the "
    "module-local MRO (they may live in a module-local base class; a non-local "
    "base that precedes the definition is an analysis error).  R19.4 decides that "
    "every path field of the build line is escaped exactly once and that "
    "escape_ninja_path computes, for EVERY path, the one function ninja's "
    "lexer inverts: each newline, space, ':' and '$' becomes '$' + itself "
    "whatever surrounds it, everything else is copied.  The substitution is "
    "followed through re.sub / re.compile(..).sub / a name bound once to "
    "re.compile(..) (module level or local) and a template or function "
    "replacement (lambda / def of the module, interpreted over its AST, "
    "never executed).  The pattern is parsed with re._parser; for a pattern "
    "without anchors, look-around and back-references and of width 1..4 "
    "the effect of re.sub at a position depends only on the next few "
    "characters, so checking every window over the escapable characters "
    "plus one representative of each class of characters the pattern cannot "
    "tell apart (matched by the reference engine on the constant pattern) "
    "is a proof for all paths; outside that fragment only concrete short "
    "counterexample paths are reported, otherwise ANALYSIS-ERROR.  An "
    "alternative such as `\\$[ :$]` whose match is returned unchanged "
    "('already escaped') is a violation: the path `US$ prices` would be "
    "read back by ninja as `US prices`.  R19.5 decides that the imports-file "
    "writer and reader agree on separator, order and split count; R19.6 that "
    "the `$` variables of the command are the ones the build statement "
    "defines.  Not decided: importlab's dependency graph itself, ninja's "
    "scheduler, what pytype-single does with the map.")
ASSUMPTIONS = [
    "ninja builds all implicit (`|`) dependencies of a step before starting "
    "it and understands exactly the escapes `$$`, `$ `, `$:`, `$<newline>` in "
    "paths (ninja manual, 'Lexical syntax'; frozen in NINJA_ESCAPABLE)",
    "the (group, deps) sequence handed to PytypeRunner is in dependency order "
    "(importlab); a dependency missing from module_to_output raises KeyError "
    "at plan time instead of producing a wrong plan",
    "self in setup_build / yield_sorted_modules / run is a PytypeRunner (not a "
    "subclass overriding the writers); generator expressions nested as the "
    "iterable of a comprehension are exhausted when that comprehension is",
    "roles of parameters are taken by position from the def of "
    "get_imports_map / write_build_statement / write_imports; locals are "
    "identified by data flow, never by name",
    "short paths (keys of the imports file) contain no space; the reader "
    "splits at the first separator only",
    "escape_ninja_path is always given an unescaped path (its callers are "
    "decided by R19.4's exactly-once clause), so leaving `$x` sequences alone "
    "is never correct; characters are sampled from U+0000..U+02FF when the "
    "classes of the pattern are partitioned; `re` in pytype_runner.py is the "
    "standard module and the constant pattern behaves as in this "
    "interpreter's `re` (reference engine)",
]

EXPLANATION += (
    "  R19.5, reader side: the pieces of the one split in _read_from_file may "
    "be unpacked as `k, v = <split>`, with a default for an empty result "
    "(`<split> or [..]`, a conditional expression) or into a starred name "
    "(`k, *rest = <split>`); in each form the split must be .split(<the "
    "writer's separator>, 1) into exactly two plain names - the reader is the "
    "inverse of `'%s %s\\n'` only if the line is cut at the FIRST occurrence "
    "of the writer's separator and nowhere else.  `.split()` / "
    "`.split(None, ..)` (any run of blanks) and pieces put together again "
    "after a split on blank runs are violations: two consecutive spaces or a "
    "tab inside an output path would be collapsed and the analysis would "
    "open a path no build step declared.  Cutting at every writer separator "
    "into a starred name (joined again later) is not decided: analysis "
    "error.")

EXPLANATION += (
    "  R19.8 (rules/c19_early_exit.py) decides what may count towards "
    "setup_build's early exit: the plan loop stops writing statements once a "
    "local set covers the requested files (the runner attribute filled from "
    "conf.inputs; the test may be `>=`, `<=`, issuperset / issubset or an "
    "empty difference), so 'each requested file is analysed exactly once for "
    "errors' needs that the set gains a module only in an iteration that "
    "writes the module's final statement.  The set must be a local created "
    "empty before the loop that only grows by `.add(..)` inside it.  The path "
    "condition of every add site is evaluated for each stage: comparisons of "
    "the loop's stage variable with Stage constants (==, !=, is, membership in "
    "a tuple) and tests of a local whose constant value is chosen per stage "
    "(the suffix: `if not suffix`, `suffix == ''`), in if/elif arms, guard "
    "clauses, asserts or conditional expressions; tests that do not mention "
    "the stage or a stage-decided local are taken as satisfiable; a "
    "stage-dependent test of another shape is an analysis error.  FIRST_PASS: "
    "no add site may execute (a first-pass statement is `infer` into the "
    "suffixed stub; counting it lets the first passes over a cycle satisfy the "
    "early exit and skips the second-pass check statements).  SINGLE_PASS / "
    "SECOND_PASS: what is added must be built from the plan loop's module - "
    "the one handed to write_build_statement - and from the add site every "
    "path to the end of the iteration (continue / break / falling off the "
    "body) must call write_build_statement, unless it was already called.  Not "
    "decided by R19.8: that the set is complete (a module never added only "
    "makes the early exit later), other consumers of the returned set.")
ASSUMPTIONS.append(
    "R19.8: final statements are exactly the SINGLE_PASS / SECOND_PASS ones "
    "(R19.3 decides that they, and only they, carry the empty suffix); the "
    "requested files are the runner attribute assigned from conf.inputs in "
    "__init__; asserts are taken as guards (as elsewhere in the engine)")
EXPLANATION += (
    "  R19.50 (rules/c19_round5.py) decides, on the node loop of "
    "deps_from_import_graph, that every node's emitted dependencies and every "
    "stub-map entry receive all direct and stub-inherited source dependencies: "
    "the four propagation sites are reached through complete loops (no break, "
    "no slice), their own path conditions only de-duplicate against the target "
    "or a container fresh in the iteration (or test presence in the stub map) "
    "and read no state created outside the loop and changed inside it other "
    "than the stub map, inheritance precedes the emit, and the stub map is "
    "created outside the loop.  R19.51 decides that resolved_file_to_module "
    "cuts the short path off the END of the resolved path (suffix-anchored "
    "cut), stores that same short path as the target, and that "
    "Module.full_path recomposes (path, target).  Not decided by them: the "
    "split of file names into stubs and sources, closures and non-inlined "
    "calls inside the node loop (taken not to change carried state).")
ASSUMPTIONS.append(
    "R19.51: importlab's ResolvedFile.path ends with its short_path (the "
    "import root followed by the short path), so a suffix-anchored cut by "
    "len(short_path) recomposes exactly; R19.50: list `+=`/extend/append copy "
    "elements (no aliasing between a node's list and a stub-map entry)")

RUN = "pytype/tools/analyze_project/pytype_runner.py"
LOADER = "pytype/imports_map_loader.py"
RUNNER = "PytypeRunner"


class ReachingDefs(_BaseReachingDefs):
  """rules/provenance.ReachingDefs, plus: a generator expression that is the
  iterable of a comprehension is consumed exactly when that comprehension is
  (`tuple(x for x in (f(y) for y in ys) if x != d)`: the inner generator is
  exhausted by the outer one, which `tuple` exhausts on the spot; a list / set
  / dict comprehension exhausts its iterables while it is evaluated)."""

  def _consumed_now(self, genexp):
    if super()._consumed_now(genexp):
      return True
    par = self.parent.get(genexp)
    if isinstance(par, ast.comprehension) and par.iter is genexp:
      comp = self.parent.get(par)
      if isinstance(comp, ast.GeneratorExp):
        return self._consumed_now(comp)
      return isinstance(comp, (ast.ListComp, ast.SetComp, ast.DictComp))
    return False


def _method(mod, name):
  """`PytypeRunner().<name>` resolved through the module-local MRO (a method
  may live in a module-local base class / mixin of PytypeRunner)."""
  return U.method(mod, RUNNER, name)

# Reference: ninja manual, "Lexical syntax": `$` followed by newline, space,
# `:` or `$` are the only character escapes valid inside a path.
NINJA_ESCAPABLE = frozenset("\n :$")
NINJA_BUILTIN_VARS = frozenset({"in", "out"})

_DICT_READERS = {"items", "keys", "values", "copy"}


def _one(xs, what):
  if len(xs) != 1:
    raise AnalysisError(f"expected exactly one {what}, found {len(xs)}")
  return xs[0]


def _self_method(call):
  d = dotted(call.func) if isinstance(call, ast.Call) else None
  if d and d.startswith("self.") and d.count(".") == 1:
    return d[5:]
  return None


def _empty_dict(expr):
  return (isinstance(expr, ast.Dict) and not expr.keys) or (
      isinstance(expr, ast.Call) and dotted(expr.func) == "dict"
      and not expr.args and not expr.keywords)


def _empty_list(expr):
  return (isinstance(expr, ast.List) and not expr.elts) or (
      isinstance(expr, ast.Call) and dotted(expr.func) == "list"
      and not expr.args and not expr.keywords)


def _uses_of(rd, fn, d):
  """Load-uses of the local bound by `d` (AnalysisError on mixed bindings)."""
  out = []
  for n in ast.walk(fn):
    if isinstance(n, ast.Name) and n.id == d.name and isinstance(n.ctx, ast.Load):
      ds = rd.defs_of(n)
      if ds == {d}:
        out.append(n)
      elif d in ds:
        raise AnalysisError(
            f"{fn.name}: {d.name} at line {n.lineno} mixes several bindings")
  return out


def _classify(mod, n):
  """How a container-valued name is used: (kind, node)."""
  p = mod.parent[n]
  if isinstance(p, ast.Subscript) and p.value is n:
    if isinstance(p.ctx, ast.Store):
      return "store", p
    if isinstance(p.ctx, ast.Load):
      return "read", p
    return "del", p
  if isinstance(p, ast.Attribute) and p.value is n:
    gp = mod.parent.get(p)
    if isinstance(gp, ast.Call) and gp.func is p:
      return "method:" + p.attr, gp
    return "attr:" + p.attr, p
  if isinstance(p, ast.Call) and (n in p.args or any(k.value is n for k in p.keywords)):
    return "arg", p
  if isinstance(p, ast.keyword):
    return "arg", mod.parent[p]
  if isinstance(p, ast.Compare) and n in p.comparators and all(
      isinstance(o, (ast.In, ast.NotIn)) for o in p.ops):
    return "contains", p
  if isinstance(p, ast.Return):
    return "return", p
  if isinstance(p, (ast.For, ast.comprehension)) and p.iter is n:
    return "iterate", p
  return "other", p


def _store_stmt(mod, sub):
  st = mod.parent[sub]
  if not isinstance(st, ast.Assign) or sub not in st.targets:
    raise AnalysisError(
        f"store through {src(sub)} at line {sub.lineno} is not a plain assignment")
  return st


def _fold_attr(mod, expr):
  """Folds `Cls.ATTR` (class constant of this module) or a plain constant."""
  if isinstance(expr, ast.Attribute) and isinstance(expr.value, ast.Name) \
      and expr.value.id in mod.classes:
    v = mod.class_attr(expr.value.id, expr.attr)
    if v is not None:
      return try_fold(v, mod=mod, default=_NOFOLD)
  return try_fold(expr, mod=mod, default=_NOFOLD)


_NOFOLD = object()


class _Model:
  pass


def _model(ctx):
  return ctx.memo(("c19", "model"), lambda: _build_model(ctx))


def _build_model(ctx):
  m = _Model()
  m.mod = mod = get_module(ctx, RUN)
  m.sb = _method(mod, "setup_build")
  m.gim = mod.func("get_imports_map")
  m.wbs = _method(mod, "write_build_statement")
  m.wi = _method(mod, "write_imports")
  m.wdp = _method(mod, "write_default_pyi")
  m.ysm = _method(mod, "yield_sorted_modules")
  m.rd_sb = ReachingDefs(mod, m.sb)
  m.gim_call = _one(calls_in(m.sb, name="get_imports_map"),
                    "call of get_imports_map in setup_build")
  m.wbs_call = _one(calls_in(m.sb, name="self.write_build_statement"),
                    "call of write_build_statement in setup_build")
  m.wi_call = _one(calls_in(m.sb, name="self.write_imports"),
                   "call of write_imports in setup_build")
  m.gim_args = bind_args(m.gim_call, m.gim)
  m.wbs_args = bind_args(m.wbs_call, m.wbs, skip_self=True)
  m.wi_args = bind_args(m.wi_call, m.wi, skip_self=True)
  gp = [a.arg for a in m.gim.args.posonlyargs + m.gim.args.args]
  wp = [a.arg for a in m.wbs.args.posonlyargs + m.wbs.args.args][1:]
  ip = [a.arg for a in m.wi.args.posonlyargs + m.wi.args.args][1:]
  if len(gp) != 3 or len(wp) != 5 or len(ip) != 3:
    raise AnalysisError(
        f"signatures changed: get_imports_map{gp} write_build_statement{wp} "
        f"write_imports{ip}")
  m.g_deps, m.g_map, m.g_out = gp
  m.w_module, m.w_action, m.w_deps, m.w_imports, m.w_suffix = wp
  m.i_name, m.i_map, m.i_suffix = ip
  for params, args, what in ((gp, m.gim_args, "get_imports_map"),
                             (wp, m.wbs_args, "write_build_statement"),
                             (ip, m.wi_args, "write_imports")):
    if set(params) - set(args):
      raise AnalysisError(f"call of {what} does not pass {set(params) - set(args)}")
  # the plan loop: for <targets> in self.yield_sorted_modules()
  loop = mod.parent.get(mod.enclosing_stmt(m.gim_call))
  while loop is not None and not isinstance(loop, ast.For):
    loop = mod.parent.get(loop)
  if loop is None or _self_method(loop.iter) != "yield_sorted_modules":
    raise AnalysisError(
        "setup_build: get_imports_map is not called inside the loop over "
        "self.yield_sorted_modules()")
  m.loop = loop
  if not isinstance(loop.target, ast.Tuple) or not all(
      isinstance(e, ast.Name) for e in loop.target.elts):
    raise AnalysisError("setup_build: plan loop target is not a tuple of names")
  m.arity = len(loop.target.elts)
  rd = m.rd_sb

  def local_dict(expr, what):
    if not isinstance(expr, ast.Name):
      raise AnalysisError(f"setup_build: {what} argument is not a local name")
    d = rd.single_def(expr, what)
    if d.kind != "assign" or d.path or not _empty_dict(d.value):
      raise AnalysisError(
          f"setup_build: {what} is not a local created as an empty dict "
          f"({d.describe()})")
    if d.node in ast.walk(loop):
      raise AnalysisError(f"setup_build: {what} is re-created inside the plan loop")
    return d
  m.out_def = local_dict(m.gim_args[m.g_out], "module_to_output")
  m.map_def = local_dict(m.gim_args[m.g_map], "module_to_imports_map")
  if m.out_def is m.map_def:
    raise AnalysisError("setup_build: one dict plays both roles")

  def loop_var(expr, what):
    if not isinstance(expr, ast.Name):
      raise AnalysisError(f"setup_build: {what} is not a plain name: {src(expr)}")
    ds = rd.defs_of(expr)
    return ds
  m.loop_var = loop_var
  # default output: the value of self.write_default_pyi()
  m.wdp_calls = calls_in(m.sb, name="self.write_default_pyi")
  m.build_stmt = _parse_build_statement(m)
  return m


def _is_loop_binding(m, defs, path=None):
  """`defs` is exactly the plan loop's own binding (optionally at `path`)."""
  if len(defs) != 1:
    return False
  d = next(iter(defs))
  return d.kind == "for" and d.node is m.loop and (path is None or d.path == path)


def _origin_label(o):
  if o.kind == "expr" and isinstance(o.expr, ast.Call):
    sm = _self_method(o.expr)
    return sm or (dotted(o.expr.func) or "call")
  if o.kind == "expr":
    return type(o.expr).__name__
  return o.kind


# -- the ninja build statement ---------------------------------------------------

def _parse_build_statement(m):
  """Roles of the fields of the `build` line written by write_build_statement."""
  mod, fn = m.mod, m.wbs
  rd = m.rd_wbs = ReachingDefs(mod, fn)
  writes = [c for c in calls_in(fn) if isinstance(c.func, ast.Attribute)
            and c.func.attr == "write"]
  w = _one(writes, "write call in write_build_statement")
  if len(w.args) != 1 or w.keywords:
    raise AnalysisError("write_build_statement: write() has unexpected arguments")
  toks = template_tokens(w.args[0], mod)
  fields, text = [], ""
  for t in toks:
    if t[0] == "lit":
      if "\x00" in t[1]:
        raise AnalysisError("NUL in the build statement template")
      text += t[1]
    elif t[0] == "field":
      text += f"\x00{len(fields)}\x00"
      fields.append(t[1])
    else:
      raise AnalysisError("write_build_statement: tuple-valued % template")
  lines = text.split("\n")
  if lines[-1] != "":
    raise AnalysisError("build statement does not end with a newline")
  F = "\x00(\\d+)\x00"
  m0 = re.fullmatch(f"build {F}: {F} {F}(?:{F})?", lines[0])
  if not m0:
    raise AnalysisError(
        "build line has unknown shape: " + re.sub("\x00(\\d+)\x00", r"<\1>", lines[0]))
  bs = _Model()
  bs.write = w
  bs.output, bs.rule, bs.input = (fields[int(m0.group(i))] for i in (1, 2, 3))
  bs.deps = fields[int(m0.group(4))] if m0.group(4) else None
  bs.vars = {}
  for ln in lines[1:-1]:
    mv = re.fullmatch(f"\\s+(\\w+) = {F}", ln)
    if not mv:
      raise AnalysisError(
          "build variable line has unknown shape: "
          + re.sub("\x00(\\d+)\x00", r"<\1>", ln))
    bs.vars[mv.group(1)] = fields[int(mv.group(2))]
  # the file written: with open(self.ninja_file, MODE) as f
  recv = w.func.value
  if not isinstance(recv, ast.Name):
    raise AnalysisError("write_build_statement: write receiver is not a name")
  d = rd.single_def(recv, "file handle")
  if d.kind != "with" or dotted(getattr(d.value, "func", None)) != "open":
    raise AnalysisError("write_build_statement: file handle is not `with open(..)`")
  bs.open_call = d.value
  return bs


def _escape_args(rd, expr):
  """If every origin of `expr` is escape_ninja_path(x): the list of x, else None."""
  out = []
  for o in rd.origins(expr):
    if o.kind == "expr" and isinstance(o.expr, ast.Call) \
        and dotted(o.expr.func) == "escape_ninja_path" \
        and len(o.expr.args) == 1 and not o.expr.keywords:
      out.append(o.expr.args[0])
    else:
      return None
  return out or None


# -- R19.1 ---------------------------------------------------------------------------

_ALLOWED_OUTPUT_ORIGINS = {"write_build_statement", "write_default_pyi"}


@rule("R19.1", "C19", floor=7)
def r19_1(ctx):
  """Provenance of module_to_output values and of imports-map entries."""
  m = _model(ctx)
  mod, rd = m.mod, m.rd_sb
  # (a) every store into module_to_output
  stores = 0
  for use in _uses_of(rd, m.sb, m.out_def):
    kind, node = _classify(mod, use)
    if kind == "store":
      st = _store_stmt(mod, node)
      origins = rd.origins(st.value)
      labels = sorted({_origin_label(o) for o in origins})
      for o in origins:
        if o.kind not in ("expr", "global"):
          raise AnalysisError(
              f"setup_build: value stored in {m.out_def.name} at line "
              f"{st.lineno} comes from {o.describe()} (provenance unknown)")
      ok = all(l in _ALLOWED_OUTPUT_ORIGINS for l in labels)
      stores += 1
      ctx.check(ok, "setup_build:output-store<-" + "+".join(labels), RUN,
                st.lineno,
                f"a value stored in {m.out_def.name} comes from "
                f"{[o.describe() for o in origins]}; only the declared output "
                "of write_build_statement(...) or the default stub of "
                "write_default_pyi() names a file some earlier step produces",
                {"origins": [o.describe() for o in origins]})
    elif kind in ("read", "contains") or (
        kind.startswith("method:") and kind[7:] in _DICT_READERS):
      continue
    elif kind == "arg" and node is m.gim_call:
      continue
    elif kind == "method:get":
      ctx.bad("setup_build:output-read-with-default", RUN, node.lineno,
              f"{m.out_def.name}.get(..) hides a dependency whose build "
              "statement has not been written yet (must be a subscript: "
              "KeyError)", {"expr": src(node)})
    else:
      raise AnalysisError(
          f"setup_build: {m.out_def.name} is used in a way the provenance "
          f"rule does not track ({kind} at line {use.lineno})")
  if not stores:
    raise AnalysisError("setup_build: no store into module_to_output found")
  _r19_1_get_imports_map(ctx, m)
  # (c) write_build_statement returns the output it declares
  bs, rdw = m.build_stmt, m.rd_wbs
  inner = _escape_args(rdw, bs.output)
  rets = [n for n in walk_no_nested(m.wbs) if isinstance(n, ast.Return)]
  if not rets:
    raise AnalysisError("write_build_statement has no return")
  ok = inner is not None and len(inner) == 1 and isinstance(inner[0], ast.Name)
  facts = {"declared": src(bs.output), "returned": [src(r.value) for r in rets]}
  if ok:
    decl = rdw.defs_of(inner[0])
    for r in rets:
      ok = ok and isinstance(r.value, ast.Name) and len(decl) == 1 \
          and rdw.defs_of(r.value) == decl
  ctx.check(ok, "write_build_statement:returns-declared-output", RUN,
            rets[0].lineno,
            "the value returned (and recorded in module_to_output) must be "
            "the same unescaped path whose escaped form is the output of the "
            f"build line: {facts}", facts)
  # (d) write_default_pyi returns the path it wrote
  _returns_written_path(ctx, m, m.wdp, "write_default_pyi")


def _returns_written_path(ctx, m, fn, label):
  mod = m.mod
  rd = ReachingDefs(mod, fn)
  rets = [n for n in walk_no_nested(fn) if isinstance(n, ast.Return)]
  opens = [c for c in calls_in(fn, name="open")]
  if not rets or len(opens) != 1:
    raise AnalysisError(f"{label}: expected one open() and a return")
  o = opens[0]
  mode = try_fold(o.args[1], mod=mod) if len(o.args) > 1 else None
  ok = len(o.args) >= 2 and isinstance(o.args[0], ast.Name) and mode == "w"
  if ok:
    want = rd.defs_of(o.args[0])
    ok = len(want) == 1 and all(
        isinstance(r.value, ast.Name) and rd.defs_of(r.value) == want
        for r in rets)
  ctx.check(ok, f"{label}:returns-written-path", RUN, rets[0].lineno,
            f"{label} must return the very path it opened for writing "
            f"(open({src(o.args[0]) if o.args else ''}, {mode!r}))",
            {"opened": src(o.args[0]) if o.args else None, "mode": mode,
             "returned": [src(r.value) for r in rets]})
  return rd


def _r19_1_get_imports_map(ctx, m):
  mod, fn = m.mod, m.gim
  rd = ReachingDefs(mod, fn)
  p_deps, p_map, p_out = (rd.params[x] for x in (m.g_deps, m.g_map, m.g_out))

  def is_param(node, p):
    return isinstance(node, ast.Name) and rd.defs_of(node) == {p}

  def dep_var(node):
    if not isinstance(node, ast.Name):
      return False
    ds = rd.defs_of(node)
    if len(ds) != 1:
      return False
    d = next(iter(ds))
    return d.kind in ("for", "comp") and not d.path and is_param(
        strip_iter_wrappers(d.value), p_deps)

  rets = [n for n in walk_no_nested(fn) if isinstance(n, ast.Return)]
  if not rets or not all(isinstance(r.value, ast.Name) for r in rets):
    raise AnalysisError("get_imports_map: return value is not a local name")
  rdefs = {rd.single_def(r.value, "result") for r in rets}
  r_def = _one(list(rdefs), "result binding of get_imports_map")
  fresh = r_def.kind == "assign" and not r_def.path and _empty_dict(r_def.value)

  def dep_elem(node):
    """An element of the deps parameter: the loop variable or deps[<const>]."""
    return dep_var(node) or (
        isinstance(node, ast.Subscript) and is_param(node.value, p_deps)
        and isinstance(node.slice, ast.Constant) and isinstance(node.slice.value, int))

  def stored_map_of_dep(e):
    """`module_to_imports_map[dep]` / `.get(dep, {})`: a dict object that is
    STORED in the parameter (shared with the caller and with earlier steps)."""
    if isinstance(e, ast.Subscript) and is_param(e.value, p_map) and dep_elem(e.slice):
      return True
    return isinstance(e, ast.Call) and isinstance(e.func, ast.Attribute) \
        and e.func.attr in ("get", "setdefault", "pop") and is_param(e.func.value, p_map) \
        and e.args and dep_elem(e.args[0])

  def initial_kinds(e):
    """How the result object comes to be: set of (kind, expr) with kind in
    empty / copy / alias / unknown, over the arms of conditional expressions."""
    if isinstance(e, ast.IfExp):
      return initial_kinds(e.body) | initial_kinds(e.orelse)
    if isinstance(e, ast.BoolOp) and isinstance(e.op, ast.Or):
      out = set()
      for v in e.values:
        out |= initial_kinds(v)
      return out
    if _empty_dict(e):
      return {("empty", e)}
    if isinstance(e, ast.Call) and dotted(e.func) == "dict" and len(e.args) == 1 \
        and not e.keywords:
      return {("copy", e.args[0])}
    if isinstance(e, ast.Call) and isinstance(e.func, ast.Attribute) \
        and e.func.attr == "copy" and not e.args:
      return {("copy", e.func.value)}
    if isinstance(e, ast.Dict) and e.keys == [None]:
      return {("copy", e.values[0])}
    if stored_map_of_dep(e) or any(is_param(e, p) for p in (p_map, p_out)):
      return {("alias", e)}
    if isinstance(e, ast.Name):
      ds = rd.defs_of(e)
      if len(ds) == 1 and next(iter(ds)).kind == "assign" and not next(iter(ds)).path:
        return initial_kinds(next(iter(ds)).value)
    return {("unknown", e)}

  init = initial_kinds(r_def.value) if r_def.kind == "assign" and not r_def.path else set()
  aliases = [e for k, e in init if k == "alias"]
  mutated = sorted({k for k in (_classify(mod, u)[0] for u in _uses_of(rd, fn, r_def))
                    if k in ("store", "del") or (k.startswith("method:") and k[7:] in (
                        "update", "setdefault", "pop", "popitem", "clear", "__setitem__"))})
  if aliases and mutated:
    # definite: the object returned (and stored by the caller as this module's
    # map) is a dict that already belongs to another module, mutated in place
    ctx.bad("get_imports_map:result-is-fresh-dict", RUN, r_def.node.lineno,
            f"the returned map is bound by {r_def.describe()}: on that path it IS the dict "
            f"stored in {p_map.name} for a dependency (`{src(aliases[0])}`, no copy) and is then "
            f"mutated in place ({', '.join(mutated)}); the dependency's stored map - and every "
            "later module that inherits from it - silently gains the entries of this module's "
            "other dependencies, which are not in the transitive closure of their declared "
            "ninja deps (a parallel schedule may read such a stub before it is written)",
            {"binding": r_def.describe(), "aliases": [src(e) for e in aliases],
             "mutations": mutated})
  alias_reported = bool(aliases and mutated)
  if init and all(k in ("empty", "copy") for k, _ in init) and any(k == "copy" for k, _ in init):
    bad_src = [e for k, e in init if k == "copy" and not stored_map_of_dep(e)]
    if bad_src:
      raise AnalysisError(
          f"get_imports_map: the result starts as a copy of `{src(bad_src[0])}`, whose "
          "provenance is not understood")
    # a private copy of a dependency's stored map: same entries as inheriting it
    fresh = True
  # parameters are only read
  for p, allowed in ((p_out, {"read", "contains"}), (p_map, {"read", "contains", "method:get"}),
                     (p_deps, {"iterate", "arg", "read", "truth"})):
    for use in _uses_of(rd, fn, p):
      kind, node = _classify(mod, use)
      if kind == "arg" and dotted(node.func) not in (
          "sorted", "tuple", "list", "set", "frozenset", "reversed", "iter", "len", "bool"):
        kind = "escape"
      if kind == "other" and (
          (isinstance(node, (ast.IfExp, ast.If, ast.While)) and node.test is use)
          or isinstance(node, ast.BoolOp)
          or (isinstance(node, ast.UnaryOp) and isinstance(node.op, ast.Not))):
        kind = "truth"
      if kind == "read" and p is p_deps and not (
          isinstance(node.slice, ast.Constant) or isinstance(node.slice, ast.Slice)):
        kind = "escape"
      if p is p_out and kind.startswith("method:"):
        continue  # judged below at the store it feeds
      if kind not in allowed:
        raise AnalysisError(
            f"get_imports_map: parameter {p.name} is used as `{kind}` at line "
            f"{use.lineno}; only reads are understood")
  entries = inherits = 0
  kinds = []
  for use in _uses_of(rd, fn, r_def):
    kind, node = _classify(mod, use)
    kinds.append(kind)
    if kind == "store":
      st = _store_stmt(mod, node)
      entries += 1
      origins = rd.origins(st.value)
      reason = None
      for o in origins:
        e = o.expr
        if o.kind == "expr" and isinstance(e, ast.Subscript) \
            and is_param(e.value, p_out) and dep_var(e.slice):
          continue
        if o.kind == "expr" and isinstance(e, ast.Call) \
            and isinstance(e.func, ast.Attribute) and is_param(e.func.value, p_out):
          reason = (f"{src(e)} reads {p_out.name} with a default: a dependency "
                    "whose build statement is not written yet is silently "
                    "replaced instead of raising KeyError")
        elif o.kind not in ("expr", "global"):
          raise AnalysisError(
              f"get_imports_map: entry value comes from {o.describe()}")
        else:
          reason = (f"entry value {o.describe()} is not {p_out.name}[m] for "
                    f"m in {p_deps.name}")
      g = flow.guards(mod.parent, st)
      if reason is None and g:
        if any(p_out.name in flow.names_in(t) for t, _ in g):
          reason = ("the entry is only inserted under "
                    f"{[src(t) for t, _ in g]}: a dependency without output "
                    "is skipped silently")
        else:
          raise AnalysisError(
              f"get_imports_map: entry store guarded by {[src(t) for t, _ in g]}")
      key_ok = any(dep_var(n) for n in ast.walk(node.slice)
                   if isinstance(n, ast.Name))
      if reason is None and not key_ok:
        reason = f"the key {src(node.slice)} is not computed from the dependency"
      ctx.check(reason is None, "get_imports_map:entry<-output[dep]", RUN,
                st.lineno, reason or "",
                {"value": [o.describe() for o in origins],
                 "key": src(node.slice), "guards": [src(t) for t, _ in g]})
    elif kind == "method:update":
      inherits += 1
      if len(node.args) != 1 or node.keywords:
        raise AnalysisError("get_imports_map: update() with unexpected arguments")
      origins = rd.origins(node.args[0])
      reason = None
      for o in origins:
        e = o.expr
        if o.kind == "expr" and isinstance(e, ast.Subscript) \
            and is_param(e.value, p_map) and dep_var(e.slice):
          continue
        if o.kind == "expr" and isinstance(e, ast.Call) \
            and isinstance(e.func, ast.Attribute) and e.func.attr == "get" \
            and is_param(e.func.value, p_map) and len(e.args) == 2 \
            and dep_var(e.args[0]) and try_fold(e.args[1]) in ({}, (), []):
          continue
        if o.kind not in ("expr", "global"):
          raise AnalysisError(
              f"get_imports_map: inherited map comes from {o.describe()}")
        reason = (f"inherited entries come from {o.describe()}, not from "
                  f"{p_map.name}[m] for m in {p_deps.name}")
      st = mod.enclosing_stmt(node)
      g = flow.guards(mod.parent, st)
      for t, pol in g:
        good = pol and isinstance(t, ast.Compare) and len(t.ops) == 1 \
            and isinstance(t.ops[0], ast.In) and dep_var(t.left) \
            and is_param(t.comparators[0], p_map)
        if not good:
          raise AnalysisError(
              f"get_imports_map: update guarded by unknown test {src(t)}")
      ctx.check(reason is None, "get_imports_map:inherited<-imports_map[dep]",
                RUN, st.lineno, reason or "",
                {"value": [o.describe() for o in origins],
                 "guards": [src(t) for t, _ in g]})
    elif kind in ("return", "read", "contains") or (
        kind.startswith("method:") and kind[7:] in _DICT_READERS | {"get"}):
      continue
    else:
      raise AnalysisError(
          f"get_imports_map: result dict used as `{kind}` at line {use.lineno}")
  if not alias_reported:
    ctx.check(fresh, "get_imports_map:result-is-fresh-dict", RUN, fn.lineno,
              f"the returned map is bound by {r_def.describe()}; it must start "
              "as an empty dict (or a private copy of a dependency's stored "
              "map) so that every entry has the provenance above",
              {"binding": r_def.describe(), "uses": sorted(set(kinds))})
  if not entries:
    ctx.bad("get_imports_map:entry<-output[dep]", RUN, fn.lineno,
            "no imports-map entry is inserted for the direct dependencies")


# -- R19.2 ---------------------------------------------------------------------------

def _default_output_origin(m, rd, expr):
  """True iff every origin of `expr` is the self.write_default_pyi() call."""
  os_ = rd.origins(expr)
  return bool(os_) and all(
      o.kind == "expr" and _self_method(o.expr) == "write_default_pyi"
      for o in os_)


@rule("R19.2", "C19", floor=6)
def r19_2(ctx):
  """Imports map and ninja `|` dependencies are computed from the same deps."""
  m = _model(ctx)
  mod, rd = m.mod, m.rd_sb
  a = m.gim_args[m.g_deps]
  if not isinstance(a, ast.Name):
    raise AnalysisError("setup_build: deps argument of get_imports_map is not a name")
  a_defs = rd.defs_of(a)
  # the deps argument of write_build_statement
  d_arg = m.wbs_args[m.w_deps]
  origins = rd.origins(d_arg)
  o = _one(origins, "origin of the deps passed to write_build_statement")
  comp = strip_iter_wrappers(o.expr) if o.kind == "expr" else None
  if not isinstance(comp, (ast.GeneratorExp, ast.ListComp, ast.SetComp)) \
      or len(comp.generators) != 1:
    if not (o.d is not None and _is_loop_binding(m, {o.d})):
      raise AnalysisError(
          "setup_build: the deps given to write_build_statement are built by "
          f"an idiom the rule does not understand ({o.describe()})")
    # understood-and-wrong: the module list itself is passed as ninja deps
    ctx.bad("setup_build:ninja-deps-same-binding", RUN, d_arg.lineno,
            f"the deps given to write_build_statement come from {o.describe()}, "
            "not from a comprehension over the deps given to get_imports_map",
            {"origin": o.describe()})
    return
  # A comprehension over a comprehension denotes the same elements as the
  # flattened one: `e(x) for x in (f(y) for y in ys) if c(x)` is
  # `e(f(y)) for y in ys if c(f(y))`.  Layers are peeled down to the innermost
  # generator; a layer variable stands for the element expression of the layer
  # it iterates over.
  layers = [comp]
  while True:
    inner = strip_iter_wrappers(layers[-1].generators[0].iter)
    if not isinstance(inner, (ast.GeneratorExp, ast.ListComp, ast.SetComp)):
      break
    if len(inner.generators) != 1:
      raise AnalysisError(
          "setup_build: the ninja deps iterate over a comprehension with several "
          f"generators ({src(inner)[:60]})")
    layers.append(inner)
  gens = [c.generators[0] for c in layers]
  gen = gens[-1]
  it = gen.iter

  def denote(e):
    while isinstance(e, ast.Name):
      ds = rd.defs_of(e)
      d = next(iter(ds)) if len(ds) == 1 else None
      if d is None or d.kind != "comp" or d.path or d.node not in gens[:-1]:
        break
      e = layers[gens.index(d.node) + 1].elt
    return e
  same = isinstance(it, ast.Name) and rd.defs_of(it) == a_defs \
      and _is_loop_binding(m, a_defs)
  ctx.check(same, "setup_build:ninja-deps-same-binding", RUN, comp.lineno,
            f"get_imports_map receives {src(a)} bound by "
            f"{[d.describe() for d in a_defs]} but the ninja dependencies "
            f"iterate over {src(it)} bound by "
            f"{[d.describe() for d in rd.defs_of(it)] if isinstance(it, ast.Name) else 'an expression'}"
            "; both must be the plan loop's own deps binding",
            {"imports_map_deps": [d.describe() for d in a_defs],
             "ninja_deps_iter": src(it)})
  # element: module_to_output[m]
  var = gen.target
  elt = comp.elt

  def is_out_read(e):
    e = denote(e)
    return isinstance(e, ast.Subscript) and isinstance(e.value, ast.Name) \
        and rd.defs_of(e.value) == {m.out_def} and isinstance(e.slice, ast.Name) \
        and isinstance(var, ast.Name) and e.slice.id == var.id \
        and next(iter(rd.defs_of(e.slice))).node is gen
  ctx.check(is_out_read(elt), "setup_build:ninja-deps-are-outputs", RUN,
            elt.lineno,
            f"each ninja dependency must be {m.out_def.name}[m] for the "
            f"iterated m (subscript, KeyError when missing); found {src(denote(elt))}",
            {"element": src(denote(elt))})
  # filters: only `module_to_output[m] != default_output`
  conds = []
  for c in [c for g in gens for c in g.ifs]:
    conds.extend(c.values if isinstance(c, ast.BoolOp) and isinstance(c.op, ast.And)
                 else [c])
  bad_f = []
  for c in conds:
    ok = isinstance(c, ast.Compare) and len(c.ops) == 1 \
        and isinstance(c.ops[0], (ast.NotEq, ast.IsNot))
    if ok:
      l, r = c.left, c.comparators[0]
      ok = (is_out_read(l) and _default_output_origin(m, rd, r)) or \
           (is_out_read(r) and _default_output_origin(m, rd, l))
    if not ok:
      bad_f.append(src(c))
  ctx.check(not bad_f, "setup_build:ninja-deps-filter", RUN, comp.lineno,
            f"filter(s) {bad_f} drop dependencies from the `|` list that are "
            "still in the imports map; only the default stub (written before "
            "ninja starts) may be left out",
            {"filters": [src(c) for c in conds]})
  # P3: map and output stored in the same iteration, for the same module
  map_stores = [(_classify(mod, u)) for u in _uses_of(rd, m.sb, m.map_def)]
  for kind, node in map_stores:
    if kind not in ("store", "read", "contains") and not (
        kind == "arg" and node is m.gim_call):
      raise AnalysisError(
          f"setup_build: {m.map_def.name} used as `{kind}` (not tracked)")
  ms = [n for k, n in map_stores if k == "store"]
  ms = _one(ms, f"store into {m.map_def.name}")
  ms_stmt = _store_stmt(mod, ms)
  ms_val = rd.origins(ms_stmt.value)
  out_store = None
  for use in _uses_of(rd, m.sb, m.out_def):
    kind, node = _classify(mod, use)
    if kind == "store":
      st = _store_stmt(mod, node)
      if any(o.kind == "expr" and o.expr is m.wbs_call for o in rd.origins(st.value)):
        out_store = (node, st)
  if out_store is None:
    raise AnalysisError("setup_build: store of the write_build_statement result not found")
  on, ost = out_store
  k1 = rd.defs_of(ms.slice) if isinstance(ms.slice, ast.Name) else frozenset()
  k2 = rd.defs_of(on.slice) if isinstance(on.slice, ast.Name) else frozenset()
  mod_arg = m.wbs_args[m.w_module]
  k3 = rd.defs_of(mod_arg) if isinstance(mod_arg, ast.Name) else frozenset()
  ok = (len(ms_val) == 1 and ms_val[0].kind == "expr" and ms_val[0].expr is m.gim_call
        and _is_loop_binding(m, k1) and k1 == k2 == k3
        and executes_before(mod, m.sb, lambda u: u is ms_stmt, ost))
  ctx.check(ok, "setup_build:map-and-output-same-iteration", RUN, ost.lineno,
            f"{m.map_def.name}[{src(ms.slice)}] (value "
            f"{[o.describe() for o in ms_val]}) and "
            f"{m.out_def.name}[{src(on.slice)}] must be stored for the plan "
            "loop's module in the same iteration, the map first, so that an "
            "inherited map always belongs to the step producing the output",
            {"map_key": [d.describe() for d in k1],
             "output_key": [d.describe() for d in k2],
             "built_module": [d.describe() for d in k3]})
  # the imports file of the step holds this step's map
  imp = rd.origins(m.wbs_args[m.w_imports])
  held = rd.origins(m.wi_args[m.i_map])
  ok = len(imp) == 1 and imp[0].kind == "expr" and imp[0].expr is m.wi_call \
      and len(held) == 1 and held[0].kind == "expr" and held[0].expr is m.gim_call
  ctx.check(ok, "setup_build:imports-file-holds-this-steps-map", RUN,
            m.wi_call.lineno,
            f"write_build_statement's imports file comes from "
            f"{[o.describe() for o in imp]} and that file is written from "
            f"{[o.describe() for o in held]}; expected write_imports(..) of "
            "the get_imports_map(..) result of this iteration",
            {"imports": [o.describe() for o in imp],
             "map": [o.describe() for o in held]})
  # write_build_statement: the deps parameter becomes the `|` list
  _deps_field(ctx, m, want="pipe")


def _deps_field(ctx, m, want):
  """Analyses the {deps} field of the build line (shared by R19.2/R19.4)."""
  mod, rdw, bs = m.mod, m.rd_wbs, m.build_stmt
  if bs.deps is None:
    if want == "pipe":
      ctx.bad("write_build_statement:deps-are-implicit-dependencies", RUN,
              bs.write.lineno, "the build line has no dependency field")
    return
  p_deps = rdw.params[m.w_deps]
  origins = rdw.origins(bs.deps)
  pipe_ok, esc_ok, n_join = True, True, 0
  facts = []
  for o in origins:
    if o.kind != "expr":
      raise AnalysisError(f"write_build_statement: deps field comes from {o.describe()}")
    e = o.expr
    if try_fold(e, mod=mod, default=None) == "":
      facts.append("''")
      continue
    toks = None
    if isinstance(e, ast.BinOp) and isinstance(e.op, ast.Add):
      prefix = try_fold(e.left, mod=mod)
      join = e.right
    elif isinstance(e, ast.JoinedStr) and len(e.values) == 2 and isinstance(
        e.values[0], ast.Constant) and isinstance(e.values[1], ast.FormattedValue):
      prefix = e.values[0].value
      join = e.values[1].value
    else:
      prefix, join = "", e
    if not (isinstance(join, ast.Call) and isinstance(join.func, ast.Attribute)
            and join.func.attr == "join" and len(join.args) == 1):
      raise AnalysisError(
          f"write_build_statement: deps field value {src(e)[:60]} has unknown shape")
    n_join += 1
    sep = try_fold(join.func.value, mod=mod)
    comp = join.args[0]
    if isinstance(comp, ast.Name) and rdw.defs_of(comp) == {p_deps}:
      # the parameter joined as it is: all deps, none escaped
      facts.append({"prefix": prefix, "separator": sep, "iter": src(comp),
                    "filters": [], "element": "<unescaped>"})
      pipe_ok = pipe_ok and isinstance(prefix, str) and prefix.strip() == "|" \
          and prefix.startswith(" ") and prefix.endswith(" ") and sep == " "
      esc_ok = False
      continue
    if not isinstance(comp, (ast.GeneratorExp, ast.ListComp)) or len(comp.generators) != 1:
      raise AnalysisError("write_build_statement: deps are not joined from a comprehension")
    g = comp.generators[0]
    it = strip_iter_wrappers(g.iter)
    from_param = isinstance(it, ast.Name) and rdw.defs_of(it) == {p_deps}
    facts.append({"prefix": prefix, "separator": sep, "iter": src(g.iter),
                  "filters": [src(c) for c in g.ifs], "element": src(comp.elt)})
    pipe_ok = pipe_ok and isinstance(prefix, str) and prefix.strip() == "|" \
        and prefix.startswith(" ") and prefix.endswith(" ") and sep == " " \
        and from_param and not g.ifs
    inner = None
    if isinstance(comp.elt, ast.Call) and dotted(comp.elt.func) == "escape_ninja_path" \
        and len(comp.elt.args) == 1:
      inner = comp.elt.args[0]
    esc_ok = esc_ok and isinstance(inner, ast.Name) and isinstance(g.target, ast.Name) \
        and inner.id == g.target.id
  if not n_join:
    pipe_ok = esc_ok = False
  if want == "pipe":
    ctx.check(pipe_ok, "write_build_statement:deps-are-implicit-dependencies",
              RUN, bs.write.lineno,
              "every element of the deps parameter must appear, space "
              "separated, after ' | ' directly behind the input of the build "
              f"line (ninja implicit dependencies); found {facts}",
              {"values": facts})
  else:
    ctx.check(esc_ok, "write_build_statement:escaped:dep", RUN, bs.write.lineno,
              f"each dependency must be passed through escape_ninja_path: {facts}",
              {"values": facts})


# -- R19.3 ---------------------------------------------------------------------------

def _stage_table(mod):
  cls = mod.cls("Stage")
  out = {}
  for st in cls.body:
    if isinstance(st, ast.Assign) and len(st.targets) == 1 and isinstance(
        st.targets[0], ast.Name):
      v = try_fold(st.value, mod=mod, default=_NOFOLD)
      if v is not _NOFOLD:
        out[st.targets[0].id] = v
  for need in ("SINGLE_PASS", "FIRST_PASS", "SECOND_PASS"):
    if need not in out:
      raise AnalysisError(f"Stage.{need} not found")
  if len(set(out.values())) != len(out):
    raise AnalysisError("Stage constants are not pairwise distinct")
  return out


def _stage_of(mod, expr, stages):
  """Name of the Stage constant `expr` denotes, or None."""
  if isinstance(expr, ast.Attribute) and dotted(expr.value) == "Stage" \
      and expr.attr in stages:
    return expr.attr
  return None


def _possible_stages(m, rd, stmt, stages, extra=()):
  """Stages under which `stmt` can execute, from `stage == Stage.X` guards."""
  poss = set(stages)
  seen = []
  for test, pol in list(flow.guards(m.mod.parent, stmt)) + list(extra):
    tests = [(test, pol)]
    if isinstance(test, ast.BoolOp) and isinstance(test.op, ast.And) and pol:
      tests = [(v, True) for v in test.values]
    if isinstance(test, ast.BoolOp) and isinstance(test.op, ast.Or) and not pol:
      tests = [(v, False) for v in test.values]
    for t, p in tests:
      if not (isinstance(t, ast.Compare) and len(t.ops) == 1):
        continue
      l, r, op = t.left, t.comparators[0], t.ops[0]
      names = None
      if isinstance(op, (ast.Eq, ast.Is, ast.NotEq, ast.IsNot)):
        for a, b in ((l, r), (r, l)):
          s = _stage_of(m.mod, b, stages)
          if s and isinstance(a, ast.Name) and _is_loop_binding(m, rd.defs_of(a)):
            names = {s}
            var = a
        if isinstance(op, (ast.NotEq, ast.IsNot)):
          p = not p
      elif isinstance(op, (ast.In, ast.NotIn)) and isinstance(r, (ast.Tuple, ast.List, ast.Set)):
        ss = [_stage_of(m.mod, e, stages) for e in r.elts]
        if all(ss) and isinstance(l, ast.Name) and _is_loop_binding(m, rd.defs_of(l)):
          names = set(ss)
          var = l
        if isinstance(op, ast.NotIn):
          p = not p
      if names is None:
        continue
      seen.append(next(iter(rd.defs_of(var))).path)
      poss = (poss & names) if p else (poss - names)
  return poss, seen


def _comp_tuple_len(e):
  """Length of the tuples a list-building expression produces, or None."""
  e = e.args[0] if isinstance(e, ast.Call) and dotted(e.func) == "list" \
      and len(e.args) == 1 and not e.keywords else e
  if isinstance(e, (ast.ListComp, ast.GeneratorExp)) and isinstance(e.elt, ast.Tuple) \
      and not any(isinstance(x, ast.Starred) for x in e.elt.elts):
    return len(e.elt.elts)
  return None


def _list_elem_len(mod, rd, fn, d, depth=2):
  """Length of the tuples held by the list bound by `d`: a list created empty
  and filled by `append((..))`, a list comprehension (or list(<genexp>)) of
  tuples, or the result of a module-local helper / method of the runner that
  returns such a list.  None = not understood."""
  if d.kind != "assign" or d.path:
    return None
  lens = set()
  if _empty_list(d.value):
    pass
  elif _comp_tuple_len(d.value) is not None:
    lens.add(_comp_tuple_len(d.value))
  elif isinstance(d.value, ast.Call) and depth > 0:
    callee = U.callee_of(mod, d.value, cls=RUNNER, within=fn)
    if callee is None or any(isinstance(n, (ast.Yield, ast.YieldFrom))
                             for n in walk_no_nested(callee)):
      return None
    crd = ReachingDefs(mod, callee)
    rets = [n for n in walk_no_nested(callee) if isinstance(n, ast.Return)]
    if not rets:
      return None
    for r in rets:
      if r.value is None:
        return None
      n = _comp_tuple_len(r.value)
      if n is None and isinstance(r.value, ast.Name):
        ds = crd.defs_of(r.value)
        n = _list_elem_len(mod, crd, callee, next(iter(ds)), depth - 1) if len(ds) == 1 else None
      if n is None:
        return None
      lens.add(n)
  else:
    return None
  for use in _uses_of(rd, fn, d):
    kind, node = _classify(mod, use)
    if kind == "method:append" and len(node.args) == 1 and isinstance(
        node.args[0], ast.Tuple):
      lens.add(len(node.args[0].elts))
    elif kind in ("read", "iterate", "arg", "contains", "return"):
      continue
    else:
      raise AnalysisError(f"yield: list {d.name} used as {kind}")
  return lens.pop() if len(lens) == 1 else None


def _tuple_shape(mod, rd, fn, expr):
  """Element expressions of a tuple-valued expression (None = unknown elt)."""
  if isinstance(expr, ast.Tuple):
    if any(isinstance(e, ast.Starred) for e in expr.elts):
      raise AnalysisError("yield: starred tuple element")
    return list(expr.elts)
  if isinstance(expr, ast.BinOp) and isinstance(expr.op, ast.Add):
    return _tuple_shape(mod, rd, fn, expr.left) + _tuple_shape(mod, rd, fn, expr.right)
  if isinstance(expr, ast.Subscript) and isinstance(expr.value, ast.Name):
    d = rd.single_def(expr.value, "list of pending modules")
    n = _list_elem_len(mod, rd, fn, d)
    if n is not None:
      return [None] * n
  raise AnalysisError(f"yield: cannot determine the tuple shape of {src(expr)}")


@rule("R19.3", "C19", floor=13)
def r19_3(ctx):
  """Pass suffixes and the two-pass plan for import cycles."""
  m = _model(ctx)
  mod, rd = m.mod, m.rd_sb
  stages = _stage_table(mod)
  fps = try_fold(mod.const("FIRST_PASS_SUFFIX"), mod=mod, default=_NOFOLD)
  if fps is _NOFOLD:
    raise AnalysisError("FIRST_PASS_SUFFIX is not a constant")
  ctx.check(isinstance(fps, str) and fps != "" and not (set(fps) & NINJA_ESCAPABLE)
            and "/" not in fps,
            "FIRST_PASS_SUFFIX:non-empty", RUN, mod.const("FIRST_PASS_SUFFIX").lineno,
            f"FIRST_PASS_SUFFIX = {fps!r}: first-pass outputs must have a name "
            "distinct from the final stub of the same module",
            {"value": fps})
  # suffix passed to write_build_statement / write_imports
  s_arg = m.wbs_args[m.w_suffix]
  i_arg = m.wi_args[m.i_suffix]
  if not isinstance(s_arg, ast.Name) or not isinstance(i_arg, ast.Name):
    raise AnalysisError("setup_build: suffix arguments are not local names")
  defs = rd.defs_of(s_arg)
  ctx.check(defs == rd.defs_of(i_arg) and s_arg.id == i_arg.id,
            "setup_build:same-suffix-for-imports-and-output", RUN, s_arg.lineno,
            "write_imports and write_build_statement must receive the same "
            "suffix binding (a first-pass step must read its own imports file)",
            {"output_suffix": sorted(d.describe() for d in defs),
             "imports_suffix": sorted(d.describe() for d in rd.defs_of(i_arg))})
  wbs_stmt = mod.enclosing_stmt(m.wbs_call)
  ctx.check(rd.assigned_on_every_path(s_arg.id, wbs_stmt)
            and all(d.node in set(ast.walk(m.loop)) for d in defs),
            "setup_build:suffix-assigned-each-iteration", RUN, wbs_stmt.lineno,
            "on some path through the loop body the suffix is not assigned, so "
            "the value of the previous step would be reused",
            {"defs": sorted(d.describe() for d in defs)})
  stage_paths = set()
  covered = set()
  for d in sorted(defs, key=lambda d: d.node.lineno):
    if d.kind != "assign" or d.path:
      raise AnalysisError(f"setup_build: suffix bound by {d.describe()}")
    arms = [(d.value, ())]
    if isinstance(d.value, ast.IfExp):
      arms = [(d.value.body, ((d.value.test, True),)),
              (d.value.orelse, ((d.value.test, False),))]
    for val, extra in arms:
      v = _fold_attr(mod, val)
      if not isinstance(v, str):
        raise AnalysisError(f"setup_build: suffix value {src(val)} is not a constant")
      poss, seen = _possible_stages(m, rd, d.node, stages, extra)
      stage_paths.update(seen)
      if len(poss) == len(stages):
        raise AnalysisError(
            f"setup_build: suffix assignment at line {d.node.lineno} is not "
            "guarded by a test on the stage")
      covered |= poss
      want = {"FIRST_PASS"} if v != "" else {"SINGLE_PASS", "SECOND_PASS"}
      ok = poss <= want and (v == "" or v == fps)
      for s in sorted(poss) or ["<unreachable>"]:
        ctx.check(ok, f"setup_build:suffix@{s}", RUN, d.node.lineno,
                  f"suffix {v!r} is chosen under stage(s) {sorted(poss)}; the "
                  "final name ('') is for SINGLE_PASS/SECOND_PASS only and "
                  "FIRST_PASS must use FIRST_PASS_SUFFIX",
                  {"suffix": v, "stages": sorted(poss)})
  if len(stage_paths) != 1:
    raise AnalysisError("setup_build: stage variable not identified")
  m.pos_stage = next(iter(stage_paths))
  # outputs really carry the suffix
  for fn, rdx, pname, label in (
      (m.wbs, m.rd_wbs, m.w_suffix, "write_build_statement"),
      (m.wi, ReachingDefs(mod, m.wi), m.i_suffix, "write_imports")):
    rets = [n for n in walk_no_nested(fn) if isinstance(n, ast.Return)]
    ok = bool(rets)
    shown = []
    for r in rets:
      os_ = rdx.origins(r.value)
      shown += [o.describe() for o in os_]
      for o in os_:
        ok = ok and o.kind == "expr" and any(
            isinstance(n, ast.Name) and n.id == pname
            and rdx.defs_of(n) == {rdx.params[pname]} for n in ast.walk(o.expr))
    ctx.check(ok, f"{label}:output-name-uses-suffix", RUN, fn.lineno,
              f"the path returned by {label} ({shown}) does not depend on its "
              "suffix parameter: both passes would write the same file",
              {"returned": shown})
  _r19_3_yields(ctx, m, stages)


def _r19_3_yields(ctx, m, stages):
  mod, fn = m.mod, m.ysm
  rd = ReachingDefs(mod, fn)
  srd = m.rd_sb
  pos_stage = m.pos_stage
  if len(pos_stage) != 1:
    raise AnalysisError("setup_build: stage is not a direct element of the yield")
  pos_stage = pos_stage[0]

  def pos_of(expr, what):
    if not isinstance(expr, ast.Name):
      raise AnalysisError(f"setup_build: {what} is not a plain name")
    ds = srd.defs_of(expr)
    if not _is_loop_binding(m, ds) or len(next(iter(ds)).path) != 1:
      raise AnalysisError(f"setup_build: {what} is not an element of the plan tuple")
    return next(iter(ds)).path[0]
  pos_deps = pos_of(m.gim_args[m.g_deps], "deps")
  pos_action = pos_of(m.wbs_args[m.w_action], "action")
  pos_module = pos_of(m.wbs_args[m.w_module], "module")
  check_val = _fold_attr(mod, ast.parse("Action.CHECK", mode="eval").body)
  if check_val is _NOFOLD:
    raise AnalysisError("Action.CHECK is not a constant")

  # must-mode facts: ("ok", name) = name is certainly not Action.CHECK
  def check_test(t):
    """(name, polarity): `t` is true (polarity True) / false exactly when
    name == Action.CHECK."""
    if isinstance(t, ast.UnaryOp) and isinstance(t.op, ast.Not):
      r = check_test(t.operand)
      return (r[0], not r[1]) if r else None
    if isinstance(t, ast.Compare) and len(t.ops) == 1 and isinstance(
        t.ops[0], (ast.Eq, ast.Is, ast.NotEq, ast.IsNot)):
      for a, b in ((t.left, t.comparators[0]), (t.comparators[0], t.left)):
        if isinstance(a, ast.Name) and _fold_attr(mod, b) == check_val:
          return a.id, isinstance(t.ops[0], (ast.Eq, ast.Is))
    return None

  counts = {}

  def analyse(fn, depth):
    """Judges the yields of generator `fn`; `yield from self.<helper>(..)` /
    `yield from <module-level generator>(..)` is followed (the delegate's items
    are yielded as they are)."""
    rd = ReachingDefs(mod, fn)

    def never_check(e, unit, prev, known=()):
      """True: the value is certainly not CHECK; False: it may be; None: the
      expression is outside what is evaluated here."""
      v = _fold_attr(mod, e)
      if v is not _NOFOLD:
        return v != check_val
      if isinstance(e, ast.Name):
        if e.id in known:
          return True
        if prev is None:
          return None
        st = prev.before.get(unit)
        return None if st is None else ("ok", e.id) in st
      if isinstance(e, ast.IfExp):
        t = check_test(e.test)
        if t is None:
          return None
        nm, pol = t
        is_check, not_check = (e.body, e.orelse) if pol else (e.orelse, e.body)
        # in the arm where nm == CHECK only a constant helps; in the other arm
        # nm itself is known not to be CHECK
        r1 = never_check(is_check, unit, prev, known)
        r2 = never_check(not_check, unit, prev, tuple(known) + (nm,))
        if r1 is None or r2 is None:
          return None
        return r1 and r2
      return None

    def make_gen(prev):
      def gen(unit):
        out = []
        par = mod.parent.get(unit)
        if isinstance(par, ast.If) and par.test is unit:
          t = check_test(unit)
          if t and t[1] and len(par.body) == 1 and isinstance(par.body[0], ast.Assign) \
              and [dotted(x) for x in par.body[0].targets] == [t[0]]:
            out.append(("ok", t[0]))
        if isinstance(unit, ast.Assign) and len(unit.targets) == 1 and isinstance(
            unit.targets[0], ast.Name):
          r = never_check(unit.value, unit, prev)
          if r is None:
            out.append(("idiom", unit.targets[0].id))
          elif r:
            out.append(("ok", unit.targets[0].id))
        return out
      return gen

    def kill(unit):
      names = {d.name for d in rd._defs_of_unit(unit)}
      return (lambda f: f[1] in names) if names else None
    # pass 1 knows constants and conditional expressions; pass 2 also follows
    # plain copies `x = y` using what pass 1 established about y
    first = flow.flow(fn, make_gen(None), kill, mode="must")
    must = flow.flow(fn, make_gen(first), kill, mode="must")
    may_idiom = flow.flow(fn, make_gen(first), kill, mode="may")

    yields = [n for n in walk_no_nested(fn) if isinstance(n, (ast.Yield, ast.YieldFrom))]
    if not yields:
      raise AnalysisError(f"{fn.name} yields nothing")
    for y in yields:
      if isinstance(y, ast.YieldFrom):
        callee = U.callee_of(mod, y.value, cls=RUNNER, within=fn) \
            if isinstance(y.value, ast.Call) else None
        if callee is None or depth <= 0 or callee is fn:
          raise AnalysisError(
              f"{fn.name}: `yield from {src(y.value)[:60]}` does not delegate to a "
              "generator of this module that can be followed")
        analyse(callee, depth - 1)
        continue
      if y.value is None:
        raise AnalysisError(f"bare yield in {fn.name}")
      shape = _tuple_shape(mod, rd, fn, y.value)
      st_e = shape[pos_stage] if len(shape) > pos_stage else None
      stage = _stage_of(mod, st_e, stages) if st_e is not None else None
      counts[stage] = counts.get(stage, 0) + 1
      tag = f"{stage}#{counts[stage]}" if counts[stage] > 1 else str(stage)
      ok = len(shape) == m.arity and stage is not None
      ctx.check(ok, f"yield_sorted_modules:yield-shape:{tag}", RUN, y.lineno,
                f"yield of {len(shape)} elements with {src(st_e) if st_e is not None else '?'} "
                f"at position {pos_stage}; setup_build unpacks {m.arity} "
                "elements and reads the stage there",
                {"elements": [src(e) if e is not None else "?" for e in shape],
                 "in": fn.name})
      if not ok:
        continue
      ystmt = rd.stmt_of(y)
      if stage == "FIRST_PASS":
        act = shape[pos_action]
        if not isinstance(act, ast.Name):
          raise AnalysisError("FIRST_PASS yield: action element is not a name")
        st = must.before.get(ystmt)
        if st is None:
          raise AnalysisError("FIRST_PASS yield is unreachable")
        good = ("ok", act.id) in st
        if not good and ("idiom", act.id) in (may_idiom.before.get(ystmt) or ()):
          raise AnalysisError(
              "FIRST_PASS yield: the action is rebound by an expression the "
              "rule cannot evaluate")
        ctx.check(good, f"yield_sorted_modules:first-pass-never-checks:{tag}", RUN,
                  y.lineno,
                  "a FIRST_PASS step can be yielded with action CHECK: the first "
                  "pass over a cycle runs without its peers' stubs and must "
                  "only infer (CHECK -> INFER rewrite must dominate the yield)",
                  {"action_defs": sorted(d.describe() for d in rd.defs_of(act))})
      if stage == "SECOND_PASS":
        _second_pass_deps(ctx, m, rd, fn, y, ystmt, shape, pos_deps, pos_module, tag)

  analyse(fn, 2)
  for need in ("SINGLE_PASS", "FIRST_PASS", "SECOND_PASS"):
    if need not in counts:
      raise AnalysisError(f"yield_sorted_modules: no {need} yield")


def _second_pass_deps(ctx, m, rd, fn, y, ystmt, shape, pos_deps, pos_module, tag):
  mod = m.mod
  dep = shape[pos_deps]
  construct = f"yield_sorted_modules:second-pass-deps-include-cycle:{tag}"
  if not isinstance(dep, ast.Name):
    raise AnalysisError("SECOND_PASS yield: deps element is not a name")
  ds = rd.defs_of(dep)
  facts = {"deps_defs": sorted(d.describe() for d in ds)}
  d = next(iter(ds)) if len(ds) == 1 else None
  if d is None or d.kind != "aug" or not isinstance(d.op, ast.Add):
    ctx.bad(construct, RUN, y.lineno,
            "the deps yielded for SECOND_PASS are not (on every path) the "
            "group's deps extended by the cycle's own modules "
            f"(bindings reaching the yield: {facts['deps_defs']})", facts)
    return
  src_list = strip_iter_wrappers(d.value)
  if isinstance(src_list, (ast.GeneratorExp, ast.ListComp)):
    # `deps += tuple(module for module, _ in modules)`: the extension is the
    # module of EVERY element of the list the SECOND_PASS loop walks
    loop2 = mod.parent.get(ystmt)
    while loop2 is not None and not isinstance(loop2, ast.For):
      loop2 = mod.parent.get(loop2)
    if loop2 is None or not isinstance(loop2.iter, ast.Name):
      raise AnalysisError("SECOND_PASS yield is not inside a loop over a local list")
    g = src_list.generators[0]
    elt = src_list.elt
    eds = rd.defs_of(elt) if isinstance(elt, ast.Name) else frozenset()
    ed = next(iter(eds)) if len(eds) == 1 else None
    whole = len(src_list.generators) == 1 and not g.ifs and isinstance(g.iter, ast.Name) \
        and rd.defs_of(g.iter) == rd.defs_of(loop2.iter) \
        and ed is not None and ed.kind == "comp" and ed.node is g and ed.path == (pos_module,)
    facts["extension"] = {"comprehension": src(src_list)[:80],
                          "same_module_list": isinstance(g.iter, ast.Name)
                          and rd.defs_of(g.iter) == rd.defs_of(loop2.iter),
                          "filters": [src(c) for c in g.ifs]}
    aug_before = executes_before(mod, fn, lambda u: u is d.node, ystmt)
    ctx.check(whole and aug_before, construct, RUN, y.lineno,
              "second-pass deps: "
              + ("the extension does not dominate the yield" if whole else
                 f"`{src(src_list)[:70]}` is not the module of every element of the "
                 "list of cycle modules the SECOND_PASS loop walks"), facts)
    return
  if not isinstance(src_list, ast.Name):
    raise AnalysisError("SECOND_PASS: deps extension is not built from a local list")
  ld = rd.single_def(src_list, "second-pass deps list")
  if ld.kind != "assign" or not _empty_list(ld.value):
    raise AnalysisError("SECOND_PASS: deps extension list is not created empty")
  # the loop that yields SECOND_PASS iterates over the same list of modules
  loop2 = mod.parent.get(ystmt)
  while loop2 is not None and not isinstance(loop2, ast.For):
    loop2 = mod.parent.get(loop2)
  if loop2 is None or not isinstance(loop2.iter, ast.Name):
    raise AnalysisError("SECOND_PASS yield is not inside a loop over a local list")
  mods2 = rd.defs_of(loop2.iter)
  appended = False
  why = "no unconditional append of every cycle module found"
  for use in _uses_of(rd, fn, ld):
    kind, node = _classify(mod, use)
    if kind == "method:append":
      a = node.args[0] if len(node.args) == 1 else None
      if not isinstance(a, ast.Name):
        continue
      ads = rd.defs_of(a)
      ad = next(iter(ads)) if len(ads) == 1 else None
      if ad is None or ad.kind != "for" or not isinstance(ad.node.iter, ast.Name):
        continue
      st = mod.enclosing_stmt(node)
      g = flow.guards(mod.parent, st, stop=ad.node)
      same_list = rd.defs_of(ad.node.iter) == mods2
      if same_list and not g and ad.path == (pos_module,) and executes_before(
          mod, fn, lambda u, it=ad.node.iter: u is it, d.node):
        appended = True
      facts["append"] = {"value": ad.describe(), "guards": [src(t) for t, _ in g],
                         "same_module_list": same_list}
    elif kind in ("arg", "read", "iterate", "contains"):
      continue
    else:
      raise AnalysisError(f"SECOND_PASS: deps list used as {kind}")
  # the extension happens after the first-pass loop completed, before this yield
  aug_before = executes_before(mod, fn, lambda u: u is d.node, ystmt)
  ctx.check(appended and aug_before, construct, RUN, y.lineno,
            f"second-pass deps: {why if not appended else 'extension does not dominate the yield'}",
            facts)


# -- R19.4 ---------------------------------------------------------------------------
#
# The escape function is decided semantically.  Ninja's path lexer undoes
# exactly `$c` -> c for the escapable characters, so the only function whose
# result reads back as the original path (and contains no variable reference)
# is the character-wise map  c -> '$'+c (c escapable), c -> c (otherwise).
# `re.sub` scans left to right; for a pattern without anchors, look-around or
# back-references, of width 1..W, what happens at a position depends only on
# the next W characters.  So `sub` computes the canonical map on every string
# iff for every window w of length <= W over (escapable characters + one
# representative of every class of characters the pattern cannot tell apart):
#   no match at the start of w  =>  w[0] is not escapable           (covers)
#   a match m of text x without escapable characters => repl(m) == x (only)
#   a match m of text x with escapable characters => repl(m) == canonical(x)
# The pattern is parsed with re._parser (fragment, width, character classes);
# windows are matched with the reference engine on the constant pattern; a
# function replacement is interpreted over its AST (never executed).

_UNIVERSE = [chr(i) for i in range(0x300)]
_MAX_WIDTH = 4
_CONTEXT_OPS = {"AT", "ASSERT", "ASSERT_NOT", "GROUPREF", "GROUPREF_EXISTS",
                "GROUPREF_IGNORE", "GROUPREF_LOC_IGNORE", "GROUPREF_UNI_IGNORE"}
_CATEGORY_RE = {
    "CATEGORY_DIGIT": r"\d", "CATEGORY_NOT_DIGIT": r"\D",
    "CATEGORY_SPACE": r"\s", "CATEGORY_NOT_SPACE": r"\S",
    "CATEGORY_WORD": r"\w", "CATEGORY_NOT_WORD": r"\W",
}


def _canonical_escape(s):
  return "".join("$" + c if c in NINJA_ESCAPABLE else c for c in s)


def _class_pred(op, av):
  """Membership predicate of one character-level regex item."""
  name = str(op)
  if name == "LITERAL":
    return lambda u: ord(u) == av
  if name == "NOT_LITERAL":
    return lambda u: ord(u) != av
  if name == "ANY":
    return lambda u: u != "\n"
  if name == "IN":
    parts, negate = [], False
    for iop, iav in av:
      iname = str(iop)
      if iname == "NEGATE":
        negate = True
      elif iname == "LITERAL":
        parts.append(lambda u, c=iav: ord(u) == c)
      elif iname == "RANGE":
        parts.append(lambda u, lo=iav[0], hi=iav[1]: lo <= ord(u) <= hi)
      elif iname == "CATEGORY":
        cat = _CATEGORY_RE.get(str(iav))
        if cat is None:
          raise AnalysisError(f"escape_ninja_path: regex category {iav}")
        cre = re.compile(cat)
        parts.append(lambda u, cre=cre: cre.fullmatch(u) is not None)
      else:
        raise AnalysisError(f"escape_ninja_path: character-class item {iname}")
    return lambda u: any(q(u) for q in parts) != negate
  return None


def _regex_items(parsed):
  """(character-level predicates, ops outside the context-free fragment)."""
  preds, foreign = [], set()

  def walk(seq):
    for op, av in seq:
      name = str(op)
      pred = _class_pred(op, av)
      if pred is not None:
        preds.append(pred)
      elif name == "SUBPATTERN":
        _, add, dele, sub = av
        if add or dele:
          foreign.add("inline flags")
        walk(sub)
      elif name == "BRANCH":
        for alt in av[1]:
          walk(alt)
      elif name in ("MAX_REPEAT", "MIN_REPEAT", "POSSESSIVE_REPEAT"):
        walk(av[2])
      elif name == "ATOMIC_GROUP":
        walk(av)
      elif name in _CONTEXT_OPS:
        foreign.add(name)
        if name in ("ASSERT", "ASSERT_NOT"):
          walk(av[1])
      else:
        raise AnalysisError(f"escape_ninja_path: regex item {name} not understood")
  walk(parsed)
  return preds, foreign


class _Raises:
  def __init__(self, e):
    self.e = e

  def __repr__(self):
    return f"<raises {type(self.e).__name__}: {self.e}>"


class _Interp:
  """Evaluates a replacement function's AST on a reference match object."""

  def __init__(self, node):
    self.node = node
    a = node.args
    ps = [x.arg for x in a.posonlyargs + a.args]
    if len(ps) != 1 or a.vararg or a.kwarg or a.kwonlyargs:
      raise AnalysisError("escape_ninja_path: replacement function signature")
    self.param = ps[0]

  def __call__(self, m):
    env = {self.param: m}
    try:
      if isinstance(self.node, ast.Lambda):
        return self.ev(self.node.body, env)
      self.block(self.node.body, env)
      return None            # fell off the end of the def
    except AnalysisError:
      raise
    except _Return as r:
      return r.value
    except Exception as e:  # what the replacement itself would raise at run time
      return _Raises(e)

  def block(self, stmts, env):
    for s in stmts:
      if isinstance(s, ast.Expr) and isinstance(s.value, ast.Constant):
        continue
      if isinstance(s, ast.Return):
        raise _Return(self.ev(s.value, env) if s.value is not None else None)
      if isinstance(s, ast.If):
        self.block(s.body if self.ev(s.test, env) else s.orelse, env)
        continue
      if isinstance(s, ast.Assign) and len(s.targets) == 1 and \
          isinstance(s.targets[0], ast.Name):
        env[s.targets[0].id] = self.ev(s.value, env)
        continue
      if isinstance(s, ast.Pass):
        continue
      raise AnalysisError(
          f"escape_ninja_path: replacement statement `{src(s)[:50]}` not interpreted")

  def ev(self, e, env):
    if isinstance(e, ast.Constant):
      return e.value
    if isinstance(e, ast.Name):
      if e.id in env:
        return env[e.id]
      raise AnalysisError(f"escape_ninja_path: replacement reads `{e.id}`")
    if isinstance(e, ast.BoolOp):
      v = None
      for x in e.values:
        v = self.ev(x, env)
        if isinstance(e.op, ast.And) and not v:
          return v
        if isinstance(e.op, ast.Or) and v:
          return v
      return v
    if isinstance(e, ast.UnaryOp) and isinstance(e.op, ast.Not):
      return not self.ev(e.operand, env)
    if isinstance(e, ast.IfExp):
      return self.ev(e.body if self.ev(e.test, env) else e.orelse, env)
    if isinstance(e, ast.BinOp) and isinstance(e.op, (ast.Add, ast.Mod, ast.Mult)):
      l, r = self.ev(e.left, env), self.ev(e.right, env)
      if isinstance(e.op, ast.Add):
        return l + r
      if isinstance(e.op, ast.Mult):
        return l * r
      return l % r
    if isinstance(e, ast.Tuple):
      return tuple(self.ev(x, env) for x in e.elts)
    if isinstance(e, ast.JoinedStr):
      out = ""
      for v in e.values:
        if isinstance(v, ast.Constant):
          out += v.value
        elif isinstance(v, ast.FormattedValue) and v.format_spec is None \
            and v.conversion == -1:
          out += format(self.ev(v.value, env))
        else:
          raise AnalysisError("escape_ninja_path: f-string with a format spec")
      return out
    if isinstance(e, ast.Compare) and len(e.ops) == 1:
      l, r = self.ev(e.left, env), self.ev(e.comparators[0], env)
      op = e.ops[0]
      table = {ast.Is: lambda: l is r, ast.IsNot: lambda: l is not r,
               ast.Eq: lambda: l == r, ast.NotEq: lambda: l != r,
               ast.In: lambda: l in r, ast.NotIn: lambda: l not in r}
      if type(op) in table:
        return table[type(op)]()
    if isinstance(e, ast.Subscript):
      return self.ev(e.value, env)[self.ev(e.slice, env)]
    if isinstance(e, ast.Attribute) and isinstance(e.value, ast.Name) \
        and e.value.id == self.param and e.attr in ("lastgroup", "lastindex"):
      return getattr(env[self.param], e.attr)
    if isinstance(e, ast.Call) and isinstance(e.func, ast.Attribute) \
        and not e.keywords and not any(isinstance(a, ast.Starred) for a in e.args):
      args = [self.ev(a, env) for a in e.args]
      recv = e.func.value
      if isinstance(recv, ast.Name) and recv.id == self.param:
        if e.func.attr in ("group", "expand", "groups", "groupdict", "start", "end"):
          return getattr(env[self.param], e.func.attr)(*args)
      else:
        base = self.ev(recv, env)
        if isinstance(base, str) and e.func.attr in ("format", "join"):
          return getattr(base, e.func.attr)(*args)
    raise AnalysisError(
        f"escape_ninja_path: replacement expression `{src(e)[:60]}` not interpreted")


class _Return(Exception):
  def __init__(self, value):
    super().__init__()
    self.value = value


def _is_re(mod, name):
  return mod.imports.get(name) == "re"


def _compile_call(mod, expr):
  """(pattern expr, flags expr|None) if expr is `re.compile(P[, flags])`."""
  if isinstance(expr, ast.Call) and isinstance(expr.func, ast.Attribute) \
      and expr.func.attr == "compile" and isinstance(expr.func.value, ast.Name) \
      and _is_re(mod, expr.func.value.id):
    if any(isinstance(a, ast.Starred) for a in expr.args) or \
        any(k.arg is None for k in expr.keywords):
      raise AnalysisError("escape_ninja_path: re.compile(*args)")
    bound = dict(zip(["pattern", "flags"], expr.args))
    for k in expr.keywords:
      bound[k.arg] = k.value
    if "pattern" not in bound:
      raise AnalysisError("escape_ninja_path: re.compile without a pattern")
    return bound["pattern"], bound.get("flags")
  return None


def _substitution(mod, fn, rd, call):
  """{'pattern','flags','repl','string','count'} (expr nodes) of a sub call:
  `re.sub(P, R, S, ..)`, `re.compile(P).sub(R, S, ..)` or `X.sub(R, S, ..)`
  with X bound once (module level or locally) to `re.compile(P)`."""
  if not (isinstance(call, ast.Call) and isinstance(call.func, ast.Attribute)
          and call.func.attr == "sub"):
    raise AnalysisError("escape_ninja_path does not return a regex substitution "
                        "(re.sub(...) / <compiled pattern>.sub(...))")
  if any(isinstance(a, ast.Starred) for a in call.args) or \
      any(k.arg is None for k in call.keywords):
    raise AnalysisError("escape_ninja_path: sub(*args)")
  recv = call.func.value
  if isinstance(recv, ast.Name) and _is_re(mod, recv.id) and not rd.defs_of(recv):
    names = ["pattern", "repl", "string", "count", "flags"]
    bound = dict(zip(names, call.args))
    for k in call.keywords:
      bound[k.arg] = k.value
    return bound
  comp = _compile_call(mod, recv)
  how = "inline"
  if comp is None and isinstance(recv, ast.Name):
    ds = rd.defs_of(recv)
    if ds:
      d = _one(list(ds), f"binding of {recv.id}")
      if d.kind != "assign" or d.path:
        raise AnalysisError(f"escape_ninja_path: {recv.id} bound by {d.describe()}")
      comp, how = _compile_call(mod, d.value), "local"
    elif recv.id in mod.assigns:
      # module-level constant: bound exactly once in the module
      stores = [n for n in ast.walk(mod.tree) if isinstance(n, ast.Name)
                and n.id == recv.id and isinstance(n.ctx, ast.Store)]
      if len(stores) != 1:
        raise AnalysisError(f"escape_ninja_path: {recv.id} is bound {len(stores)} times")
      comp, how = _compile_call(mod, mod.assigns[recv.id]), "module constant"
  if comp is None:
    raise AnalysisError(
        f"escape_ninja_path: `{src(recv)}` is not re / re.compile(...) / a name "
        "bound to re.compile(...)")
  bound = dict(zip(["repl", "string", "count"], call.args))
  for k in call.keywords:
    bound[k.arg] = k.value
  bound["pattern"] = comp[0]
  if comp[1] is not None:
    bound["flags"] = comp[1]
  bound["via"] = how
  return bound


def _replacement(mod, fn, rd, expr, cre):
  """(callable match -> str|_Raises, description) for the repl argument."""
  const = try_fold(expr, mod=mod)
  if isinstance(const, str):
    try:
      _sre_parser.parse_template(const, cre)
    except (re.error, IndexError) as e:
      raise AnalysisError(
          f"escape_ninja_path: replacement does not parse: {e}") from e
    return (lambda m: m.expand(const)), f"template {const!r}"
  node = expr
  if isinstance(node, ast.Name):
    ds = rd.defs_of(node)
    if ds:
      d = _one(list(ds), f"binding of {node.id}")
      if d.kind == "assign" and not d.path:
        node = d.value
      elif isinstance(d.node, (ast.FunctionDef,)):
        node = d.node
      else:
        raise AnalysisError(f"escape_ninja_path: replacement bound by {d.describe()}")
    elif node.id in mod.functions:
      node = mod.functions[node.id]
    elif node.id in mod.assigns:
      node = mod.assigns[node.id]
  if isinstance(node, (ast.Lambda, ast.FunctionDef)):
    return _Interp(node), f"function `{src(node)[:80]}`"
  raise AnalysisError(
      f"escape_ninja_path: replacement `{src(expr)[:60]}` is neither a constant "
      "template nor a function defined in this module")


def _decide_escape(pat, repl_fn):
  """Witnesses against the three window conditions + whether they are a proof.

  Returns (witness dict per condition, proof: bool, facts)."""
  try:
    parsed = _sre_parser.parse(pat)
    cre = re.compile(pat)
  except re.error as e:
    raise AnalysisError(f"escape_ninja_path: pattern does not parse: {e}") from e
  preds, foreign = _regex_items(parsed)
  if parsed.state.flags & ~re.UNICODE.value:
    foreign.add("inline flags")
  lo, hi = parsed.getwidth()
  lo, hi = int(lo), int(hi)
  in_fragment = not foreign and lo >= 1 and hi <= _MAX_WIDTH
  # outside the fragment only concrete counterexamples count: look at whole
  # short paths (a little longer than one match, for the context operators)
  width = hi if in_fragment else min(max(min(hi, _MAX_WIDTH), 1) + 2, _MAX_WIDTH)
  # alphabet: the escapable characters + one representative per class of
  # characters that no item of the pattern distinguishes
  cells = {}
  for u in _UNIVERSE:
    if u in NINJA_ESCAPABLE:
      continue
    sig = tuple(q(u) for q in preds)
    best = cells.get(sig)
    if best is None or (not best.isalnum() and u.isalnum()):
      cells[sig] = u
  if len(cells) > 8:
    raise AnalysisError(
        f"escape_ninja_path: the pattern distinguishes {len(cells)} classes of "
        "ordinary characters")
  alphabet = sorted(NINJA_ESCAPABLE, key=lambda c: (c == "\n", c)) + \
      sorted(cells.values())
  if sum(len(alphabet) ** k for k in range(1, width + 1)) > 60000:
    raise AnalysisError("escape_ninja_path: window space too large")
  wit = {"covers": None, "only": None, "prefix": None}

  def whole(w):
    out = cre.sub(lambda m: _as_text(repl_fn(m)), w)
    return out

  def _as_text(v):
    if isinstance(v, str):
      return v
    raise _Stop(v)

  import itertools
  n_windows = 0
  for k in range(1, width + 1):
    for tup in itertools.product(alphabet, repeat=k):
      w = "".join(tup)
      n_windows += 1
      if in_fragment:
        m = cre.match(w)
        if m is None:
          if w[0] in NINJA_ESCAPABLE and wit["covers"] is None:
            wit["covers"] = (w, w[0], "copied unchanged")
          continue
        x = m.group(0)
        out = repl_fn(m)
        if not set(x) & NINJA_ESCAPABLE:
          if out != x and wit["only"] is None:
            wit["only"] = (w, x, repr(out))
        elif out != _canonical_escape(x) and wit["prefix"] is None:
          wit["prefix"] = (w, x, repr(out))
      else:
        try:
          out = whole(w)
        except _Stop as s:
          out = s.value
        want = _canonical_escape(w)
        if out != want:
          # classify the concrete failure
          key = "prefix"
          if isinstance(out, str):
            if any(c in NINJA_ESCAPABLE for c in w) and out == w:
              key = "covers"
            elif not set(w) & NINJA_ESCAPABLE:
              key = "only"
          if wit[key] is None:
            wit[key] = (w, w, repr(out))
  facts = {"pattern": pat, "width": [lo, hi], "alphabet": alphabet,
           "windows": n_windows, "outside_fragment": sorted(foreign)}
  return wit, in_fragment, facts, cre


class _Stop(Exception):
  def __init__(self, value):
    super().__init__()
    self.value = value


@rule("R19.4", "C19", floor=8)
def r19_4(ctx):
  """Every path field of the build line is escaped; the escape is ninja's."""
  m = _model(ctx)
  mod, rdw, bs = m.mod, m.rd_wbs, m.build_stmt
  imports_var = None
  for name, expr in bs.vars.items():
    inner = _escape_args(rdw, expr)
    names = set()
    for o in rdw.origins(expr):   # through hoisted locals (`x = escape(imports)`)
      if o.kind == "param" and o.d is rdw.params[m.w_imports]:
        names.add(o.d.name)
      for n in ast.walk(o.expr) if o.expr is not None else ():
        if isinstance(n, ast.Name) and rdw.defs_of(n) == {rdw.params[m.w_imports]}:
          names.add(n.id)
    if names:
      imports_var = name
  if imports_var is None:
    raise AnalysisError(
        "write_build_statement: no build variable carries the imports file")
  m.imports_var = imports_var
  fields = [("output", bs.output), ("input", bs.input),
            (f"var:{imports_var}", bs.vars[imports_var])]
  for label, expr in fields:
    inner = _escape_args(rdw, expr)
    ok = inner is not None
    if ok:
      for x in inner:  # not escaped twice
        ok = ok and _escape_args(rdw, x) is None
    ctx.check(ok, f"write_build_statement:escaped:{label}", RUN, expr.lineno,
              f"the {label} field of the build statement is {src(expr)}: a path "
              "must pass through escape_ninja_path exactly once (a space, ':' "
              "or '$' in it would otherwise split or rewrite the path)",
              {"field": src(expr)})
  _deps_field(ctx, m, want="escape")
  # the escape function itself
  fn = mod.func("escape_ninja_path")
  rd = ReachingDefs(mod, fn)
  rets = [n for n in walk_no_nested(fn) if isinstance(n, ast.Return)]
  r = _one(rets, "return in escape_ninja_path")
  call = r.value
  if isinstance(call, ast.Name):
    d = rd.single_def(call, "returned value")
    if d.kind != "assign" or d.path:
      raise AnalysisError("escape_ninja_path: returned value is not a plain local")
    call = d.value
  bound = _substitution(mod, fn, rd, call)
  pat = try_fold(bound.get("pattern"), mod=mod) if "pattern" in bound else None
  if not isinstance(pat, str):
    raise AnalysisError("escape_ninja_path: the pattern is not a constant string")
  flags = try_fold(bound["flags"], mod=mod, default=_NOFOLD) if "flags" in bound else 0
  if flags != 0:
    raise AnalysisError("escape_ninja_path: substitution with flags")
  if "repl" not in bound:
    raise AnalysisError("escape_ninja_path: substitution without a replacement")
  try:
    cre0 = re.compile(pat)
  except re.error as e:
    raise AnalysisError(f"escape_ninja_path: pattern does not parse: {e}") from e
  repl_fn, repl_desc = _replacement(mod, fn, rd, bound["repl"], cre0)
  wit, proof, facts, cre = _decide_escape(pat, repl_fn)
  facts["replacement"] = repl_desc
  facts["pattern_from"] = bound.get("via", "re.sub argument")
  if not proof and not any(wit.values()):
    raise AnalysisError(
        f"escape_ninja_path: pattern {pat!r} is outside the fragment decided "
        f"here ({facts['outside_fragment'] or 'unbounded or empty matches'}) and "
        "no counterexample was found among short paths")

  def show(w):
    if w is None:
      return ""
    path, text, out = w
    return (f"in the path {path!r} the text {text!r} is rewritten to {out} "
            f"(needed: {_canonical_escape(text)!r})")

  w = wit["covers"]
  ctx.check(w is None, "escape_ninja_path:class-covers-specials", RUN, call.lineno,
            f"the pattern {pat!r} leaves an escapable character bare: "
            f"{show(w) if w and w[2] != 'copied unchanged' else ''}"
            + (f"in the path {w[0]!r} the character {w[1]!r} is not matched and is "
               "copied unchanged" if w and w[2] == "copied unchanged" else "")
            + "; newline, space, ':' and '$' end or rewrite a path in a ninja "
            "build line", dict(facts, witness=list(w) if w else None))
  w = wit["only"]
  ctx.check(w is None, "escape_ninja_path:class-only-escapable", RUN, call.lineno,
            f"ordinary text is rewritten: {show(w)}: '$' followed by such a "
            "character is a variable reference or a lexer error in ninja, not "
            "that character", dict(facts, witness=list(w) if w else None))
  w = wit["prefix"]
  ctx.check(w is None, "escape_ninja_path:replacement-prefixes-dollar", RUN,
            call.lineno,
            f"an escapable character does not come out as '$' + itself: {show(w)}; "
            "every newline, space, ':' and '$' of the path must be preceded by "
            "its own '$', whatever surrounds it (ninja reads `$ ` as a space "
            "and `$$` as one dollar)", dict(facts, witness=list(w) if w else None))
  s_arg = bound.get("string")
  whole = isinstance(s_arg, ast.Name) and len(rd.positional) == 1 \
      and rd.defs_of(s_arg) == {rd.params[rd.positional[0]]}
  if "count" in bound:
    whole = whole and try_fold(bound["count"], mod=mod, default=1) == 0
  ctx.check(whole, "escape_ninja_path:all-occurrences-of-the-argument", RUN,
            call.lineno,
            "the substitution must rewrite every occurrence in the path argument "
            f"itself (string={src(s_arg) if s_arg is not None else None}, "
            f"count={src(bound['count']) if 'count' in bound else 'absent'})",
            {"string": src(s_arg) if s_arg is not None else None})


# -- R19.5 ---------------------------------------------------------------------------

def _writer_format(ctx, m):
  """(separator, terminator, key_first, over_items_of_param) for write_imports."""
  mod, fn = m.mod, m.wi
  rd = ReachingDefs(mod, fn)
  writes = [c for c in calls_in(fn) if isinstance(c.func, ast.Attribute)
            and c.func.attr == "write"]
  w = _one(writes, "write call in write_imports")
  if len(w.args) != 1:
    raise AnalysisError("write_imports: write() with unexpected arguments")
  toks = template_tokens(w.args[0], mod)
  if [t[0] for t in toks] in (["field", "lit", "field"], ["item", "lit", "item"]):
    toks = toks + [("lit", "")]
  if [t[0] for t in toks] not in (["field", "lit", "field", "lit"],
                                  ["item", "lit", "item", "lit"]):
    raise AnalysisError(
        f"write_imports: line template has unknown shape {[t[0] for t in toks]}")
  idx, iters = [], []
  for t in (toks[0], toks[2]):
    if t[0] == "item":
      name, i = t[1], (t[2],)
    else:
      name, i = t[1], ()
    if not isinstance(name, ast.Name):
      raise AnalysisError("write_imports: template field is not a loop variable")
    d = rd.single_def(name, "template field")
    if d.kind not in ("for", "comp"):
      raise AnalysisError(f"write_imports: field bound by {d.describe()}")
    idx.append(tuple(d.path) + i)
    iters.append(d.value)
  if iters[0] is not iters[1]:
    raise AnalysisError("write_imports: fields come from different loops")
  it = strip_iter_wrappers(iters[0])
  over = isinstance(it, ast.Call) and isinstance(it.func, ast.Attribute) \
      and it.func.attr == "items" and not it.args \
      and isinstance(it.func.value, ast.Name) \
      and rd.defs_of(it.func.value) == {rd.params[m.i_map]}
  g = flow.guards(mod.parent, mod.enclosing_stmt(w))
  return {"sep": toks[1][1], "end": toks[3][1], "order": idx, "over_items": over,
          "guards": [src(t) for t, _ in g], "line": w.lineno, "rd": rd}


@rule("R19.5", "C19", floor=6)
def r19_5(ctx):
  """The imports-file writer and imports_map_loader._read_from_file agree."""
  m = _model(ctx)
  wf = _writer_format(ctx, m)
  ctx.check(wf["order"] == [(0,), (1,)] and wf["end"] == "\n" and wf["sep"] != ""
            and "\n" not in wf["sep"],
            "write_imports:line=key-sep-value-newline", RUN, wf["line"],
            f"each line must be '<short path><sep><output path>\\n' with the "
            f"key first; found element order {wf['order']}, separator "
            f"{wf['sep']!r}, terminator {wf['end']!r}",
            {"order": [list(p) for p in wf["order"]], "sep": wf["sep"],
             "end": wf["end"]})
  ctx.check(wf["over_items"] and not wf["guards"],
            "write_imports:writes-every-entry-of-the-map", RUN, wf["line"],
            "the lines must be written for every item of the imports_map "
            f"parameter, unconditionally (guards: {wf['guards']})",
            {"guards": wf["guards"]})
  _returns_written_path(ctx, m, m.wi, "write_imports")
  # reader
  lmod = get_module(ctx, LOADER)
  fn = lmod.func("ImportsMapBuilder._read_from_file")
  rd = ReachingDefs(lmod, fn)
  splits = [c for c in calls_in(fn) if isinstance(c.func, ast.Attribute)
            and c.func.attr in ("split", "rsplit", "partition", "rpartition")]
  sp = _one(splits, "split call in _read_from_file")
  st = lmod.enclosing_stmt(sp)
  # the pieces are unpacked into names: `k, v = <split>`; a starred name
  # (`k, *rest = <split>`) and a default for an empty result (`<split> or
  # [""]`, `<split> if line else [..]`) are still "the pieces of that split"
  val = st.value if isinstance(st, ast.Assign) else None
  if isinstance(val, ast.BoolOp) and isinstance(val.op, ast.Or) and val.values[0] is sp:
    val = sp
  elif isinstance(val, ast.IfExp) and sp in (val.body, val.orelse):
    val = sp
  if not (isinstance(st, ast.Assign) and val is sp and len(st.targets) == 1
          and isinstance(st.targets[0], ast.Tuple)
          and all(isinstance(e, ast.Name) or
                  (isinstance(e, ast.Starred) and isinstance(e.value, ast.Name))
                  for e in st.targets[0].elts)):
    raise AnalysisError("_read_from_file: split result is not unpacked into names")
  starred = any(isinstance(e, ast.Starred) for e in st.targets[0].elts)
  names = ["sep", "maxsplit"]
  bound = dict(zip(names, sp.args))
  for k in sp.keywords:
    bound[k.arg] = k.value
  sep = try_fold(bound["sep"], mod=lmod, default=_NOFOLD) if "sep" in bound else None
  maxsplit = try_fold(bound["maxsplit"], mod=lmod, default=_NOFOLD) \
      if "maxsplit" in bound else -1
  if sep is _NOFOLD or maxsplit is _NOFOLD:
    raise AnalysisError("_read_from_file: split arguments are not constants")
  ctx.check(sp.func.attr == "split" and sep == wf["sep"],
            "_read_from_file:separator-matches-writer", LOADER, sp.lineno,
            f"the reader uses .{sp.func.attr}({sep!r}, ..) but write_imports "
            f"separates key and value with {wf['sep']!r}",
            {"reader": sep, "writer": wf["sep"], "method": sp.func.attr})
  if starred and sp.func.attr == "split" and sep == wf["sep"] and maxsplit == -1:
    # cut at every separator of the writer and (presumably) joined again with
    # it: the identity on well-formed lines if the join uses the same text
    raise AnalysisError(
        "_read_from_file: the line is split at every separator into a starred "
        "name; whether the pieces are joined again unchanged is not decided")
  once = sp.func.attr == "split" and maxsplit == 1 \
      and len(st.targets[0].elts) == 2 and not starred
  ctx.check(once,
            "_read_from_file:splits-once", LOADER, sp.lineno,
            f"maxsplit is {maxsplit}"
            + (" and the pieces are collected with a starred name" if starred else "")
            + ": the value (an output path) may contain "
            "the separator and must stay in one piece, the key is everything "
            "before the first separator (a value that is cut into pieces and "
            "put together again is only the same text if every separator was "
            "exactly the writer's)",
            {"maxsplit": maxsplit, "targets": len(st.targets[0].elts),
             "starred": starred})
  if not once:
    # which piece goes where is only defined for a two-piece split
    ctx.bad("_read_from_file:key-first", LOADER, sp.lineno,
            "the item cannot be (piece 0, piece 1) of the line: the line is "
            "not split into exactly two pieces", {"pieces": None})
    return
  # order: first piece is the key of the (short_path, path) item
  apps = [c for c in calls_in(fn) if isinstance(c.func, ast.Attribute)
          and c.func.attr == "append" and len(c.args) == 1
          and isinstance(c.args[0], ast.Tuple)]
  ap = _one(apps, "items.append((key, value)) in _read_from_file")
  paths = []
  for e in ap.args[0].elts:
    if not isinstance(e, ast.Name):
      raise AnalysisError("_read_from_file: appended item is not built from names")
    ds = rd.defs_of(e)
    d = next(iter(ds)) if len(ds) == 1 else None
    paths.append(d.path if d is not None and d.node is st else None)
  rets = [n for n in walk_no_nested(fn) if isinstance(n, ast.Return)]
  recv = ap.func.value
  returned = isinstance(recv, ast.Name) and rets and all(
      isinstance(r.value, ast.Name) and rd.defs_of(r.value) == rd.defs_of(recv)
      for r in rets)
  ctx.check(paths == [(0,), (1,)] and returned, "_read_from_file:key-first",
            LOADER, ap.lineno,
            f"the appended item takes split pieces {paths}; the writer puts "
            "the short path first, so the item must be (piece 0, piece 1) and "
            "the list of items must be what is returned",
            {"pieces": [list(p) if p else None for p in paths]})


# -- R19.6 ---------------------------------------------------------------------------

@rule("R19.6", "C19", floor=8)
def r19_6(ctx):
  """`$` variables of the pytype-single command are those the build line sets."""
  m = _model(ctx)
  mod, bs, rdw = m.mod, m.build_stmt, m.rd_wbs
  fn = _method(mod, "get_pytype_command_for_ninja")
  rd = ReachingDefs(mod, fn)
  # flag -> value table: dict literals bound in the function
  table = {}
  for n in walk_no_nested(fn):
    if isinstance(n, ast.Dict):
      for k, v in zip(n.keys, n.values):
        kk = try_fold(k, mod=mod) if k is not None else None
        vv = try_fold(v, mod=mod)
        if isinstance(kk, str) and isinstance(vv, str) and vv.startswith("$"):
          if kk in table:
            raise AnalysisError(f"command: flag {kk} listed twice")
          table[kk] = (vv, v.lineno)
  refs = {}
  for n in walk_no_nested(fn):
    if isinstance(n, ast.Constant) and isinstance(n.value, str) and "$" in n.value:
      for mm in re.finditer(r"\$(\w+|\{\w+\}|.)", n.value):
        refs[mm.group(1).strip("{}")] = n.lineno
  # which build variables carry what
  roles = {}
  for name, expr in bs.vars.items():
    inner = _escape_args(rdw, expr)
    if inner and len(inner) == 1 and isinstance(inner[0], ast.Name) \
        and rdw.defs_of(inner[0]) == {rdw.params[m.w_imports]}:
      roles["imports"] = name
    if isinstance(expr, ast.Attribute) and isinstance(expr.value, ast.Name) \
        and rdw.defs_of(expr.value) == {rdw.params[m.w_module]} and expr.attr == "name":
      roles["module"] = name
  defined = set(bs.vars) | NINJA_BUILTIN_VARS
  for var, line in sorted(refs.items()):
    ctx.check(var in defined, f"command:${var}-is-defined", RUN, line,
              f"the command refers to ${var}, which neither the build "
              f"statement (defines {sorted(bs.vars)}) nor ninja "
              f"({sorted(NINJA_BUILTIN_VARS)}) provides: it expands to nothing",
              {"defined": sorted(defined)})
  for flag, role, want in (("--imports_info", "imports", None),
                           ("--module-name", "module", None),
                           ("-o", None, "$out")):
    if flag not in table:
      ctx.bad(f"command:{flag}", RUN, fn.lineno,
              f"the command has no {flag} taking a ninja variable",
              {"flags": sorted(table)})
      continue
    got, line = table[flag]
    if role is not None:
      if role not in roles:
        ctx.bad(f"command:{flag}", RUN, line,
                f"no build variable carries the {role} of the step "
                f"(variables: { {k: src(v) for k, v in bs.vars.items()} })")
        continue
      want = "$" + roles[role]
    ctx.check(got == want, f"command:{flag}", RUN, line,
              f"{flag} is given {got!r} but the {role or 'output'} of the "
              f"step is in {want!r}", {"value": got, "expected": want})
  # $in is an argument of the command
  rets = [n for n in walk_no_nested(fn) if isinstance(n, ast.Return)]
  has_in = any(isinstance(n, ast.Constant) and n.value == "$in"
               and isinstance(mod.parent.get(n), ast.List)
               for r in rets for o in rd.origins(r.value) if o.expr is not None
               for n in ast.walk(o.expr))
  ctx.check(has_in, "command:$in-is-an-argument", RUN, fn.lineno,
            "the source file ($in) is not among the command's arguments")


# -- R19.7 ---------------------------------------------------------------------------

def _open_of_write(mod, fn, what):
  rd = ReachingDefs(mod, fn)
  out = []
  for c in calls_in(fn):
    if isinstance(c.func, ast.Attribute) and c.func.attr == "write" \
        and isinstance(c.func.value, ast.Name):
      d = rd.single_def(c.func.value, "file handle")
      if d.kind != "with" or dotted(getattr(d.value, "func", None)) != "open":
        raise AnalysisError(f"{what}: file handle is not `with open(..)`")
      out.append(d.value)
  if not out:
    raise AnalysisError(f"{what}: no write through an open() handle")
  return out


@rule("R19.7", "C19", floor=5)
def r19_7(ctx):
  """The plan is complete, in one file, before ninja starts."""
  m = _model(ctx)
  mod = m.mod
  pre = _method(mod, "write_ninja_preamble")
  for fn, label, want in ((pre, "write_ninja_preamble", "w"),
                          (m.wbs, "write_build_statement", "a")):
    opens = _open_of_write(mod, fn, label)
    modes, targets = set(), set()
    for o in opens:
      modes.add(try_fold(o.args[1], mod=mod) if len(o.args) > 1 else
                try_fold(next((k.value for k in o.keywords if k.arg == "mode"),
                              ast.Constant("r")), mod=mod))
      targets.add(src(o.args[0]) if o.args else None)
    ctx.check(modes == {want} and targets == {"self.ninja_file"},
              f"{label}:opens-ninja-file-{want}", RUN, opens[0].lineno,
              f"{label} opens {sorted(map(str, targets))} with mode(s) "
              f"{sorted(map(str, modes))}; the preamble must truncate ('w') and "
              "every build statement must append ('a') to self.ninja_file, "
              "otherwise earlier statements are lost",
              {"modes": sorted(map(str, modes)), "files": sorted(map(str, targets))})
  # order inside setup_build
  sb = m.sb
  wbs_stmt = mod.enclosing_stmt(m.wbs_call)

  def calls(name):
    return lambda u: any(_self_method(c) == name for c in flow.unconditional_calls(u))
  ctx.check(executes_before(mod, sb, calls("write_ninja_preamble"), wbs_stmt),
            "setup_build:preamble-before-build-statements", RUN, wbs_stmt.lineno,
            "write_ninja_preamble (which truncates the file) must run on every "
            "path before the first build statement is appended")
  wi_stmt = mod.enclosing_stmt(m.wi_call)
  # the early exit `if not self.make_imports_dir(): return` counts as executed
  def dir_made(u):
    return any(_self_method(c) == "make_imports_dir" for c in ast.walk(u)
               if isinstance(c, ast.Call))
  ctx.check(executes_before(mod, sb, dir_made, wi_stmt)
            and len(m.wdp_calls) == 1
            and executes_before(mod, sb, dir_made, mod.enclosing_stmt(m.wdp_calls[0])),
            "setup_build:imports-dir-before-files", RUN, wi_stmt.lineno,
            "make_imports_dir must run before the default stub and the "
            "imports files are written into that directory")
  # run(): the plan is written before ninja runs
  run = _method(mod, "run")
  builds = [c for c in calls_in(run) if _self_method(c) == "build"]
  b = _one(builds, "self.build() call in run")
  ctx.check(executes_before(mod, run, calls("setup_build"), mod.enclosing_stmt(b)),
            "run:setup_build-before-build", RUN, b.lineno,
            "ninja (self.build()) is started on a path that has not written "
            "the plan and the default stub (self.setup_build())")


# -- sensitivity suite ---------------------------------------------------------------

_GIM_OLD = """  imports_map = {}
  for m in deps:
    if m in module_to_imports_map:
      imports_map.update(module_to_imports_map[m])
    imports_map[_module_to_output_path(m)] = module_to_output[m]
  return imports_map
"""
_GIM_RENAMED = """  result = {}
  for dep in sorted(deps):
    out = module_to_output[dep]
    if dep in module_to_imports_map:
      result.update(module_to_imports_map[dep])
    result[_module_to_output_path(dep)] = out
  return result
"""
_WRITE_OLD = """      f.write('build {output}: {action} {input}{deps}\\n'
              '  imports = {imports}\\n'
              '  module = {module}\\n'.format(
                  output=escape_ninja_path(output),
                  action=action,
                  input=escape_ninja_path(module.full_path),
                  deps=deps,
                  imports=escape_ninja_path(imports),
                  module=module.name))
"""
_WRITE_FSTRING = """      out = escape_ninja_path(output)
      f.write(f'build {out}: {action} {escape_ninja_path(module.full_path)}{deps}\\n'
              f'  imports = {escape_ninja_path(imports)}\\n'
              f'  module = {module.name}\\n')
"""
_SUFFIX_OLD = """      if stage == Stage.SINGLE_PASS:
        files.add(module.full_path)
        suffix = ''
      elif stage == Stage.FIRST_PASS:
        suffix = FIRST_PASS_SUFFIX
      else:
        assert stage == Stage.SECOND_PASS
        files.add(module.full_path)
        suffix = ''
"""
_SUFFIX_IFEXP = """      if stage != Stage.FIRST_PASS:
        files.add(module.full_path)
      suffix = FIRST_PASS_SUFFIX if stage == Stage.FIRST_PASS else ''
"""
_PLAN_OLD = """      imports_map = module_to_imports_map[module] = get_imports_map(
          deps, module_to_imports_map, module_to_output)
      imports = self.write_imports(module.name, imports_map, suffix)
      # Don't depend on default.pyi, since it's regenerated every time.
      deps = tuple(module_to_output[m] for m in deps
                   if module_to_output[m] != default_output)
"""
_PLAN_REORDERED = """      deps = tuple(module_to_output[m] for m in deps
                   if module_to_output[m] != default_output)
      imports_map = module_to_imports_map[module] = get_imports_map(
          deps, module_to_imports_map, module_to_output)
      imports = self.write_imports(module.name, imports_map, suffix)
"""
_PLAN_RENAMED = """      step_map = get_imports_map(deps, module_to_imports_map, module_to_output)
      module_to_imports_map[module] = step_map
      imports = self.write_imports(module.name, step_map, suffix)
      ninja_deps = tuple(module_to_output[m] for m in deps
                         if default_output != module_to_output[m])
"""


_ESC_RET = "  return re.sub(r'(?P<char>[\\n :$])', r'$\\g<char>', path)\n"
_ESC_DEF = "def escape_ninja_path(path: str):\n"


# -- refactored shapes (behaviour-preserving, see benign/C19-r*) used by variants ----

_YSM_OLD = """      modules = []
      for module in group:
        action = self.get_module_action(module)
        if action:
          modules.append((module, action))
      if len(modules) == 1:
        yield modules[0] + (deps, Stage.SINGLE_PASS)
      else:
        # If we have a cycle we run pytype over the files twice. So that we
        # don't fail on missing dependencies, we'll ignore errors the first
        # time and add the cycle itself to the dependencies the second time.
        second_pass_deps = []
        for module, action in modules:
          second_pass_deps.append(module)
          if action == Action.CHECK:
            action = Action.INFER
          yield module, action, deps, Stage.FIRST_PASS
        deps += tuple(second_pass_deps)
        for module, action in modules:
          # We don't need to run generate_default twice
          if action != Action.GENERATE_DEFAULT:
            yield module, action, deps, Stage.SECOND_PASS
"""


def _ysm_split(elt="(module, action)",
               first="Action.INFER if action == Action.CHECK else action",
               ext="    deps += tuple(module for module, _ in modules)\n"):
  """yield_sorted_modules split into _get_group_actions (list comprehension
  with a walrus) and the delegate generator _yield_two_passes (C19-r1)."""
  return [
      (RUN, _YSM_OLD,
       "      modules = self._get_group_actions(group)\n"
       "      if len(modules) == 1:\n"
       "        yield modules[0] + (deps, Stage.SINGLE_PASS)\n"
       "      else:\n"
       "        yield from self._yield_two_passes(modules, deps)\n"),
      (RUN, "  def yield_sorted_modules(\n",
       "  def _get_group_actions(self, group):\n"
       f"    return [\n        {elt}\n        for module in group\n"
       "        if (action := self.get_module_action(module))\n    ]\n\n"
       "  def _yield_two_passes(self, modules, deps):\n"
       "    for module, action in modules:\n"
       f"      first_pass_action = {first}\n"
       "      yield module, first_pass_action, deps, Stage.FIRST_PASS\n"
       + ext +
       "    for module, action in modules:\n"
       "      if action != Action.GENERATE_DEFAULT:\n"
       "        yield module, action, deps, Stage.SECOND_PASS\n\n"
       "  def yield_sorted_modules(\n")]


# the file-writing methods end up in a module-local base class (C19-r4): the
# class is cut in two at get_module_action, the upper half becomes the base
_SUBCLASS_HEAD = ("class PytypeRunner(_BuildFilesWriter):\n"
                  "  \"\"\"Runs pytype over an import graph.\"\"\"\n\n")
_CUT_AT = "  def get_module_action(self, module):\n"
_BASE_CLASS_SPLIT = [
    (RUN, "class PytypeRunner:\n", "class _BuildFilesWriter:\n"),
    (RUN, _CUT_AT, _SUBCLASS_HEAD + _CUT_AT),
]

_PLAN_DEPS_OLD = ("      deps = tuple(module_to_output[m] for m in deps\n"
                  "                   if module_to_output[m] != default_output)\n"
                  "      module_to_output[module] = self.write_build_statement(\n"
                  "          module, action, deps, imports, suffix)")


def _plan_layered(inner="module_to_output[dep] for dep in deps",
                  cond="dep_output != default_output", elt="dep_output"):
  """the ninja deps built by a comprehension over a generator (C19-r2)."""
  return (RUN, _PLAN_DEPS_OLD,
          "      dep_outputs = tuple(\n"
          f"          {elt}\n"
          f"          for dep_output in ({inner})\n"
          f"          if {cond})\n"
          "      module_to_output[module] = self.write_build_statement(\n"
          "          module, action, dep_outputs, imports, suffix)")


def _v(name, rid, old, new, expect="fire", file=RUN):
  return {"name": name, "rule": rid, "file": file, "old": old, "new": new,
          "expect": expect}


VARIANTS = [
    # R19.1
    _v("imports-file-stored-as-output", "R19.1",
       "      module_to_output[module] = self.write_build_statement(\n"
       "          module, action, deps, imports, suffix)",
       "      self.write_build_statement(module, action, deps, imports, suffix)\n"
       "      module_to_output[module] = imports"),
    _v("output-path-computed-not-declared", "R19.1",
       "      module_to_output[module] = self.write_build_statement(\n"
       "          module, action, deps, imports, suffix)",
       "      self.write_build_statement(module, action, deps, imports, suffix)\n"
       "      module_to_output[module] = path_utils.join(\n"
       "          self.pyi_dir, _module_to_output_path(module) + '.pyi')"),
    _v("imports-map-get-with-default", "R19.1",
       "    imports_map[_module_to_output_path(m)] = module_to_output[m]",
       "    imports_map[_module_to_output_path(m)] = module_to_output.get(\n"
       "        m, 'default.pyi')"),
    _v("imports-map-skips-unbuilt-dependency", "R19.1",
       "    imports_map[_module_to_output_path(m)] = module_to_output[m]",
       "    if m in module_to_output:\n"
       "      imports_map[_module_to_output_path(m)] = module_to_output[m]"),
    _v("build-statement-returns-escaped-output", "R19.1",
       "                  module=module.name))\n    return output",
       "                  module=module.name))\n    return escape_ninja_path(output)"),
    _v("build-statement-returns-imports", "R19.1",
       "                  module=module.name))\n    return output",
       "                  module=module.name))\n    return imports"),
    _v("default-pyi-returns-directory", "R19.1",
       "      f.write(DEFAULT_PYI)\n    return output",
       "      f.write(DEFAULT_PYI)\n    return self.imports_dir"),
    _v("twin-inherited-map-via-get-empty", "R19.1",
       "    if m in module_to_imports_map:\n"
       "      imports_map.update(module_to_imports_map[m])",
       "    imports_map.update(module_to_imports_map.get(m, {}))", "silent"),
    _v("twin-get_imports_map-renamed-locals", "R19.1", _GIM_OLD, _GIM_RENAMED,
       "silent"),
    {"name": "seeded-C19-r2m1", "rule": "R19.1", "patch": "seeded/C19-r2m1/patch.diff",
     "expect": "fire"},
    {"name": "seeded-C19-r3m2", "rule": "R19.1", "patch": "seeded/C19-r3m2/patch.diff",
     "expect": "fire"},
    # different shape: the alias is taken inside the loop from the first stored map met
    _v("imports-map-aliases-first-stored-map", "R19.1",
       "  imports_map = {}\n  for m in deps:\n    if m in module_to_imports_map:\n",
       "  imports_map = module_to_imports_map[deps[0]] if deps and deps[0] in module_to_imports_map else {}\n"
       "  for m in deps:\n    if m in module_to_imports_map:\n"),
    # different shape: via a local name and setdefault (which also writes into the parameter)
    _v("imports-map-aliases-via-local", "R19.1",
       "  imports_map = {}\n  for m in deps:\n",
       "  first = module_to_imports_map.get(deps[0], {}) if deps else {}\n"
       "  imports_map = first\n  for m in deps:\n"),
    # benign: a private copy of the first dependency's stored map
    _v("twin-imports-map-starts-as-copy", "R19.1",
       "  imports_map = {}\n  for m in deps:\n",
       "  imports_map = dict(module_to_imports_map.get(deps[0], {})) if deps else {}\n"
       "  for m in deps:\n", "silent"),
    _v("twin-imports-map-dict-call", "R19.1",
       "  imports_map = {}\n  for m in deps:\n",
       "  imports_map = dict()\n  for m in deps:\n", "silent"),
    # R19.2
    _v("ninja-deps-extra-filter", "R19.2",
       "                   if module_to_output[m] != default_output)",
       "                   if module_to_output[m] != default_output\n"
       "                   and m.full_path in files)"),
    _v("ninja-deps-from-sliced-list", "R19.2",
       "      deps = tuple(module_to_output[m] for m in deps\n",
       "      deps = tuple(module_to_output[m] for m in deps[1:]\n"),
    _v("ninja-deps-only-checked-files", "R19.2",
       "      deps = tuple(module_to_output[m] for m in deps\n",
       "      direct = [m for m in deps if m.full_path in self.filenames]\n"
       "      deps = tuple(module_to_output[m] for m in direct\n"),
    _v("imports-map-from-already-filtered-deps", "R19.2", _PLAN_OLD,
       _PLAN_REORDERED),
    _v("ninja-deps-with-get", "R19.2",
       "      deps = tuple(module_to_output[m] for m in deps\n",
       "      deps = tuple(module_to_output.get(m) for m in deps\n"),
    _v("implicit-deps-become-order-only", "R19.2",
       "      deps = ' | ' + ' '.join(", "      deps = ' || ' + ' '.join("),
    _v("deps-missing-from-build-line", "R19.2",
       "'build {output}: {action} {input}{deps}\\n'",
       "'build {output}: {action} {input}\\n'"),
    _v("only-first-dep-declared", "R19.2",
       "' '.join(escape_ninja_path(dep) for dep in deps)",
       "' '.join(escape_ninja_path(dep) for dep in deps[:1])"),
    _v("map-recorded-after-output-for-next-module", "R19.2",
       "      imports_map = module_to_imports_map[module] = get_imports_map(",
       "      imports_map = module_to_imports_map[deps] = get_imports_map("),
    _v("imports-file-of-other-map", "R19.2",
       "      imports = self.write_imports(module.name, imports_map, suffix)",
       "      imports = self.write_imports(module.name, module_to_output, suffix)"),
    {"name": "twin-renamed-locals-in-plan-loop", "rule": "R19.2", "expect": "silent",
     "edits": [(RUN, _PLAN_OLD, _PLAN_RENAMED),
               (RUN, "self.write_build_statement(\n          module, action, deps, imports, suffix)",
                "self.write_build_statement(\n          module, action, ninja_deps, imports, suffix)")]},
    _v("twin-build-line-as-fstring", "R19.2", _WRITE_OLD, _WRITE_FSTRING, "silent"),
    # R19.3
    _v("empty-first-pass-suffix", "R19.3", "FIRST_PASS_SUFFIX = '-1'",
       "FIRST_PASS_SUFFIX = ''"),
    _v("first-pass-gets-final-name", "R19.3",
       "        suffix = FIRST_PASS_SUFFIX", "        suffix = ''"),
    _v("single-pass-gets-first-pass-name", "R19.3",
       "      if stage == Stage.SINGLE_PASS:\n        files.add(module.full_path)\n        suffix = ''",
       "      if stage == Stage.SINGLE_PASS:\n        files.add(module.full_path)\n        suffix = FIRST_PASS_SUFFIX"),
    _v("second-pass-keeps-previous-suffix", "R19.3",
       "        files.add(module.full_path)\n        suffix = ''\n      imports_map",
       "        files.add(module.full_path)\n      imports_map"),
    _v("first-pass-still-checks", "R19.3",
       "          if action == Action.CHECK:\n            action = Action.INFER\n", ""),
    _v("first-pass-rewrite-after-yield", "R19.3",
       "          if action == Action.CHECK:\n            action = Action.INFER\n"
       "          yield module, action, deps, Stage.FIRST_PASS\n",
       "          yield module, action, deps, Stage.FIRST_PASS\n"
       "          if action == Action.CHECK:\n            action = Action.INFER\n"),
    _v("second-pass-deps-not-extended", "R19.3",
       "        deps += tuple(second_pass_deps)\n", ""),
    _v("second-pass-deps-only-checked-modules", "R19.3",
       "          second_pass_deps.append(module)\n          if action == Action.CHECK:\n",
       "          if action == Action.CHECK:\n            second_pass_deps.append(module)\n"),
    _v("imports-file-ignores-suffix", "R19.3",
       "module_name + '.imports' + suffix)", "module_name + '.imports')"),
    _v("output-ignores-suffix", "R19.3",
       "_module_to_output_path(module) + '.pyi' + suffix)",
       "_module_to_output_path(module) + '.pyi')"),
    _v("imports-file-always-final-suffix", "R19.3",
       "      imports = self.write_imports(module.name, imports_map, suffix)",
       "      imports_suffix = ''\n"
       "      imports = self.write_imports(module.name, imports_map, imports_suffix)"),
    _v("yield-stage-and-deps-swapped", "R19.3",
       "            yield module, action, deps, Stage.SECOND_PASS",
       "            yield module, action, Stage.SECOND_PASS, deps"),
    _v("twin-suffix-as-conditional-expression", "R19.3", _SUFFIX_OLD,
       _SUFFIX_IFEXP, "silent"),
    _v("twin-append-after-rewrite", "R19.3",
       "          second_pass_deps.append(module)\n"
       "          if action == Action.CHECK:\n            action = Action.INFER\n",
       "          if action == Action.CHECK:\n            action = Action.INFER\n"
       "          second_pass_deps.append(module)\n", "silent"),
    # R19.4
    _v("output-not-escaped", "R19.4",
       "output=escape_ninja_path(output),", "output=output,"),
    _v("input-not-escaped", "R19.4",
       "input=escape_ninja_path(module.full_path),", "input=module.full_path,"),
    _v("imports-not-escaped", "R19.4",
       "imports=escape_ninja_path(imports),", "imports=imports,"),
    _v("deps-not-escaped", "R19.4",
       "' '.join(escape_ninja_path(dep) for dep in deps)", "' '.join(deps)"),
    _v("output-escaped-twice", "R19.4",
       "output=escape_ninja_path(output),",
       "output=escape_ninja_path(escape_ninja_path(output)),"),
    _v("colon-missing-from-class", "R19.4", "(?P<char>[\\n :$])", "(?P<char>[\\n $])"),
    _v("space-missing-from-class", "R19.4", "(?P<char>[\\n :$])", "(?P<char>[\\n:$])"),
    _v("class-also-escapes-dot", "R19.4", "(?P<char>[\\n :$])", "(?P<char>[\\n :$.])"),
    _v("class-negated", "R19.4", "(?P<char>[\\n :$])", "(?P<char>[^\\n :$])"),
    _v("replacement-uses-backslash", "R19.4", "r'$\\g<char>'", "r'\\\\\\g<char>'"),
    _v("only-first-occurrence-escaped", "R19.4",
       "r'$\\g<char>', path)", "r'$\\g<char>', path, count=1)"),
    {"name": "seeded-C19-m2", "rule": "R19.4", "patch": "seeded/C19-m2/patch.diff",
     "expect": "fire"},
    _v("escape-skips-char-after-dollar", "R19.4", _ESC_RET,
       "  return re.sub(r'(?<!\\$)(?P<char>[\\n :$])', r'$\\g<char>', path)\n"),
    _v("escape-run-gets-one-dollar", "R19.4", _ESC_RET,
       "  return re.sub(r'[\\n :$]+', r'$\\g<0>', path)\n"),
    {"name": "escape-function-keeps-existing-escapes", "rule": "R19.4",
     "expect": "fire", "edits": [
         (RUN, _ESC_DEF,
          "_ESCAPABLE = re.compile(r'(\\$[ :$])|([\\n :$])')\n\n\n"
          "def _escape_match(m):\n"
          "  if m.group(1) is not None:\n"
          "    return m.group(0)\n"
          "  return '$' + m.group(2)\n\n\n" + _ESC_DEF),
         (RUN, _ESC_RET, "  return _ESCAPABLE.sub(_escape_match, path)\n")]},
    {"name": "precompiled-class-misses-colon", "rule": "R19.4", "expect": "fire",
     "edits": [
         (RUN, _ESC_DEF, "_ESCAPABLE = re.compile(r'[\\n $]')\n\n\n" + _ESC_DEF),
         (RUN, _ESC_RET, "  return _ESCAPABLE.sub(lambda m: '$' + m.group(), path)\n")]},
    {"name": "twin-precompiled-pattern", "rule": "R19.4", "expect": "silent",
     "edits": [
         (RUN, _ESC_DEF,
          "_ESCAPABLE = re.compile(r'(?P<char>[\\n :$])')\n\n\n" + _ESC_DEF),
         (RUN, _ESC_RET, "  return _ESCAPABLE.sub(r'$\\g<char>', path)\n")]},
    _v("twin-function-replacement", "R19.4", _ESC_RET,
       "  return re.sub(r'[\\n :$]', lambda m: '$' + m.group(0), path)\n", "silent"),
    {"name": "twin-alternation-and-named-function", "rule": "R19.4", "expect": "silent",
     "edits": [
         (RUN, _ESC_DEF,
          "_ESCAPABLE = re.compile(r'(?P<dollar>\\$)|(?P<other>[\\n :])')\n\n\n"
          "def _escape_match(m):\n"
          "  if m.group('dollar'):\n"
          "    return '$$'\n"
          "  return f\"${m.group('other')}\"\n\n\n" + _ESC_DEF),
         (RUN, _ESC_RET,
          "  escaped = _ESCAPABLE.sub(_escape_match, path)\n  return escaped\n")]},
    _v("twin-unnamed-group", "R19.4",
       "r'(?P<char>[\\n :$])', r'$\\g<char>', path)",
       "r'([:$ \\n])', r'$\\1', path)", "silent"),
    _v("twin-escaped-output-in-local", "R19.4",
       "    with open(self.ninja_file, 'a') as f:\n"
       "      f.write('build {output}: {action} {input}{deps}\\n'\n"
       "              '  imports = {imports}\\n'\n"
       "              '  module = {module}\\n'.format(\n"
       "                  output=escape_ninja_path(output),",
       "    escaped = escape_ninja_path(output)\n"
       "    with open(self.ninja_file, 'a') as f:\n"
       "      f.write('build {output}: {action} {input}{deps}\\n'\n"
       "              '  imports = {imports}\\n'\n"
       "              '  module = {module}\\n'.format(\n"
       "                  output=escaped,", "silent"),
    # R19.5
    _v("imports-file-value-first", "R19.5",
       "      for item in imports_map.items():\n        f.write('%s %s\\n' % item)",
       "      for k, v in imports_map.items():\n        f.write('%s %s\\n' % (v, k))"),
    _v("imports-file-tab-separated", "R19.5", "f.write('%s %s\\n' % item)",
       "f.write('%s\\t%s\\n' % item)"),
    _v("imports-file-no-newline", "R19.5", "f.write('%s %s\\n' % item)",
       "f.write('%s %s' % item)"),
    _v("imports-file-skips-default-entries", "R19.5",
       "      for item in imports_map.items():\n        f.write('%s %s\\n' % item)",
       "      for item in imports_map.items():\n        if item[1]:\n"
       "          f.write('%s %s\\n' % item)"),
    _v("reader-splits-every-space", "R19.5", 'line.split(" ", 1)', 'line.split(" ")',
       file=LOADER),
    _v("reader-splits-from-the-right", "R19.5", 'line.split(" ", 1)',
       'line.rsplit(" ", 1)', file=LOADER),
    _v("reader-splits-on-colon", "R19.5", 'line.split(" ", 1)', 'line.split(":", 1)',
       file=LOADER),
    _v("reader-swaps-key-and-value", "R19.5", "items.append((short_path, path))",
       "items.append((path, short_path))", file=LOADER),
    _v("imports-file-returns-other-path", "R19.5",
       "        f.write('%s %s\\n' % item)\n    return output",
       "        f.write('%s %s\\n' % item)\n    return self.imports_dir"),
    _v("twin-writer-fstring", "R19.5",
       "      for item in imports_map.items():\n        f.write('%s %s\\n' % item)",
       "      for short, full in imports_map.items():\n        f.write(f'{short} {full}\\n')",
       "silent"),
    _v("twin-writer-sorted-items", "R19.5",
       "      for item in imports_map.items():",
       "      for item in sorted(imports_map.items()):", "silent"),
    _v("twin-reader-keyword-maxsplit", "R19.5", 'line.split(" ", 1)',
       'line.split(" ", maxsplit=1)', "silent", file=LOADER),
    {"name": "seeded-C19-r4m2", "rule": "R19.5",
     "patch": "seeded/C19-r4m2/patch.diff", "expect": "fire"},
    _v("reader-splits-on-any-blank-run-once", "R19.5", 'line.split(" ", 1)',
       'line.split(None, 1)', file=LOADER),
    _v("reader-starred-rest-of-blank-runs-rejoined", "R19.5",
       '          short_path, path = line.split(" ", 1)\n',
       '          short_path, *rest = line.split()\n'
       '          path = " ".join(rest)\n', file=LOADER),
    _v("reader-starred-rest-rejoined-with-writer-separator-undecided", "R19.5",
       '          short_path, path = line.split(" ", 1)\n',
       '          short_path, *rest = line.split(" ")\n'
       '          path = " ".join(rest)\n', "error", file=LOADER),
    _v("reader-splits-or-default-without-separator", "R19.5",
       '          short_path, path = line.split(" ", 1)\n',
       '          short_path, path = line.split(maxsplit=1) or ["", ""]\n', file=LOADER),
    _v("twin-reader-split-or-default", "R19.5",
       '          short_path, path = line.split(" ", 1)\n',
       '          short_path, path = line.split(" ", 1) or ["", ""]\n', "silent",
       file=LOADER),
    _v("twin-reader-keyword-sep", "R19.5", 'line.split(" ", 1)',
       'line.split(sep=" ", maxsplit=1)', "silent", file=LOADER),
    # R19.6
    _v("imports-variable-renamed-in-build-line-only", "R19.6",
       "'  imports = {imports}\\n'", "'  imports_info = {imports}\\n'"),
    _v("output-flag-uses-undefined-variable", "R19.6", "'-o': '$out',",
       "'-o': '$output',"),
    _v("imports-flag-given-module", "R19.6", "'--imports_info': '$imports',",
       "'--imports_info': '$module',"),
    _v("source-not-passed", "R19.6", "        ['$in']\n", "        []\n"),
    {"name": "twin-imports-variable-renamed-consistently", "rule": "R19.6",
     "expect": "silent",
     "edits": [(RUN, "'  imports = {imports}\\n'", "'  imports_map = {imports}\\n'"),
               (RUN, "'--imports_info': '$imports',", "'--imports_info': '$imports_map',")]},
    # R19.7
    _v("build-statement-truncates-file", "R19.7",
       "    with open(self.ninja_file, 'a') as f:", "    with open(self.ninja_file, 'w') as f:"),
    _v("preamble-appends", "R19.7",
       "    with open(self.ninja_file, 'w') as f:", "    with open(self.ninja_file, 'a') as f:"),
    _v("preamble-not-written", "R19.7", "    self.write_ninja_preamble()\n", ""),
    {"name": "preamble-after-statements", "rule": "R19.7", "expect": "fire",
     "edits": [(RUN, "    self.write_ninja_preamble()\n    files = set()",
                "    files = set()"),
               (RUN, "    return files\n\n  def build",
                "    self.write_ninja_preamble()\n    return files\n\n  def build")]},
    {"name": "ninja-started-before-plan", "rule": "R19.7", "expect": "fire",
     "edits": [(RUN, "    files_to_analyze = self.setup_build()\n",
                "    ret = self.build()\n    files_to_analyze = self.setup_build()\n"),
               (RUN, "    ret = self.build()\n    if not ret:", "    if not ret:")]},
    _v("twin-preamble-after-independent-init", "R19.7",
       "    self.write_ninja_preamble()\n    files = set()",
       "    files = set()\n    self.write_ninja_preamble()", "silent"),
    # -- behaviour-preserving refactorings (whole patches) must stay silent
    {"name": "twin-benign-C19-r1-split-yield-sorted-modules", "rule": "R19.3",
     "patch": "benign/C19-r1/patch.diff", "expect": "silent"},
    {"name": "twin-benign-C19-r2-restructured-setup-build", "rule": "R19.2",
     "patch": "benign/C19-r2/patch.diff", "expect": "silent"},
    {"name": "twin-benign-C19-r3-deps-helpers", "rule": "R19.1",
     "patch": "benign/C19-r3/patch.diff", "expect": "silent"},
    {"name": "twin-benign-C19-r4-writer-base-class", "rule": "R19.1",
     "patch": "benign/C19-r4/patch.diff", "expect": "silent"},
    # -- the same defects, seeded into the refactored shapes
    {"name": "twin-yield-sorted-modules-split", "rule": "R19.3", "expect": "silent",
     "edits": _ysm_split()},
    {"name": "twin-split-first-pass-action-negated-test", "rule": "R19.3", "expect": "silent",
     "edits": _ysm_split(first="action if action != Action.CHECK else Action.INFER")},
    {"name": "split-first-pass-still-checks", "rule": "R19.3", "expect": "fire",
     "edits": _ysm_split(first="action")},
    {"name": "split-first-pass-rewrites-the-wrong-action", "rule": "R19.3", "expect": "fire",
     "edits": _ysm_split(first="Action.CHECK if action == Action.CHECK else action")},
    {"name": "split-first-pass-action-not-evaluated", "rule": "R19.3", "expect": "error",
     "edits": _ysm_split(first="self.first_pass_action(action)")},
    {"name": "split-second-pass-deps-only-checked-modules", "rule": "R19.3", "expect": "fire",
     "edits": _ysm_split(ext="    deps += tuple(module for module, action in modules\n"
                             "                  if action == Action.CHECK)\n")},
    {"name": "split-second-pass-deps-extended-by-actions", "rule": "R19.3", "expect": "fire",
     "edits": _ysm_split(ext="    deps += tuple(action for _, action in modules)\n")},
    {"name": "split-second-pass-deps-not-extended", "rule": "R19.3", "expect": "fire",
     "edits": _ysm_split(ext="")},
    {"name": "split-group-actions-yield-triples", "rule": "R19.3", "expect": "fire",
     "edits": _ysm_split(elt="(module, action, group)")},
    {"name": "twin-ninja-deps-through-nested-generator", "rule": "R19.2", "expect": "silent",
     "edits": [_plan_layered()]},
    {"name": "nested-generator-skips-first-dep", "rule": "R19.2", "expect": "fire",
     "edits": [_plan_layered(inner="module_to_output[dep] for dep in deps[1:]")]},
    {"name": "nested-generator-reads-with-get", "rule": "R19.2", "expect": "fire",
     "edits": [_plan_layered(inner="module_to_output.get(dep) for dep in deps")]},
    {"name": "nested-generator-inner-filter", "rule": "R19.2", "expect": "fire",
     "edits": [_plan_layered(
         inner="module_to_output[dep] for dep in deps if dep.full_path in files")]},
    {"name": "nested-generator-outer-filter-drops-more", "rule": "R19.2", "expect": "fire",
     "edits": [_plan_layered(
         cond="dep_output != default_output and dep_output.endswith('.pyi')")]},
    {"name": "nested-generator-element-escaped-early", "rule": "R19.2", "expect": "fire",
     "edits": [_plan_layered(elt="imports")]},
    {"name": "twin-writer-methods-in-local-base-class", "rule": "R19.1", "expect": "silent",
     "edits": _BASE_CLASS_SPLIT},
    {"name": "base-class-build-statement-returns-imports", "rule": "R19.1", "expect": "fire",
     "edits": _BASE_CLASS_SPLIT + [
               (RUN, "                  module=module.name))\n    return output",
                "                  module=module.name))\n    return imports")]},
    {"name": "base-class-preamble-appends", "rule": "R19.7", "expect": "fire",
     "edits": _BASE_CLASS_SPLIT + [
               (RUN, "    with open(self.ninja_file, 'w') as f:",
                "    with open(self.ninja_file, 'a') as f:")]},
    # the subclass overrides a writer of the base: the override is what runs
    {"name": "subclass-overrides-write-default-pyi", "rule": "R19.1", "expect": "fire",
     "edits": [_BASE_CLASS_SPLIT[0],
               (RUN, _CUT_AT, _SUBCLASS_HEAD +
                "  def write_default_pyi(self):\n"
                "    output = path_utils.join(self.imports_dir, 'default.pyi')\n"
                "    with open(output, 'w') as f:\n"
                "      f.write(DEFAULT_PYI)\n"
                "    return self.imports_dir\n\n" + _CUT_AT)]},
    # a non-local base could define the method: refuse, do not guess
    {"name": "writer-methods-behind-a-foreign-base", "rule": "R19.1", "expect": "error",
     "edits": [(RUN, "class PytypeRunner:\n", "class _BuildFilesWriter:\n"),
               (RUN, _CUT_AT,
                "class PytypeRunner(module_utils.Mixin, _BuildFilesWriter):\n"
                "  \"\"\"Runs pytype over an import graph.\"\"\"\n\n" + _CUT_AT)]},
]
