"""C10 round 5: R10.50 (no base leaves the row of direct bases because of WHICH
class it is) and R10.51 (memo tables on the super()/MRO look-up path are keyed
by every input of the cached value).

R10.50.  C3 gets, as its last row, the direct bases as written.  CPython takes
an entry out of that row in one case only: `Generic[T].__mro_entries__` returns
`()` when another parameterised generic base follows.  Everything else - an
explicit `object`, a Protocol, an ABC - stays in the row, and its POSITION is a
local-precedence constraint (`class C(object, A)` is refused).  R10.10 follows
the row back through every filter, accumulator loop and helper on the five
class-creation paths but only asks whether a keep/skip condition can tell a
repetition from a first occurrence.  R10.50 walks the same paths (the
provenance engine of R10.10 is reused) and asks, of every keep/skip condition,
(1) can an iteration that takes it end without adding anything for the current
element (a DROP condition; an `if` all of whose outcomes append or raise is a
replacement, not a drop), and (2) does a drop condition look at the NAME of the
element (a comparison of something derived from the current element with string
constants, a call that receives both, a once-bound local flag or a one-return
helper that does).  The condition is a boolean formula over such name atoms and
opaque sub-conditions; it is a violation when an element named by a constant
outside {typing.Generic, nothing} can be dropped, or when failing to carry a
given name suffices for being dropped (keep-only filters).  A drop condition
that compares the element with a non-constant (`base is convert.object_type`)
is an analysis error: which class that is cannot be read off the source.

R10.51.  See the rule.
"""
import ast
import itertools

from sa.core import rule, AnalysisError
from sa.pyindex import get_module, dotted, src, walk_no_nested, try_fold
from sa import flow
from rules import c10 as C

AU = "pytype/abstract/abstract_utils.py"
SB = "pytype/overlays/special_builtins.py"

# What CPython itself takes out of the bases of a class statement
# (typing._GenericAlias.__mro_entries__), plus pytd's bottom type, which is not
# a class at all.
_DROPPABLE = {"typing.Generic", "nothing"}

_EQ = (ast.Eq, ast.Is, ast.In)
_NE = (ast.NotEq, ast.IsNot, ast.NotIn)


class _NameAtom:
  def __init__(self, names, node):
    self.names, self.node = names, node


def _const_strs(mod, fn, e, depth=0):
  """-> set of strings `e` denotes (a string, or a collection of strings), None
  if it is not a string constant expression."""
  if isinstance(e, ast.Constant):
    return {e.value} if isinstance(e.value, str) else None
  if isinstance(e, (ast.Tuple, ast.List, ast.Set)):
    out = set()
    for x in e.elts:
      s = _const_strs(mod, fn, x, depth + 1)
      if s is None:
        return None
      out |= s
    return out if e.elts else None
  if isinstance(e, ast.Call) and dotted(e.func) in ("frozenset", "set", "tuple", "list") \
      and len(e.args) == 1 and not e.keywords:
    return _const_strs(mod, fn, e.args[0], depth + 1)
  if isinstance(e, ast.Name) and depth < 3:
    ds = [n for n in walk_no_nested(fn) if isinstance(n, ast.Assign)
          and any(isinstance(t, ast.Name) and t.id == e.id for t in n.targets)]
    stores = [n for n in walk_no_nested(fn) if isinstance(n, ast.Name)
              and n.id == e.id and not isinstance(n.ctx, ast.Load)]
    if len(ds) == 1 and len(stores) == 1:
      return _const_strs(mod, fn, ds[0].value, depth + 1)
    if not stores and e.id in mod.assigns:
      return _const_strs(mod, fn, mod.assigns[e.id], depth + 1)
    return None
  v = try_fold(e, mod=mod)
  if isinstance(v, str):
    return {v}
  if isinstance(v, (tuple, list, set, frozenset)) and v and all(isinstance(x, str) for x in v):
    return set(v)
  return None


def _is_kind_constant(e):
  return isinstance(e, ast.Constant) and not isinstance(e.value, str)


class _Formula:
  """A keep/skip condition as a boolean formula: name atoms, identity atoms
  (element compared with a non-constant) and opaque variables."""

  def __init__(self, audit, mod, fn, scope, derived, elem=()):
    self.audit, self.mod, self.fn, self.scope = audit, mod, fn, scope
    self.derived = set(derived)
    self.audit_elem = set(elem)
    self.atoms = []      # (_NameAtom, match_truth)
    self.identity = []   # (node text, index)
    self.free = {}       # text -> index

  def var(self, e):
    return ("v", self.free.setdefault(src(e), len(self.free)))

  def local_def(self, name):
    """The only binding of a local flag inside the loop / function."""
    root = self.scope if self.scope is not None else self.fn
    ds = [n for n in ast.walk(root) if isinstance(n, ast.Assign)
          and len(n.targets) == 1 and isinstance(n.targets[0], ast.Name)
          and n.targets[0].id == name]
    stores = [n for n in walk_no_nested(self.fn) if isinstance(n, ast.Name)
              and n.id == name and not isinstance(n.ctx, ast.Load)]
    return ds[0].value if len(ds) == 1 and len(stores) == 1 else None

  def mentions(self, e, derived=None):
    return bool(flow.names_in(e) & (self.derived if derived is None else derived))

  def build(self, e, depth=0):
    if isinstance(e, ast.UnaryOp) and isinstance(e.op, ast.Not):
      return ("not", self.build(e.operand, depth))
    if isinstance(e, ast.BoolOp):
      return ("and" if isinstance(e.op, ast.And) else "or",
              [self.build(v, depth) for v in e.values])
    if isinstance(e, ast.Name) and depth < 3:
      d = self.local_def(e.id)
      if d is not None and e.id not in self.audit_elem:
        return self.build(d, depth + 1)
      return self.var(e)
    if isinstance(e, ast.Compare) and len(e.ops) == 1 and \
        isinstance(e.ops[0], _EQ + _NE):
      l, r = e.left, e.comparators[0]
      for a, b in ((l, r), (r, l)):
        if self.mentions(a) and not self.mentions(b):
          if _is_kind_constant(b):
            break
          names = _const_strs(self.mod, self.fn, b)
          truth = isinstance(e.ops[0], _EQ)
          if names is not None:
            self.atoms.append((_NameAtom(names, e), truth))
            f = ("a", len(self.atoms) - 1)
            return f if truth else ("not", f)
          if isinstance(e.ops[0], (ast.In, ast.NotIn)) and a is l:
            break      # membership in some container: not an identity
          if isinstance(e.ops[0], (ast.In, ast.NotIn)):
            break
          self.identity.append(src(e))
          return self.var(e)
      return self.var(e)
    if isinstance(e, ast.Call):
      fname = dotted(e.func) or ""
      if fname in ("any", "all") and len(e.args) == 1 and not e.keywords and \
          isinstance(e.args[0], (ast.GeneratorExp, ast.ListComp)) and \
          len(e.args[0].generators) == 1:
        g = e.args[0].generators[0]
        if self.mentions(g.iter):
          added = {n.id for n in ast.walk(g.target) if isinstance(n, ast.Name)}
          self.derived |= added
        parts = [self.build(e.args[0].elt, depth)] + [self.build(c, depth) for c in g.ifs]
        return parts[0] if len(parts) == 1 else ("and", parts)
      if fname in ("isinstance", "issubclass", "len", "bool", "hasattr", "callable"):
        return self.var(e)
      operands = list(e.args) + [k.value for k in e.keywords]
      if isinstance(e.func, ast.Attribute):
        operands.append(e.func.value)
      if any(self.mentions(a) for a in operands):
        # a helper of the package that ends in `return <condition>`
        resolved = self.audit.resolve_callee(self.mod, e.func) if depth < 3 else None
        if resolved is not None:
          cmod, callee = resolved
          body = [s for s in callee.body if not (
              isinstance(s, ast.Expr) and isinstance(s.value, ast.Constant))]
          params = [a.arg for a in callee.args.posonlyargs + callee.args.args]
          if len(body) == 1 and isinstance(body[0], ast.Return) and \
              body[0].value is not None and len(e.args) <= len(params) and \
              not any(isinstance(a, ast.Starred) for a in e.args):
            bound = dict(zip(params, e.args))
            for k in e.keywords:
              if k.arg:
                bound[k.arg] = k.value
            sub = _Formula(self.audit, cmod, callee, None,
                           {p for p, a in bound.items() if self.mentions(a)})
            sub.atoms, sub.identity, sub.free = self.atoms, self.identity, {}
            f = sub.build(body[0].value, depth + 1)
            # opaque variables of the callee are private to this call
            return _rename_free(f, self.free, src(e))
          return self.var(e)
        strs = set()
        for a in operands:
          if not self.mentions(a):
            s = _const_strs(self.mod, self.fn, a)
            if s:
              strs |= s
        if strs:
          self.atoms.append((_NameAtom(strs, e), True))
          return ("a", len(self.atoms) - 1)
      return self.var(e)
    return self.var(e)


def _rename_free(f, table, prefix):
  if f[0] == "v":
    return ("v", table.setdefault(f"{prefix}#{f[1]}", len(table)))
  if f[0] == "not":
    return ("not", _rename_free(f[1], table, prefix))
  if f[0] in ("and", "or"):
    return (f[0], [_rename_free(x, table, prefix) for x in f[1]])
  return f


def _eval(f, atoms, free):
  k = f[0]
  if k == "a":
    return atoms[f[1]]
  if k == "v":
    return free[f[1]]
  if k == "not":
    return not _eval(f[1], atoms, free)
  if k == "and":
    return all(_eval(x, atoms, free) for x in f[1])
  return any(_eval(x, atoms, free) for x in f[1])


class _DropAudit(C._RowProvenance):
  """R10.10's provenance walk with a different question asked of every
  keep/skip condition."""

  def __init__(self, ctx):
    super().__init__(ctx)
    self.acc = []
    self.done = set()
    self.conditions = []   # facts
    self.problems = []     # (rel, line, reason)

  def accumulator(self, mod, fn, name, init, what, depth):
    self.acc.append(name)
    try:
      return super().accumulator(mod, fn, name, init, what, depth)
    finally:
      self.acc.pop()

  # -- which outcomes of an `if` leave the iteration without an append ----------
  def _scan(self, block, acc):
    """'add' (appends / raises on every path), 'exit' (leaves the iteration
    first), 'fall' (may reach the end of the block without appending)."""
    for st in block:
      if isinstance(st, ast.Expr) and isinstance(st.value, ast.Call) and \
          isinstance(st.value.func, ast.Attribute) and \
          st.value.func.attr in ("append", "extend", "insert") and \
          dotted(st.value.func.value) == acc:
        return "add"
      if isinstance(st, ast.Raise):
        return "add"
      if isinstance(st, (ast.Continue, ast.Break, ast.Return)):
        return "exit"
      if isinstance(st, ast.If):
        a, b = self._scan(st.body, acc), self._scan(st.orelse, acc)
        if a == "add" and b == "add":
          return "add"
        if a == "exit" and b == "exit":
          return "exit"
      elif isinstance(st, ast.With):
        r = self._scan(st.body, acc)
        if r != "fall":
          return r
    return "fall"

  def _tail_adds(self, mod, node, loop, acc):
    parent = mod.parent.get(node)
    if parent is None:
      return False
    for field in ("body", "orelse", "finalbody"):
      blk = getattr(parent, field, None)
      if isinstance(blk, list) and any(s is node for s in blk):
        rest = blk[[i for i, s in enumerate(blk) if s is node][0] + 1:]
        r = self._scan(rest, acc)
        if r == "add":
          return True
        if r == "exit" or parent is loop or not isinstance(parent, (ast.If, ast.With)):
          return False
        return self._tail_adds(mod, parent, loop, acc)
    return False

  def _drop_outcomes(self, mod, owner, loop, acc):
    out = set()
    for truth, blk in ((True, owner.body), (False, owner.orelse)):
      r = self._scan(blk, acc)
      if r == "add":
        continue
      if r == "fall" and self._tail_adds(mod, owner, loop, acc):
        continue
      out.add(truth)
    return out

  def check_condition(self, mod, fn, test, elem_names, state, what):
    key = (mod.rel, getattr(test, "lineno", 0), getattr(test, "col_offset", 0), src(test))
    if key in self.done:
      return
    self.done.add(key)
    parent = mod.parent.get(test)
    loop = None
    if isinstance(parent, ast.comprehension):
      drops = {False}
      elem = {n.id for n in ast.walk(parent.target) if isinstance(n, ast.Name)}
    elif isinstance(parent, ast.If) and parent.test is test:
      cur = parent
      while cur is not None and cur is not fn:
        if isinstance(cur, ast.For):
          loop = cur      # the outermost loop: one iteration = one base
        cur = mod.parent.get(cur)
      if loop is None or not self.acc:
        return
      drops = self._drop_outcomes(mod, parent, loop, self.acc[-1])
      elem = set(elem_names)
    else:
      drops, elem = {True, False}, set(elem_names)
    # what is computed from the current element inside the iteration
    derived = set(elem)
    if loop is not None:
      changed = True
      while changed:
        changed = False
        for n in ast.walk(loop):
          if isinstance(n, ast.Assign) and flow.names_in(n.value) & derived:
            for t in n.targets:
              for x in ast.walk(t):
                if isinstance(x, ast.Name) and x.id not in derived:
                  derived.add(x.id)
                  changed = True
          elif isinstance(n, (ast.For, ast.comprehension)) and \
              flow.names_in(n.iter) & derived:
            for x in ast.walk(n.target):
              if isinstance(x, ast.Name) and x.id not in derived:
                derived.add(x.id)
                changed = True
    F = _Formula(self, mod, fn, loop, derived, elem)
    f = F.build(test)
    if not drops:
      if F.atoms:
        self.conditions.append({"at": f"{mod.rel}:{test.lineno}", "condition": src(test)[:100],
                                "drops": False})
      return
    fact = {"at": f"{mod.rel}:{test.lineno}", "condition": src(test)[:100], "drops": True,
            "names": sorted({n for a, _ in F.atoms for n in a.names})}
    self.conditions.append(fact)
    if not F.atoms and not F.identity:
      return
    if len(F.atoms) + len(F.free) > 14:
      raise AnalysisError(f"{what}: condition `{src(test)[:60]}` too large to decide")
    nf = len(F.free)
    for i, (atom, _) in enumerate(F.atoms):
      can_drop_match = False
      mismatch_forces = True
      for av in itertools.product((False, True), repeat=len(F.atoms)):
        for fv in itertools.product((False, True), repeat=nf):
          dropped = _eval(f, av, fv) in drops
          if av[i] and dropped:
            can_drop_match = True
          if not av[i] and not dropped:
            mismatch_forces = False
      bad_names = sorted(atom.names - _DROPPABLE)
      if can_drop_match and bad_names:
        self.problems.append((mod.rel, test.lineno,
            f"`{src(test)[:100]}` leaves a direct base out of the row because it "
            f"is named {bad_names}"))
      elif mismatch_forces:
        self.problems.append((mod.rel, test.lineno,
            f"`{src(test)[:100]}` leaves every direct base out of the row that "
            f"is not named {sorted(atom.names)}"))
    if F.identity and not self.problems:
      raise AnalysisError(
          f"{what}: `{src(test)[:80]}` can drop a base by comparing it with "
          f"{F.identity[0]!r}: which class that is cannot be decided from the source")


@rule("R10.50", "C10", floor=5)
def r10_50(ctx):
  """No step of a class-creation path leaves a direct base out of the row because of its name (only typing.Generic, as CPython's __mro_entries__ does)."""
  for construct, m, f, expr, stmt, must in C._bases_row_sites(ctx):
    au = _DropAudit(ctx)
    try:
      au.prov(m, f, expr, stmt, construct)
    except C._Dedup:
      pass    # R10.10's finding; the conditions seen so far are still judged
    facts = {"row": src(expr), "conditions": au.conditions[:12]}
    if au.problems:
      rel, line, why = au.problems[0]
      ctx.bad(f"{construct}:keeps-every-base", rel, line,
              f"on the way to `{src(expr)}` {why}.  The row of direct bases is "
              "C3's local precedence order and the operand of the duplicate-base "
              "test: CPython removes an entry from it only through "
              "`Generic[T].__mro_entries__`; every other base as written - an "
              "explicit `object` included - constrains the order (class C(object, "
              "A) and class C(object, object) are refused with TypeError), so "
              "without it pytype accepts classes CPython refuses and resolves "
              "attributes along a different linearisation",
              dict(facts, problems=[w for _, _, w in au.problems[:4]]))
    else:
      ctx.ok(f"{construct}:keeps-every-base", m.rel, getattr(stmt, "lineno", 0), facts)


# -- R10.51: memos on the super() look-up path ------------------------------------

_DOC_51 = """R10.51.  `super()` evaluates to a proxy that is a function of BOTH of its
arguments: attribute.py continues the look-up in the MRO of the OBJECT's class
right after the CLASS the method was found in.  The same method body is
evaluated for receivers of different classes (B.f for a B and for a D(B, C)),
so anything on this path that is remembered across evaluations must be keyed by
every input of what is remembered.  Decided for every function of
overlays/special_builtins.py and attribute.py: a store `M[k] = v`,
`M.setdefault(k, v)` or a lazily filled slot `if self.x is None: self.x = v`
whose container lives longer than the call (rooted at self/cls/a class of the
module, a module-level name, a mutable default) and which the same function
looks up is a memo; every input of `v` - a dotted path rooted at a parameter or
at a local that is not bound exactly once; once-bound locals are replaced by
their value; `self.*` is constant per object - must be covered by a path in `k`
(equal, or a prefix: a key that holds the object covers its attributes).  Every
construction of SuperInstance is an instance: either not retained, or retained
under such a key."""


def _fn_bindings(fn):
  cached = getattr(fn, "_c10r5_bindings", None)
  if cached is not None:
    return cached
  binds, stores = {}, {}
  for st in walk_no_nested(fn):
    if isinstance(st, ast.Assign):
      for t in st.targets:
        if isinstance(t, ast.Name):
          binds.setdefault(t.id, []).append(st.value)
  for n in walk_no_nested(fn):
    if isinstance(n, ast.Name) and not isinstance(n.ctx, ast.Load):
      stores[n.id] = stores.get(n.id, 0) + 1
  a = fn.args
  params = [x.arg for x in a.posonlyargs + a.args + a.kwonlyargs] + \
      [x.arg for x in (a.vararg, a.kwarg) if x]
  once = {k: v for k, v in binds.items()
          if len(v) == stores.get(k) and k not in params}
  fn._c10r5_bindings = (params, set(stores), once)
  return fn._c10r5_bindings


def _input_paths(fn, expr, depth=0, mod=None):
  """Dotted paths, rooted at a parameter or at a local that is not bound by plain
  assignments only (loop / with / unpacking targets), that `expr` reads.  A
  local bound by plain assignments is replaced by its value(s); when several
  assignments can reach, by all of them and by the tests that choose."""
  params, stored, once = _fn_bindings(fn)
  bound_inside = set()
  for n in ast.walk(expr):
    if isinstance(n, ast.comprehension):
      bound_inside |= {x.id for x in ast.walk(n.target) if isinstance(x, ast.Name)}
    elif isinstance(n, ast.Lambda):
      bound_inside |= {x.arg for x in n.args.args}
  out = set()

  def chain(e):
    attrs = []
    while isinstance(e, ast.Attribute):
      attrs.append(e.attr)
      e = e.value
    return (e, list(reversed(attrs)))

  def visit(e, is_func=False):
    if isinstance(e, (ast.Attribute, ast.Name)):
      root, attrs = chain(e)
      if is_func and attrs:
        attrs = attrs[:-1]     # x.method(..) reads x
      if not isinstance(root, ast.Name):
        visit(root)
        return
      r = root.id
      if r in ("self", "cls") or r in bound_inside:
        return
      if r in once and depth < 6:
        for v in once[r]:
          vroot, vattrs = chain(v)
          if isinstance(vroot, ast.Name) and isinstance(v, (ast.Name, ast.Attribute)):
            for pth in _input_paths(fn, v, depth + 1, mod):
              out.add(".".join([pth] + attrs))
          else:
            out.update(_input_paths(fn, v, depth + 1, mod))
          if len(once[r]) > 1 and mod is not None:
            st = mod.enclosing_stmt(v)
            for t, _ in flow.guards(mod.parent, st, stop=fn):
              if r not in flow.names_in(t):
                out.update(_input_paths(fn, t, depth + 1, mod))
        return
      if r in params or r in stored:
        out.add(".".join([r] + attrs))
      return
    if isinstance(e, ast.Call):
      visit(e.func, is_func=True)
      for a in e.args:
        visit(a.value if isinstance(a, ast.Starred) else a)
      for k in e.keywords:
        visit(k.value)
      return
    for c in ast.iter_child_nodes(e):
      if isinstance(c, ast.expr) or isinstance(c, ast.comprehension):
        visit(c) if isinstance(c, ast.expr) else [visit(x) for x in [c.iter] + c.ifs]
  visit(expr)
  return out


def _covered(vpath, kpaths):
  return any(vpath == k or vpath.startswith(k + ".") for k in kpaths)


def _lifetime(mod, fn, cls, node):
  d = dotted(node)
  if d is None:
    return None
  params, stored, _ = _fn_bindings(fn)
  head = d.split(".")[0]
  if head in ("self", "cls") and "." in d:
    return f"attribute `{d}` (lives as long as the object)"
  if "." in d and head in mod.classes and head not in stored and head not in params:
    return f"class attribute `{d}`"
  if "." not in d:
    if d in params:
      a = fn.args
      pos = a.posonlyargs + a.args
      dfl = dict(zip([x.arg for x in pos[len(pos) - len(a.defaults):]], a.defaults))
      dfl.update({x.arg: v for x, v in zip(a.kwonlyargs, a.kw_defaults) if v is not None})
      v = dfl.get(d)
      if isinstance(v, (ast.Dict, ast.List, ast.Set, ast.Call)):
        return f"mutable default `{d}`"
      return None
    if d in stored and not any(isinstance(n, ast.Global) and d in n.names
                               for n in walk_no_nested(fn)):
      return None
    if d in mod.assigns or any(isinstance(n, ast.Global) and d in n.names
                               for n in walk_no_nested(fn)):
      return f"module-level `{d}`"
  return None


def _functions(mod):
  """(qualified name, def, class or None) of every function of the module."""
  out = []

  def rec(body, prefix, cls):
    for st in body:
      if isinstance(st, (ast.FunctionDef, ast.AsyncFunctionDef)):
        out.append((prefix + st.name, st, cls))
        rec(st.body, prefix + st.name + ".", cls)
      elif isinstance(st, ast.ClassDef):
        rec(st.body, prefix + st.name + ".", st)
      elif isinstance(st, (ast.If, ast.Try, ast.With, ast.For, ast.While)):
        for f in ("body", "orelse", "finalbody"):
          rec(getattr(st, f, []) or [], prefix, cls)
  rec(mod.tree.body, "", None)
  return out


def _memo_sites(mod, fn, cls):
  """{container text: {"what", "fills": [(node, key or None, value)], "reads": [key or None]}}"""
  out = {}

  def slot(node):
    what = _lifetime(mod, fn, cls, node)
    if what is None:
      return None
    return out.setdefault(src(node), {"what": what, "fills": [], "reads": []})
  for n in walk_no_nested(fn):
    if isinstance(n, ast.Subscript) and not isinstance(n.slice, ast.Slice):
      s = slot(n.value)
      if s is None:
        continue
      if isinstance(n.ctx, ast.Store):
        st = mod.enclosing_stmt(n)
        if isinstance(st, (ast.Assign, ast.AnnAssign, ast.AugAssign)) and st.value is not None:
          s["fills"].append((n, n.slice, st.value))
        else:
          raise AnalysisError(f"{fn.name}: store into {src(n.value)} not understood")
      elif isinstance(n.ctx, ast.Load):
        s["reads"].append(n.slice)
    elif isinstance(n, ast.Call) and isinstance(n.func, ast.Attribute) and \
        n.func.attr in ("get", "setdefault", "pop") and n.args:
      s = slot(n.func.value)
      if s is None:
        continue
      if n.func.attr == "setdefault" and len(n.args) == 2:
        s["fills"].append((n, n.args[0], n.args[1]))
      s["reads"].append(n.args[0])
    elif isinstance(n, ast.Compare) and len(n.ops) == 1 and \
        isinstance(n.ops[0], (ast.In, ast.NotIn)):
      s = slot(n.comparators[0])
      if s is not None:
        s["reads"].append(n.left)
  # a lazily filled single slot: `if self.x is None: self.x = v`
  if fn.name != "__init__":
    for st in walk_no_nested(fn):
      if isinstance(st, ast.Assign) and len(st.targets) == 1 and \
          isinstance(st.targets[0], ast.Attribute):
        d = dotted(st.targets[0])
        if d is None or _lifetime(mod, fn, cls, st.targets[0]) is None:
          continue
        tests = [t for t, _ in flow.guards(mod.parent, st, stop=fn)]
        if any(d in flow.attrs_in(t) for t in tests):
          s = slot(st.targets[0])
          s["fills"].append((st.targets[0], None, st.value))
          s["reads"].append(None)
  return out


@rule("R10.51", "C10", floor=3)
def r10_51(ctx):
  """Whatever the super() look-up path remembers across evaluations is keyed by every input of the remembered value; a SuperInstance is fresh per (class, object) or memoised under both."""
  n_fn = n_memo = 0
  retained = {}      # id(SuperInstance call) -> verdict text
  for rel in (SB, C.ATTR):
    mod = get_module(ctx, rel)
    funcs = _functions(mod)
    sites = {}
    for qual, fn, cls in funcs:
      n_fn += 1
      for d in fn.decorator_list:
        name = dotted(d.func if isinstance(d, ast.Call) else d) or ""
        if name.rsplit(".", 1)[-1] in ("cache", "lru_cache", "memoize", "cached_property"):
          n_memo += 1
          ctx.ok(f"{qual}:@{name.rsplit('.', 1)[-1]}", rel, fn.lineno,
                 {"decorator": name, "keyed_by": "all arguments"})
      sites[qual] = (fn, _memo_sites(mod, fn, cls))
    # containers filled in one function and looked up in another
    for qual, (fn, ms) in sites.items():
      for cont, m in ms.items():
        if m["fills"] and not m["reads"]:
          elsewhere = [q for q, (_, o) in sites.items() if q != qual
                       and cont in o and o[cont]["reads"]]
          if elsewhere and any(_input_paths(fn, v) for _, _, v in m["fills"]):
            raise AnalysisError(
                f"{qual}: {cont} is filled here and looked up in {elsewhere[0]}: "
                "a memo split over functions is not understood")
    for qual, (fn, ms) in sorted(sites.items()):
      for cont, m in sorted(ms.items()):
        if not (m["fills"] and m["reads"]):
          continue
        for node, key, value in m["fills"]:
          n_memo += 1
          vpaths = _input_paths(fn, value, 0, mod)
          kpaths = _input_paths(fn, key, 0, mod) if key is not None else set()
          for rk in m["reads"]:
            rp = _input_paths(fn, rk, 0, mod) if rk is not None else set()
            if rp != kpaths:
              raise AnalysisError(
                  f"{qual}: {cont} is looked up with `{src(rk) if rk is not None else '-'}` "
                  f"and filled under `{src(key) if key is not None else '-'}`")
          missing = sorted(v for v in vpaths if not _covered(v, kpaths))
          facts = {"container": cont, "lifetime": m["what"],
                   "key": src(key) if key is not None else None,
                   "key_inputs": sorted(kpaths), "value": src(value)[:100],
                   "value_inputs": sorted(vpaths)}
          for c in ast.walk(value):
            if isinstance(c, ast.Call) and (dotted(c.func) or "").split(".")[-1] == "SuperInstance":
              retained[id(c)] = f"memoised in {cont}"
          ctx.check(not missing, f"{qual}:memo-key@{cont}", rel, node.lineno,
                    f"{cont} ({m['what']}) remembers `{src(value)[:80]}` under "
                    f"{'the key `' + src(key) + '`' if key is not None else 'no key at all'}, "
                    f"but the value is computed from {missing} as well: a later "
                    f"evaluation that differs only in {missing} is served the value "
                    "of the first one.  On the super() path that is the receiver: "
                    "B.f evaluated for a D(B, C) after a B continues the look-up in "
                    "B's MRO instead of D's (C is skipped), so the attribute read "
                    "through super() is not the definition CPython finds first",
                    facts)
    if rel == SB:
      k = 0
      for qual, fn, cls in funcs:
        for c in [n for n in walk_no_nested(fn) if isinstance(n, ast.Call)]:
          if (dotted(c.func) or "").split(".")[-1] != "SuperInstance":
            continue
          k += 1
          args = [src(a) for a in c.args[:2]]
          ctx.ok(f"{qual}:SuperInstance#{k}", rel, c.lineno,
                 {"arguments": args, "retained": retained.get(id(c), "no: built per evaluation")})
      if k == 0:
        raise AnalysisError("special_builtins.py: no construction of SuperInstance found")
  ctx.ok("super-path:memos", SB, 0, {"functions": n_fn, "memos": n_memo})


_SUPER_NEW = ("          result.AddBinding(\n"
              "              SuperInstance(cls_data, obj.data, self.ctx), [cls, obj], node\n"
              "          )\n")
_SUPER_SIG = "  def call(self, node, func, args, alias_map=None):\n    result = self.ctx.program.NewVariable()\n    num_args = len(args.posargs)\n"


def _proxy_memo(key, table="self._proxies", init=True, body=None):
  """Super.call with the proxy of super(cls, obj) kept in a table."""
  body = body or (
      "          key = %s\n"
      "          if key not in %s:\n"
      "            %s[key] = SuperInstance(cls_data, obj.data, self.ctx)\n"
      "          result.AddBinding(%s[key], [cls, obj], node)\n" % (key, table, table, table))
  edits = [(SB, _SUPER_NEW, body)]
  if init:
    edits.append((SB, _SUPER_SIG,
                  "  def __init__(self, name, ctx, module):\n    super().__init__(name, ctx, module)\n"
                  "    self._proxies = {}\n\n" + _SUPER_SIG))
  return edits


_GMB_LOOP = "    base = base_var.data[0]\n    mro_bases.append(base)\n"
_GMB_DEF = "def get_mro_bases(bases):\n"
_GMB_RET = "    return [b for b in mro_bases if b.full_name != \"typing.Generic\"]\n"

VARIANTS = [
    {"name": "seeded-C10-r5m1", "rule": "R10.50", "patch": "seeded/C10-r5m1/patch.diff",
     "expect": "fire"},
    {"name": "generic-filter-also-drops-protocol", "rule": "R10.50", "file": AU, "expect": "fire",
     "old": _GMB_RET,
     "new": "    return [b for b in mro_bases if b.full_name not in (\"typing.Generic\", \"typing.Protocol\")]\n"},
    {"name": "make_class-drops-object-by-short-name", "rule": "R10.50", "file": C.VMU, "expect": "fire",
     "old": "  bases = _expand_generic_protocols(node, bases, ctx)\n",
     "new": "  bases = _expand_generic_protocols(node, bases, ctx)\n  bases = [b for b in bases if not (b.data and b.data[0].name == \"object\")] or bases\n"},
    {"name": "stub-parser-skips-object-base", "rule": "R10.50", "file": "pytype/pyi/classdef.py", "expect": "fire",
     "old": "    elif isinstance(p, pytd.Type):\n      bases_out.append(p)",
     "new": "    elif isinstance(p, pytd.Type):\n      if p.name not in (\"object\", \"builtins.object\"):\n        bases_out.append(p)"},
    {"name": "get_mro_bases-drops-abc-through-flag-and-helper", "rule": "R10.50", "expect": "fire",
     "edits": [(AU, _GMB_LOOP,
                "    base = base_var.data[0]\n    marker = is_abc_marker(base)\n    if marker:\n      continue\n    mro_bases.append(base)\n"),
               (AU, _GMB_DEF, "def is_abc_marker(value):\n  return value.full_name == \"abc.ABC\"\n\n\n" + _GMB_DEF)]},
    {"name": "get_mro_bases-keeps-only-generic", "rule": "R10.50", "file": AU, "expect": "fire",
     "old": _GMB_RET,
     "new": "    return [b for b in mro_bases if b.full_name == \"typing.Generic\"]\n"},
    {"name": "get_mro_bases-drops-by-identity", "rule": "R10.50", "file": AU, "expect": "error",
     "old": _GMB_LOOP,
     "new": "    base = base_var.data[0]\n    if base is bases[0].data[0].ctx.convert.object_type:\n      continue\n    mro_bases.append(base)\n"},
    {"name": "twin-generic-filter-as-loop-with-flag", "rule": "R10.50", "file": AU, "expect": "silent",
     "old": _GMB_RET,
     "new": "    kept = []\n    for entry in mro_bases:\n      is_generic = entry.full_name == \"typing.Generic\"\n      if is_generic:\n        continue\n      kept.append(entry)\n    return kept\n"},
    {"name": "twin-generic-filter-in-helper", "rule": "R10.50", "expect": "silent",
     "edits": [(AU, _GMB_RET, "    return [b for b in mro_bases if not _is_plain_generic(b)]\n"),
               (AU, _GMB_DEF, "def _is_plain_generic(value):\n  \"\"\"typing.Generic itself.\"\"\"\n  return value.full_name == \"typing.Generic\"\n\n\n" + _GMB_DEF)]},
    {"name": "twin-object-base-handled-on-both-arms", "rule": "R10.50", "file": AU, "expect": "silent",
     "old": _GMB_LOOP,
     "new": "    base = base_var.data[0]\n    if base.full_name == \"builtins.object\":\n      mro_bases.append(base)\n    else:\n      mro_bases.append(base)\n"},
    {"name": "twin-get_mro_bases-renamed-and-reordered", "rule": "R10.50", "file": AU, "expect": "silent",
     "old": "    base = base_var.data[0]\n    mro_bases.append(base)\n    # check if it contains user-defined generic types\n    if (\n        isinstance(base, _abstract.ParameterizedClass)\n        and base.full_name != \"typing.Generic\"\n    ):\n      has_user_generic = True\n",
     "new": "    chosen = base_var.data[0]\n    if (\n        chosen.full_name != \"typing.Generic\"\n        and isinstance(chosen, _abstract.ParameterizedClass)\n    ):\n      has_user_generic = True\n    mro_bases.append(chosen)\n"},
    # R10.51
    {"name": "seeded-C10-r5m2", "rule": "R10.51", "patch": "seeded/C10-r5m2/patch.diff",
     "expect": "fire"},
    {"name": "proxy-memo-keyed-by-class-only", "rule": "R10.51", "expect": "fire",
     "edits": _proxy_memo("cls_data")},
    {"name": "proxy-memo-keyed-by-class-and-object-NAME", "rule": "R10.51", "expect": "fire",
     "edits": _proxy_memo("(cls_data, obj.data.name)")},
    {"name": "proxy-in-single-lazy-slot", "rule": "R10.51", "expect": "fire",
     "edits": [(SB, _SUPER_NEW,
                "          if self._proxy is None:\n"
                "            self._proxy = SuperInstance(cls_data, obj.data, self.ctx)\n"
                "          result.AddBinding(self._proxy, [cls, obj], node)\n"),
               (SB, _SUPER_SIG,
                "  def __init__(self, name, ctx, module):\n    super().__init__(name, ctx, module)\n"
                "    self._proxy = None\n\n" + _SUPER_SIG)]},
    {"name": "proxy-memo-at-module-level-setdefault-by-object-class", "rule": "R10.51", "expect": "fire",
     "edits": [(SB, _SUPER_NEW,
                "          proxy = _SUPER_PROXIES.setdefault(\n"
                "              (cls_data, obj.data.cls), SuperInstance(cls_data, obj.data, self.ctx))\n"
                "          result.AddBinding(proxy, [cls, obj], node)\n"),
               (SB, "class Super(BuiltinClass):\n", "_SUPER_PROXIES = {}\n\n\nclass Super(BuiltinClass):\n")]},
    {"name": "twin-proxy-memo-keyed-by-class-and-object", "rule": "R10.51", "expect": "silent",
     "edits": _proxy_memo("(cls_data, obj.data)")},
    {"name": "twin-proxy-memo-keyed-by-bindings", "rule": "R10.51", "expect": "silent",
     "edits": _proxy_memo("(cls, obj)")},
    {"name": "twin-proxy-built-in-helper", "rule": "R10.51", "expect": "silent",
     "edits": [(SB, _SUPER_NEW,
                "          result.AddBinding(\n"
                "              self._proxy_for(cls_data, obj.data), [cls, obj], node\n"
                "          )\n"),
               (SB, _SUPER_SIG,
                "  def _proxy_for(self, super_cls, super_obj):\n"
                "    return SuperInstance(super_cls, super_obj, self.ctx)\n\n" + _SUPER_SIG)]},
    {"name": "twin-proxy-local-renamed", "rule": "R10.51", "expect": "silent",
     "edits": [(SB, _SUPER_NEW,
                "          receiver = obj.data\n"
                "          proxy = SuperInstance(cls_data, receiver, self.ctx)\n"
                "          result.AddBinding(proxy, [cls, obj], node)\n")]},
]
