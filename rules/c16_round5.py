"""C16 - R16.50: the execution order is emitted exactly once per node.

`cfg_utils.order_nodes` builds the list it returns by appending, one node per
iteration of a worklist loop, the node taken off the worklist.  "The execution
order lists every reachable block exactly once" needs, on every path:

  lockstep    a set S records exactly the emitted nodes: every iteration that
              runs `R.append(x)` also runs `S.add(x)` and vice versa (wherever
              in the iteration, in any order), nothing else ever writes S or
              R, and no iteration appends the same x twice;
  protection  the membership test against S that keeps an emitted node from
              being emitted again is evaluated with the node of the current
              iteration accounted for, in one of the two sound ways:
                (a) test on dequeue: `x not in S` holds on the path to
                    `R.append(x)` (an `if x in S: continue`, an enclosing
                    `if x not in S:`, ...), x not being rebound in between; or
                (b) filter on enqueue: every insertion `Q[k] = ..` /
                    `Q.append(k)` / `Q.add(k)` made inside the loop is guarded
                    by `k not in S`, x was removed from Q before `S.add(x)`, and
                    `S.add(x)` is executed on every path BEFORE the insertion
                    (so worklist and S stay disjoint: between the removal of x
                    and its `S.add(x)` nothing is queued; a guard `k != x` /
                    `k is not x` on the insertion serves as well).
              With neither, a node that is its own successor (`while True:`
              with a branch-free body compiles to such a block), or any node
              reached again over a back edge, is queued and emitted a second
              time.

R, S, Q and x are found by role (R = the list the function returns, S = the
set written together with R, Q = the name the enclosing `while` tests), not
by name; module-local helpers called as statements are read inline.
Anything else that writes R or S, or an emission outside a loop, is not
understood (analysis error).
"""
import ast

from sa.core import rule, AnalysisError
from sa.pyindex import get_module, dotted, src
from sa import flow

from rules import _util_c16c19 as U

CFG_UTILS = "pytype/typegraph/cfg_utils.py"

_DEFS = (ast.FunctionDef, ast.AsyncFunctionDef, ast.Lambda, ast.ClassDef)
_COMPS = (ast.ListComp, ast.SetComp, ast.DictComp, ast.GeneratorExp)
_LOOPS = (ast.While, ast.For, ast.AsyncFor)
_PURE_BUILTINS = {"len", "set", "frozenset", "sorted", "list", "tuple", "any", "all",
                  "bool", "iter", "reversed", "enumerate", "min", "max", "repr", "str",
                  "isinstance", "id", "print"}
_LIST_MUTATORS = {"extend", "insert", "pop", "remove", "clear", "sort", "reverse",
                  "__setitem__", "__delitem__", "__iadd__"}
_SET_MUTATORS = {"update", "discard", "remove", "pop", "clear", "difference_update",
                 "intersection_update", "symmetric_difference_update", "__ior__",
                 "__isub__", "__iand__", "__ixor__"}
_INSERTERS = {"append", "appendleft", "add", "setdefault", "push", "put"}
_BULK_INSERTERS = {"extend", "extendleft", "update"}
_REMOVERS = {"pop", "popitem", "popleft", "get"}


# -- walking one scope -----------------------------------------------------------------

def _scope_nodes(unit):
  """Nodes of `unit` that belong to the enclosing function's scope and are not
  inside a comprehension / lambda / nested def (the first iterable of a
  comprehension is evaluated in the enclosing scope and is included)."""
  todo = [unit]
  while todo:
    n = todo.pop()
    yield n
    if isinstance(n, _DEFS):
      continue
    if isinstance(n, _COMPS):
      todo.append(n.generators[0].iter)
      continue
    todo.extend(ast.iter_child_nodes(n))


def _stores(unit):
  return {n.id for n in _scope_nodes(unit)
          if isinstance(n, ast.Name) and isinstance(n.ctx, (ast.Store, ast.Del))}


def _method_call(n):
  """(receiver name, method, call) for `name.method(..)`."""
  if isinstance(n, ast.Call) and isinstance(n.func, ast.Attribute) \
      and isinstance(n.func.value, ast.Name):
    return n.func.value.id, n.func.attr, n
  return None


def _hidden_calls(fn, recv, meth):
  """Calls recv.meth(..) sitting in a comprehension / lambda / nested def."""
  visible = {id(n) for st in fn.body for n in _scope_nodes(st)}
  return [n for n in ast.walk(fn) if (mc := _method_call(n)) and mc[0] == recv
          and mc[1] == meth and id(n) not in visible]


# -- roles -------------------------------------------------------------------------------

def _binding(fn, name):
  """The single statement-level binding `name = <expr>` (None: not exactly one store)."""
  stores = [n for st in fn.body for n in _scope_nodes(st)
            if isinstance(n, ast.Name) and n.id == name
            and isinstance(n.ctx, (ast.Store, ast.Del))]
  if len(stores) != 1:
    return None
  for st in fn.body:
    for n in _scope_nodes(st):
      if isinstance(n, (ast.Assign, ast.AnnAssign)) and n.value is not None:
        tg = n.targets if isinstance(n, ast.Assign) else [n.target]
        if any(t is stores[0] for t in tg):
          return n.value
  return None


def _is_new_list(e):
  return (isinstance(e, ast.List) or
          (isinstance(e, ast.Call) and dotted(e.func) == "list" and not e.keywords
           and len(e.args) <= 1))


def _is_new_set(e):
  return (isinstance(e, ast.Set) or
          (isinstance(e, ast.Call) and dotted(e.func) == "set" and not e.keywords
           and len(e.args) <= 1))


def _initial_elems(e):
  """Unparsed elements a list / set binding starts with (None: not a literal)."""
  if isinstance(e, (ast.List, ast.Set)):
    if any(isinstance(x, ast.Starred) for x in e.elts):
      return None
    return sorted({src(x) for x in e.elts})
  if isinstance(e, ast.Call) and not e.args:
    return []
  if isinstance(e, ast.Call) and len(e.args) == 1 and \
      isinstance(e.args[0], (ast.List, ast.Tuple, ast.Set)):
    return _initial_elems(ast.List(elts=e.args[0].elts))
  return None


def _check_only_written_by(fn, name, allowed_method, mutators, what):
  """`name` is bound once and changed only through name.<allowed_method>(one arg)."""
  for st in fn.body:
    for n in _scope_nodes(st):
      if isinstance(n, ast.AugAssign) and isinstance(n.target, ast.Name) and n.target.id == name:
        raise AnalysisError(f"{CFG_UTILS}: order_nodes: {what} `{name}` is changed by an "
                            "augmented assignment; not understood")
      if isinstance(n, (ast.Subscript,)) and isinstance(n.ctx, (ast.Store, ast.Del)) \
          and isinstance(n.value, ast.Name) and n.value.id == name:
        raise AnalysisError(f"{CFG_UTILS}: order_nodes: {what} `{name}` is changed through a "
                            "subscript; not understood")
      mc = _method_call(n)
      if mc and mc[0] == name and mc[1] in mutators:
        raise AnalysisError(f"{CFG_UTILS}: order_nodes: {what} `{name}` is changed by "
                            f".{mc[1]}(..); not understood")
      if mc and mc[0] == name and mc[1] == allowed_method and \
          (len(n.args) != 1 or n.keywords or not isinstance(n.args[0], ast.Name)):
        raise AnalysisError(f"{CFG_UTILS}: order_nodes: `{src(n)}` does not pass one plain "
                            "name; not understood")
      if isinstance(n, ast.Call) and not (mc and mc[0] == name):
        passed = [a for a in list(n.args) + [k.value for k in n.keywords]
                  if isinstance(a, ast.Name) and a.id == name]
        if passed and (dotted(n.func) or "") not in _PURE_BUILTINS:
          raise AnalysisError(f"{CFG_UTILS}: order_nodes: {what} `{name}` is handed to "
                              f"`{src(n.func)}(..)`, which may change it; not understood")
  if _hidden_calls(fn, name, allowed_method):
    raise AnalysisError(f"{CFG_UTILS}: order_nodes: `{name}.{allowed_method}(..)` inside a "
                        "comprehension / nested function; not understood")


# -- guards --------------------------------------------------------------------------------

def _implies(test, pol, pred):
  """Does `test` having truth value `pol` imply the atom decided by `pred`?
  pred(compare_node) -> True if the comparison being TRUE states the atom,
  False if its being FALSE states the atom, None if unrelated."""
  if isinstance(test, ast.UnaryOp) and isinstance(test.op, ast.Not):
    return _implies(test.operand, not pol, pred)
  if isinstance(test, ast.BoolOp):
    if isinstance(test.op, ast.And) and pol:
      return any(_implies(v, True, pred) for v in test.values)
    if isinstance(test.op, ast.Or) and not pol:
      return any(_implies(v, False, pred) for v in test.values)
    return False
  if isinstance(test, ast.Compare) and len(test.ops) == 1:
    want = pred(test)
    return want is not None and want == pol
  return False


def _absent_pred(key, sname):
  """atom: `key not in sname`."""
  def pred(c):
    if isinstance(c.left, ast.Name) and c.left.id == key and \
        isinstance(c.comparators[0], ast.Name) and c.comparators[0].id == sname:
      if isinstance(c.ops[0], ast.NotIn):
        return True
      if isinstance(c.ops[0], ast.In):
        return False
    return None
  return pred


def _differs_pred(key, x):
  """atom: `key` is another node than `x`."""
  def pred(c):
    names = {dotted(c.left), dotted(c.comparators[0])}
    if names == {key, x} and key != x:
      if isinstance(c.ops[0], (ast.NotEq, ast.IsNot)):
        return True
      if isinstance(c.ops[0], (ast.Eq, ast.Is)):
        return False
    return None
  return pred


# -- the rule --------------------------------------------------------------------------------

def _enclosing_loop(parent, node, stop):
  while node in parent and node is not stop:
    node = parent[node]
    if isinstance(node, _LOOPS):
      return node
  return None


def _own_continues(loop):
  """`continue` statements that continue `loop` itself."""
  out = []
  todo = list(loop.body)
  while todo:
    n = todo.pop()
    if isinstance(n, ast.Continue):
      out.append(n)
    if isinstance(n, _LOOPS + _DEFS):
      continue
    for fld in ("body", "orelse", "finalbody"):
      todo.extend(getattr(n, fld, None) or [])
    for h in getattr(n, "handlers", None) or []:
      todo.extend(h.body)
    for c in getattr(n, "cases", None) or []:
      todo.extend(c.body)
  return out


@rule("R16.50", "C16", floor=2)
def r16_50(ctx):
  """order_nodes: the returned list and a seen-set are written in lockstep and the seen-test that prevents re-emission is current for the dequeued node (exactly-once emission)."""
  cmod = get_module(ctx, CFG_UTILS)
  fn, parent, inlined = U.inline_local_calls(cmod, cmod.func("order_nodes"), depth=2)
  where = f"{CFG_UTILS}: order_nodes"

  # R: the list that is returned
  ret_names = set()
  for st in fn.body:
    for n in _scope_nodes(st):
      if isinstance(n, ast.Return) and n.value is not None:
        if isinstance(n.value, ast.Name):
          ret_names.add(n.value.id)
        elif not (isinstance(n.value, (ast.List, ast.Tuple)) and not n.value.elts):
          raise AnalysisError(f"{where} returns `{src(n.value)}`; only a local list (or an "
                              "empty literal) is understood")
  if len(ret_names) != 1:
    raise AnalysisError(f"{where}: expected one returned local list, found {sorted(ret_names)}")
  rname = next(iter(ret_names))
  rbind = _binding(fn, rname)
  if rbind is None or not _is_new_list(rbind) or _initial_elems(rbind) is None:
    raise AnalysisError(f"{where}: `{rname}` is not bound exactly once to a new list")
  _check_only_written_by(fn, rname, "append", _LIST_MUTATORS, "the result list")

  # emission sites
  sites = []
  for st in fn.body:
    for n in _scope_nodes(st):
      mc = _method_call(n)
      if mc and mc[0] == rname and mc[1] == "append":
        stmt = U.enclosing_stmt(parent, n)
        if not (isinstance(stmt, ast.Expr) and stmt.value is n):
          raise AnalysisError(f"{where}: `{src(n)}` is not a statement of its own")
        loop = _enclosing_loop(parent, stmt, fn)
        if loop is None:
          raise AnalysisError(f"{where}: `{src(n)}` outside a loop; not understood")
        sites.append((n.args[0].id, stmt, loop))
  if not sites:
    raise AnalysisError(f"{where}: nothing is appended to the returned list `{rname}`")
  sites.sort(key=lambda s: (s[1].lineno, s[1].col_offset))

  # candidate seen-sets: locals bound once to a new set
  set_names = set()
  for st in fn.body:
    for n in _scope_nodes(st):
      mc = _method_call(n)
      if mc and mc[1] == "add":
        b = _binding(fn, mc[0])
        if b is not None and _is_new_set(b):
          set_names.add(mc[0])
      if isinstance(n, ast.Compare) and len(n.ops) == 1 and \
          isinstance(n.ops[0], (ast.In, ast.NotIn)) and isinstance(n.comparators[0], ast.Name):
        b = _binding(fn, n.comparators[0].id)
        if b is not None and _is_new_set(b):
          set_names.add(n.comparators[0].id)

  # iteration-exit sentinels (fn is a private copy)
  loops = []
  for _, _, loop in sites:
    if not any(loop is l for l in loops):
      loops.append(loop)
  sentinel = {}
  for loop in loops:
    p = ast.Pass(lineno=loop.body[-1].end_lineno or loop.lineno, col_offset=0)
    loop.body.append(p)
    parent[p] = loop
    sentinel[id(loop)] = p

  # facts: ("emit", x) / ("add", S, x) / ("deq", Q, x); all die when x (or S, Q) is rebound
  def facts_of(unit, nodes):
    out = set()
    for n in nodes:
      mc = _method_call(n)
      if mc and mc[0] == rname and mc[1] == "append" and len(n.args) == 1 \
          and isinstance(n.args[0], ast.Name):
        out.add(("emit", rname, n.args[0].id))
      elif mc and mc[0] in set_names and mc[1] == "add" and len(n.args) == 1 \
          and isinstance(n.args[0], ast.Name):
        out.add(("add", mc[0], n.args[0].id))
      elif mc and mc[1] in ("pop", "remove", "discard") and len(n.args) >= 1 \
          and isinstance(n.args[0], ast.Name):
        out.add(("deq", mc[0], n.args[0].id))
      elif isinstance(n, ast.Delete):
        for t in n.targets:
          if isinstance(t, ast.Subscript) and isinstance(t.value, ast.Name) \
              and isinstance(t.slice, ast.Name):
            out.add(("deq", t.value.id, t.slice.id))
      elif isinstance(n, ast.Assign) and isinstance(n.value, ast.Call):
        for c in _scope_nodes(n.value):
          mc2 = _method_call(c)
          if mc2 and mc2[1] in _REMOVERS and mc2[1] != "get":
            for t in n.targets:
              for nm in ast.walk(t):
                if isinstance(nm, ast.Name):
                  out.add(("deq", mc2[0], nm.id))
    return out

  # path-sensitive: the state at a point is the SET of event-sets of the paths
  # that reach it (events since the node variable was last bound)
  def delta(unit, st):
    sure = facts_of(unit, flow.unconditional_nodes(unit))
    maybe = facts_of(unit, list(_scope_nodes(unit)))
    if sure != maybe:
      raise AnalysisError(f"{where}: `{src(unit)}` writes the result / seen-set / worklist "
                          "inside a conditional expression; not understood")
    stored = _stores(unit)
    out = set()
    for ps in st:
      if stored:
        ps = frozenset(f for f in ps if f[1] not in stored and f[2] not in stored)
      again = {("emit2", f[1], f[2]) for f in sure if f[0] == "emit" and f in ps}
      out.add(ps | sure | again)
    return frozenset(out)

  class _Paths(flow.Flow):
    def _transfer(self, unit, st):
      return None if st is None else delta(unit, st)

  paths = _Paths(fn, None, None, mode="may", entry=frozenset([frozenset()]))

  def may_at(stmt, fact):
    st = paths.before.get(stmt)
    return st is not None and any(fact in ps for ps in st)

  def must_at(stmt, fact):
    st = paths.before.get(stmt)
    return st is not None and all(fact in ps for ps in st)

  # reaching definitions of every name (is x still the same x?)
  def gen_def(unit):
    return {("def", nm, id(unit)) for nm in _stores(unit)}

  def kill_def(unit):
    st = _stores(unit)
    return (lambda f: f[1] in st) if st else None

  rd = flow.flow(fn, gen_def, kill_def, mode="may",
                 entry=frozenset(("def", a.arg, "param") for a in ast.walk(fn.args)
                                 if isinstance(a, ast.arg)))

  def defs_at(stmt, name):
    st = rd.before.get(stmt)
    if st is None:
      return None
    return frozenset(f for f in st if f[1] == name)

  def exit_states(loop):
    pts = [sentinel[id(loop)]] + _own_continues(loop)
    return [ps for p in pts if paths.before.get(p) is not None for ps in paths.before[p]]

  def path_guards(stmt, name):
    """Guards on the path to stmt that were evaluated for the same `name`."""
    out = []
    here = defs_at(stmt, name)
    for test, pol in flow.guards(parent, stmt, stop=fn):
      owner = parent.get(test)
      if not isinstance(owner, (ast.If, ast.Assert)):
        continue
      if defs_at(owner, name) == here and here is not None:
        out.append((test, pol))
    return out

  for idx, (x, stmt, loop) in enumerate(sites, 1):
    tag = f"order_nodes:emission#{idx}"
    line = stmt.lineno
    if not isinstance(loop, ast.While):
      raise AnalysisError(f"{where}: `{src(stmt)}` is emitted from a `for` loop; only a "
                          "worklist `while` loop is understood")
    # ---- lockstep
    exits = exit_states(loop)
    if not exits:
      raise AnalysisError(f"{where}: no end of iteration found for the emission loop")
    twice = may_at(stmt, ("emit", rname, x))
    added = sorted(s for s in set_names
                   if any(("add", s, x) in ps for ps in exits))
    guard_sets = sorted(s for s in set_names
                        if any(_implies(t, p, _absent_pred(x, s))
                               for t, p in path_guards(stmt, x)))
    in_step, why = [], {}
    for s in added:
      emit_f, add_f = ("emit", rname, x), ("add", s, x)
      miss_add = any(emit_f in ps and add_f not in ps for ps in exits)
      miss_emit = any(add_f in ps and emit_f not in ps for ps in exits)
      if miss_add:
        why[s] = (f"an iteration can append `{x}` to `{rname}` without `{s}.add({x})`: the "
                  "node is not recorded as emitted and is emitted again when it is reached "
                  "over another edge")
      elif miss_emit:
        why[s] = (f"an iteration can run `{s}.add({x})` without appending `{x}` to "
                  f"`{rname}`: the node counts as emitted but is missing from the order")
      else:
        in_step.append(s)
    if twice:
      ctx.bad(tag + ":lockstep", CFG_UTILS, line,
              f"`{x}` can be appended to `{rname}` twice in one iteration", {"node": x})
      continue
    if not in_step:
      if not added and not guard_sets:
        raise AnalysisError(f"{where}: no set records the nodes appended to `{rname}`; "
                            "another exactly-once scheme is not understood")
      reason = why[added[0]] if added else (
          f"`{guard_sets[0]}` is tested before `{rname}.append({x})` but never records the "
          "emitted node: the test cannot stop a second emission")
      ctx.bad(tag + ":lockstep", CFG_UTILS, line, reason,
              {"result": rname, "node": x, "sets_written": added, "sets_tested": guard_sets})
      continue
    for s in in_step:
      # written nowhere else, and only with emitted nodes
      _check_only_written_by(fn, s, "add", _SET_MUTATORS, "the seen-set")
      sb = _binding(fn, s)
      if _initial_elems(sb) is None or _initial_elems(sb) != _initial_elems(rbind):
        raise AnalysisError(f"{where}: `{s}` and `{rname}` do not start with the same "
                            "elements; not understood")
      for st in fn.body:
        for n in _scope_nodes(st):
          mc = _method_call(n)
          if mc and mc[0] == s and mc[1] == "add":
            lp = _enclosing_loop(parent, n, fn)
            if not any(lp is l for l in loops):
              raise AnalysisError(f"{where}: `{src(n)}` outside the emission loop; "
                                  "not understood")
            if not any(n.args[0].id == sx and lp is sl for sx, _, sl in sites):
              ctx.bad(tag + ":lockstep", CFG_UTILS, n.lineno,
                      f"`{src(n)}` records a node that is not appended to `{rname}`",
                      {"node": n.args[0].id})
    ctx.ok(tag + ":lockstep", CFG_UTILS, line,
           {"result": rname, "node": x, "seen_set": in_step, "helpers_inlined": sorted(set(inlined))})

    # ---- protection
    qname = loop.test.id if isinstance(loop.test, ast.Name) else None
    verdicts = {}
    for s in in_step:
      if s in guard_sets:
        verdicts[s] = ("ok", "tested-on-dequeue", None)
        continue
      if qname is None:
        raise AnalysisError(f"{where}: emission is not guarded by `{x} not in {s}` and the "
                            f"loop condition `{src(loop.test)}` names no worklist")
      inserts, bulk = [], []
      for st in loop.body:
        for n in _scope_nodes(st):
          if isinstance(n, ast.Subscript) and isinstance(n.ctx, ast.Store) and \
              isinstance(n.value, ast.Name) and n.value.id == qname:
            ist = U.enclosing_stmt(parent, n)
            if not isinstance(n.slice, ast.Name) or not isinstance(ist, (ast.Assign, ast.AnnAssign)):
              raise AnalysisError(f"{where}: insertion `{src(ist)}` not understood")
            inserts.append((n.slice.id, ist))
          mc = _method_call(n)
          if mc and mc[0] == qname and mc[1] in _INSERTERS:
            ist = U.enclosing_stmt(parent, n)
            if not n.args or not isinstance(n.args[0], ast.Name):
              raise AnalysisError(f"{where}: insertion `{src(n)}` not understood")
            inserts.append((n.args[0].id, ist))
          if mc and mc[0] == qname and mc[1] in _BULK_INSERTERS:
            bulk.append(n)
          if isinstance(n, ast.Name) and n.id == qname and isinstance(n.ctx, ast.Store):
            raise AnalysisError(f"{where}: the worklist `{qname}` is rebound inside the "
                                "loop; not understood")
      if bulk:
        raise AnalysisError(f"{where}: bulk insertion `{src(bulk[0])}` into the worklist; "
                            "not understood")
      if not inserts:
        raise AnalysisError(f"{where}: nothing is inserted into the worklist `{qname}` "
                            "inside the loop; not understood")
      unfiltered = [(k, ist) for k, ist in inserts
                    if not any(_implies(t, p, _absent_pred(k, s)) for t, p in path_guards(ist, k))]
      if unfiltered:
        k, ist = unfiltered[0]
        verdicts[s] = ("bad", None, (
            ist.lineno,
            f"`{rname}.append({x})` is not guarded by `{x} not in {s}` and `{src(ist)}` "
            f"queues `{k}` without testing `{k} not in {s}`: a node that was already "
            "emitted is queued and emitted again (any back edge: every loop)"))
        continue
      late = []
      for k, ist in inserts:
        if paths.before.get(ist) is None:
          continue
        marked = must_at(ist, ("add", s, x))
        differs = any(_implies(t, p, _differs_pred(k, x)) for t, p in path_guards(ist, k))
        if not marked and not differs:
          late.append((k, ist))
      if late:
        k, ist = late[0]
        verdicts[s] = ("bad", None, (
            ist.lineno,
            f"`{k} not in {s}` is evaluated for the successors of `{x}` before "
            f"`{s}.add({x})` has run on every path: `{x}` is off the worklist and not yet in "
            f"`{s}`, so a node that is its own successor (`while True:` with a branch-free "
            "body) passes the filter, is queued again and is emitted twice"))
        continue
      # worklist and S disjoint needs: x left the worklist before S.add(x)
      add_stmts = [U.enclosing_stmt(parent, n) for st in loop.body for n in _scope_nodes(st)
                   if (mc := _method_call(n)) and mc[0] == s and mc[1] == "add"
                   and n.args[0].id == x]
      for a in add_stmts:
        if paths.before.get(a) is not None and not must_at(a, ("deq", qname, x)):
          raise AnalysisError(f"{where}: cannot see that `{x}` is removed from `{qname}` "
                              f"before `{s}.add({x})`; not understood")
      verdicts[s] = ("ok", "filtered-on-enqueue", None)
    oks = [(s, v[1]) for s, v in verdicts.items() if v[0] == "ok"]
    if oks:
      ctx.ok(tag + ":protected", CFG_UTILS, line,
             {"node": x, "seen_set": oks[0][0], "scheme": oks[0][1], "worklist": qname})
    else:
      s, (_, _, (bline, reason)) = sorted(verdicts.items())[0]
      ctx.bad(tag + ":protected", CFG_UTILS, bline, reason,
              {"node": x, "seen_set": s, "worklist": qname})


# -- sensitivity suite -------------------------------------------------------------------------

_GUARD = "    if node in seen:\n      continue\n"
_EMIT = "    order.append(node)\n    seen.add(node)\n"
_EXPAND = ("    for n in node.outgoing:\n"
           "      if n not in queue:\n"
           "        queue[n] = predecessor_map[n] - seen\n")
_BODY_TAIL = (
    "    order.append(node)\n"
    "    seen.add(node)\n"
    "    # Remove this node from the predecessors of all nodes after it.\n"
    "    for _, predecessors in queue.items():\n"
    "      predecessors.discard(node)\n"
    "    # Potentially schedule nodes we couldn't reach before:\n"
    "    for n in node.outgoing:\n"
    "      if n not in queue:\n"
    "        queue[n] = predecessor_map[n] - seen\n")


def _indent(text, by="  "):
  return "".join(by + l if l.strip() else l for l in text.splitlines(True))


VARIANTS = [
    {"name": "seeded-C16-r5m2", "rule": "R16.50",
     "patch": "seeded/C16-r5m2/patch.diff", "expect": "fire"},
    # -- must fire
    {"name": "dequeue-test-dropped", "rule": "R16.50", "file": CFG_UTILS, "expect": "fire",
     "old": _GUARD, "new": ""},
    {"name": "leaf-nodes-not-recorded-as-seen", "rule": "R16.50", "file": CFG_UTILS,
     "expect": "fire", "old": _EMIT,
     "new": "    order.append(node)\n    if node.outgoing:\n      seen.add(node)\n"},
    {"name": "dequeue-test-against-another-set", "rule": "R16.50", "file": CFG_UTILS,
     "expect": "fire",
     "edits": [(CFG_UTILS, "  order = []\n  seen = set()\n",
                "  order = []\n  seen = set()\n  skipped = set()\n"),
               (CFG_UTILS, _GUARD, "    if node in skipped:\n      continue\n")]},
    {"name": "enqueue-filter-with-mark-after-expansion", "rule": "R16.50", "file": CFG_UTILS,
     "expect": "fire",
     "edits": [(CFG_UTILS, _GUARD + _EMIT, "    order.append(node)\n"),
               (CFG_UTILS, _EXPAND,
                "    for n in node.outgoing:\n"
                "      if not (n in queue or n in seen):\n"
                "        queue[n] = predecessor_map[n] - seen - {node}\n"
                "    seen.add(node)\n")]},
    {"name": "seen-marked-on-the-skip-path-only", "rule": "R16.50", "file": CFG_UTILS,
     "expect": "fire",
     "old": _GUARD + _EMIT,
     "new": "    if node in seen:\n      seen.add(node)\n      continue\n    order.append(node)\n"},
    {"name": "node-appended-twice", "rule": "R16.50", "file": CFG_UTILS, "expect": "fire",
     "old": _EMIT, "new": "    order.append(node)\n    seen.add(node)\n    order.append(node)\n"},
    # -- must stay silent
    {"name": "twin-positive-test-encloses-the-body", "rule": "R16.50", "file": CFG_UTILS,
     "expect": "silent", "old": _GUARD + _BODY_TAIL,
     "new": "    if node not in seen:\n" + _indent(_BODY_TAIL)},
    {"name": "twin-renamed-and-reordered", "rule": "R16.50", "file": CFG_UTILS,
     "expect": "silent",
     "edits": [(CFG_UTILS, "  order = []\n  seen = set()\n", "  scheduled = set()\n  result = []\n"),
               (CFG_UTILS, _GUARD + _EMIT,
                "    if not (node not in scheduled):\n      continue\n"
                "    scheduled.add(node)\n    result.append(node)\n"),
               (CFG_UTILS, "predecessor_map[n] - seen\n", "predecessor_map[n] - scheduled\n"),
               (CFG_UTILS, "  assert len(set(order) | dead) == len(set(nodes))\n\n  return order\n",
                "  assert len(set(result) | dead) == len(set(nodes))\n\n  return result\n")]},
    {"name": "twin-emission-extracted-into-helper", "rule": "R16.50", "file": CFG_UTILS,
     "expect": "silent",
     "edits": [(CFG_UTILS, _EMIT, "    _schedule(node, order, seen)\n"),
               (CFG_UTILS, "class SuccessorNode(Protocol):\n",
                "def _schedule(node, order, seen):\n"
                "  seen.add(node)\n  order.append(node)\n\n\n"
                "class SuccessorNode(Protocol):\n")]},
    {"name": "twin-mark-at-end-of-iteration-with-dequeue-test", "rule": "R16.50",
     "file": CFG_UTILS, "expect": "silent",
     "edits": [(CFG_UTILS, _EMIT, "    order.append(node)\n"),
               (CFG_UTILS, _EXPAND,
                "    for n in node.outgoing:\n"
                "      if n not in queue:\n"
                "        queue[n] = predecessor_map[n] - seen - {node}\n"
                "    seen.add(node)\n")]},
    {"name": "twin-enqueue-filter-with-mark-before-expansion", "rule": "R16.50",
     "file": CFG_UTILS, "expect": "silent",
     "edits": [(CFG_UTILS, _GUARD, ""),
               (CFG_UTILS, _EXPAND,
                "    for n in node.outgoing:\n"
                "      if n not in queue and n not in seen:\n"
                "        queue[n] = predecessor_map[n] - seen\n")]},
    # -- not understood
    {"name": "order-built-by-another-scheme", "rule": "R16.50", "file": CFG_UTILS,
     "expect": "error",
     "old": "\n  return order\n", "new": "\n  return list(dict.fromkeys(order))\n"},
]
