"""C14 extension (R14.23): the complete form of R14.22's obligation (D66, repaired
in /repo by "fix: decide forward/reflected operator order the way CPython does").

CPython tries the reflected method first iff type(y) is a proper subclass of
type(x) and lookup(type(y), rop) is not lookup(type(x), rop) (typeobject.c
method_is_overloaded), and it never tries the reflected method at all when
type(x) is type(y) (SLOT1BINFULL's do_other).  Two divergences were found with
this rule and repaired:

  * vm_utils._overrides asked "does a class in *front* of x's class in y's MRO
    define rop?", which differs whenever a class *behind* x's class in y's MRO
    that is not an ancestor of x's class provides rop:

      class A:                         class A:
        def __sub__(s, o): return "s"    def __rsub__(s, o): return 1
      class B(A): pass                 class X(A):
      class M:                           def __sub__(s, o): return "s"
        def __rsub__(s, o): return [1] class Z(A):
      class D(B, M): pass                def __rsub__(s, o): return [1]
      r = A() - D()                    class Y(X, Z): pass
      r.append(2)                      r = X() - Y(); r.append(2)

    CPython: both r are lists (M.__rsub__ / Z.__rsub__ is called first); pytype
    reported `attribute-error: No attribute 'append' on str`.
  * `class C: def __rsub__(self, o): return 1` / `C() - C()` is a TypeError in
    CPython; pytype tried C.__rsub__ and reported nothing.

The rule evaluates the *option list* of `_call_binop_on_bindings` - its path
conditions (`rname`, the comparison of the operands' classes, the call of the
`_overrides` predicate with everything it calls) are interpreted on the class
model of rules/c14_overrides.py - for every ordered pair of classes of the
chain, mixin-in-front, mixin-behind (D(B, M)) and diamond (Y(X, Z)) worlds,
eager and lazy members, and compares the *sequence* of methods pytype looks up
with the sequence of methods the host CPython calls when every method returns
NotImplemented; pairs in which only one of the two methods exists are compared
too.
"""
from sa.core import rule
from rules import c14_overrides as O

VU = O.VU


@rule("R14.23", "C14", floor=128)
def r14_23(ctx):
  O.evaluate(ctx, {**O.WORLDS, **O.PENDING_WORLDS}, single_method_pairs=True)


VARIANTS = [
    # D66, first half: the scan that stops at the left operand's class
    {"name": "revert-D66-overrides-scan-stops-at-left-class", "rule": "R14.23", "file": VU,
     "expect": "fire",
     "old": ("    provider = _provider(subcls, attr)\n" + O._OV_RET),
     "new": ("    for cls in subcls.mro:\n"
             "      if cls == supercls:\n"
             "        break\n"
             "      if isinstance(cls, mixin.LazyMembers):\n"
             "        cls.load_lazy_attribute(attr)\n"
             "      if (\n"
             "          isinstance(cls, abstract.SimpleValue)\n"
             "          and attr in cls.members\n"
             "          and cls.members[attr].bindings\n"
             "      ):\n"
             "        return True\n")},
    # D66, second half: the reflected option for operands of one class
    {"name": "revert-D66-reflected-option-for-same-class", "rule": "R14.23", "file": VU,
     "expect": "fire",
     "old": "  if rname and xval.data.cls != yval.data.cls:\n", "new": "  if rname:\n"},
    # the provider of the left class is looked up behind the left class only
    {"name": "left-provider-skips-own-class", "rule": "R14.23", "file": VU, "expect": "fire",
     "old": O._OV_RET,
     "new": ("    inherited = [c for c in supercls.mro[1:] if _provider(c, attr) == c]\n"
             "    return provider is not None and provider not in inherited\n")},
    # the classes are compared through their names' MRO position instead of identity
    {"name": "same-class-test-by-mro-length", "rule": "R14.23", "file": VU, "expect": "fire",
     "old": "  if rname and xval.data.cls != yval.data.cls:\n",
     "new": "  if rname and len(xval.data.cls.mro) != len(yval.data.cls.mro):\n"},
    # twins
    {"name": "twin-same-class-guard-clause", "rule": "R14.23", "file": VU, "expect": "silent",
     "old": ("  if rname and xval.data.cls != yval.data.cls:\n"
             "    # Python does not try the reflected method if the operands have the same\n"
             "    # type.\n"
             "    options.append((yval, xval, rname))\n"
             "    if _overrides(yval.data.cls, xval.data.cls, rname):\n"),
     "new": ("  same_type = xval.data.cls == yval.data.cls\n"
             "  if rname and not same_type:\n"
             "    options.append((yval, xval, rname))\n"
             "    if _overrides(yval.data.cls, xval.data.cls, rname):\n")},
    {"name": "twin-overrides-early-false-for-same-class", "rule": "R14.23", "file": VU,
     "expect": "silent",
     "old": "    provider = _provider(subcls, attr)\n" + O._OV_RET,
     "new": ("    if subcls == supercls:\n"
             "      return False\n"
             "    provider = _provider(subcls, attr)\n" + O._OV_RET)},
    {"name": "twin-benign-C14-r1", "rule": "R14.23", "patch": "benign/C14-r1/patch.diff",
     "expect": "silent"},
    {"name": "seeded-C14-r3m1", "rule": "R14.23", "patch": "seeded/C14-r3m1/patch.diff",
     "expect": "fire"},
]
