"""C14 extension R14.23 (D66, repaired).

R14.23: the complete form of R14.22's obligation.  CPython tries the reflected
method first iff type(y) is a proper subclass of type(x) and
lookup(type(y), rop) is not lookup(type(x), rop) (typeobject.c
method_is_overloaded), and it never tries the reflected method when
type(x) is type(y).  vm_utils._overrides instead asks "does a class in front of
x's class in y's MRO define rop?", which differs whenever a class *behind* x's
class in y's MRO that is not an ancestor of x's class provides rop:

  class A:                       class A:
    def __sub__(s, o): return "s"   def __rsub__(s, o): return 1
  class B(A): pass               class X(A):
  class M:                         def __sub__(s, o): return "s"
    def __rsub__(s, o): return [1] class Z(A):
  class D(B, M): pass              def __rsub__(s, o): return [1]
  r = A() - D()                  class Y(X, Z): pass
  r.append(2)                    r = X() - Y(); r.append(2)

CPython: both r are lists (M.__rsub__ / Z.__rsub__ is called first); pytype
(HEAD) reports `attribute-error: No attribute 'append' on str` on the clean
statement and misses `r.upper()`.  Second divergence (single_method_pairs):
`class C: def __rsub__(self, o): return 1` / `C() - C()` is a TypeError in
CPython (same type: the reflected method is not tried), pytype reports nothing.

Suggested fix: in _overrides compare the providers -
  first class of subcls.mro defining attr  vs  first class of supercls.mro
  defining attr; return True iff the former exists and differs from the latter
and in _call_binop_on_bindings drop the reflected option when
xval.data.cls == yval.data.cls.
"""
from sa.core import rule
from rules import c14_overrides as O


@rule("R14.23", "C14", floor=32)
def r14_23(ctx):
  O.evaluate(ctx, {**O.WORLDS, **O.PENDING_WORLDS}, single_method_pairs=True)
