"""C15 extension: the constant-folding pass must not let an exception escape.

constant_folding.py runs on every code object before analysis.  Compilable but
ill-typed literals (`{[1]: 2}`, `{**{1: 2}, **[1]}`) reach it; its own
convention is to turn such input into ConstantError (mapped to a reported
error by io.check_or_generate_pyi).  Two sibling-consistency rules:

R15.20  every place that *hashes* the value of a folded constant (uses it as a
        dict key or set element) is covered by a TypeError -> ConstantError
        handler, as Stack.build already is for sets;
R15.21  `<typ component>.__name__` is only taken where the type tag has been
        tested to be 'prim' (for every other tag the component is a frozenset
        of element types, not a class).
"""
import ast

from sa.core import rule, AnalysisError
from sa.pyindex import get_module, dotted, src, calls_in
from sa import flow

CF = "pytype/constant_folding.py"


def _functions(mod):
  out = []
  for n in ast.walk(mod.tree):
    if isinstance(n, (ast.FunctionDef, ast.AsyncFunctionDef)):
      out.append(n)
  return out


def _in_typeerror_try(mod, node, fn):
  """node lies in the body of a `try` of fn that has an `except TypeError`
  (or a bare/Exception handler)."""
  cur = node
  while cur in mod.parent and cur is not fn:
    par = mod.parent[cur]
    if isinstance(par, ast.Try) and cur in par.body:
      for h in par.handlers:
        names = []
        if h.type is None:
          return True
        for t in (h.type.elts if isinstance(h.type, ast.Tuple) else [h.type]):
          names.append((dotted(t) or "").split(".")[-1])
        if any(n in ("TypeError", "Exception", "BaseException") for n in names):
          return True
    cur = par
  return False


def _value_attr(e):
  """`<x>.value` attribute access."""
  return isinstance(e, ast.Attribute) and e.attr == "value"


def _hash_sites(fn):
  """Expressions in fn that hash the .value of a folded constant."""
  sites = []
  for n in ast.walk(fn):
    if isinstance(n, ast.Assign):
      for t in n.targets:
        if isinstance(t, ast.Subscript) and _value_attr(t.slice):
          sites.append((n, f"{src(t.value)}[{src(t.slice)}] = ..."))
    elif isinstance(n, ast.Dict):
      for k in n.keys:
        if k is not None and _value_attr(k):
          sites.append((n, "{" + src(k) + ": ...}"))
    elif isinstance(n, ast.Set):
      for k in n.elts:
        if _value_attr(k):
          sites.append((n, "{" + src(k) + "}"))
    elif isinstance(n, ast.Call):
      d = dotted(n.func) or ""
      if d in ("set", "frozenset", "python_type") and n.args and \
          isinstance(n.args[0], ast.Attribute) and n.args[0].attr in ("values", "value"):
        sites.append((n, f"{d}({src(n.args[0])})"))
  return sites


def _qual(mod, fn):
  names = [fn.name]
  cur = fn
  while cur in mod.parent:
    cur = mod.parent[cur]
    if isinstance(cur, (ast.ClassDef, ast.FunctionDef)):
      names.append(cur.name)
  return ".".join(reversed(names))


@rule("R15.20", "C15", floor=3)
def r15_20(ctx):
  """Hashing a folded constant's value is covered by a TypeError handler."""
  mod = get_module(ctx, CF)
  fns = _functions(mod)
  by_name = {}
  for f in fns:
    by_name.setdefault(f.name, []).append(f)
  n_guarded_refs = 0
  for fn in fns:
    for node, what in _hash_sites(fn):
      guarded = _in_typeerror_try(mod, node, fn)
      how = "try/except TypeError in " + fn.name if guarded else None
      if not guarded:
        # every call of this function inside the module is itself guarded
        callers = []
        owner = mod.parent.get(fn)
        owner = owner.name if isinstance(owner, ast.ClassDef) else None
        for g in fns:
          for c in calls_in(g):
            if g is fn:
              continue
            if dotted(c.func) == fn.name and owner is None:
              callers.append((g, c))
            elif isinstance(c.func, ast.Attribute) and c.func.attr == fn.name and owner:
              # resolve the receiver: a local bound once to `Owner()` / another class
              recv = c.func.value
              cls = None
              if isinstance(recv, ast.Name):
                defs = [n.value for n in ast.walk(g) if isinstance(n, ast.Assign)
                        and any(isinstance(t, ast.Name) and t.id == recv.id for t in n.targets)]
                ctors = {dotted(d.func) for d in defs if isinstance(d, ast.Call)}
                if len(defs) == len(ctors) == 1:
                  cls = ctors.pop()
              npos = len(fn.args.args) - 1
              nreq = npos - len(fn.args.defaults)
              arity_ok = nreq <= len(c.args) + len(c.keywords) <= npos or \
                  fn.args.vararg is not None
              if (cls is None or cls == owner) and arity_ok:
                callers.append((g, c))   # unresolved receivers count as callers
        if callers and all(_in_typeerror_try(mod, c, g) for g, c in callers):
          guarded = True
          how = "all callers guarded: " + ", ".join(sorted({g.name for g, _ in callers}))
      if guarded:
        n_guarded_refs += 1
      ctx.check(guarded, f"{_qual(mod, fn)}:{what}", CF, node.lineno,
                f"`{what}` hashes the value of a folded constant; an "
                "unhashable literal such as `{[1]: 2}` makes this raise "
                "TypeError, and nothing on the way converts it to "
                "ConstantError (Stack.build does for set elements): the "
                "exception escapes the analysis", {"discharged_by": how})
  if n_guarded_refs == 0:
    raise AnalysisError("constant_folding: no guarded hashing site found "
                        "(the reference idiom `except TypeError -> ConstantError` is gone)")


def _typ_component_names(fn):
  """Local names bound to the second component of a `.typ` pair, with the
  name bound to the tag: {component_name: tag_name}; from `tag, et = x.typ`."""
  out = {}
  for n in ast.walk(fn):
    if isinstance(n, ast.Assign) and len(n.targets) == 1 and \
        isinstance(n.targets[0], ast.Tuple) and len(n.targets[0].elts) == 2 and \
        isinstance(n.value, ast.Attribute) and n.value.attr == "typ":
      a, b = n.targets[0].elts
      if isinstance(a, ast.Name) and isinstance(b, ast.Name):
        out[b.id] = (a.id, src(n.value))
  return out


@rule("R15.21", "C15", floor=2)
def r15_21(ctx):
  """`.__name__` of a typ component only under tag == 'prim'."""
  mod = get_module(ctx, CF)
  for fn in _functions(mod):
    comps = _typ_component_names(fn)
    for n in ast.walk(fn):
      if not (isinstance(n, ast.Attribute) and n.attr == "__name__"):
        continue
      base = n.value
      tag_exprs = None
      if isinstance(base, ast.Name) and base.id in comps:
        tag, typ_src = comps[base.id]
        tag_exprs = {tag, f"{typ_src}[0]"}
      elif isinstance(base, ast.Subscript) and isinstance(base.value, ast.Attribute) \
          and base.value.attr == "typ" and src(base.slice) == "1":
        tag_exprs = {f"{src(base.value)}[0]"}
      if tag_exprs is None:
        continue
      st = mod.enclosing_stmt(n)
      g = flow.guards_txt(mod.parent, st)
      g = list(g)
      cur = n
      while cur in mod.parent and cur is not st:   # conditional expressions
        par = mod.parent[cur]
        if isinstance(par, ast.IfExp) and cur is not par.test:
          g.append((src(par.test), cur is par.body))
        cur = par
      ok = any(p and t in {f"{e} == 'prim'" for e in tag_exprs} for t, p in g) or \
          any((not p) and t in {f"{e} != 'prim'" for e in tag_exprs} for t, p in g)
      ctx.check(ok, f"{_qual(mod, fn)}:{src(n)}", CF, n.lineno,
                f"`{src(n)}` assumes the type component is a class, which "
                f"holds only under tag 'prim' (for list/tuple/set/map it is a "
                f"frozenset of element types); the path condition is {g}: for "
                "input like `{**{1: 2}, **[1]}` building the error message "
                "itself raises AttributeError", {"guards": g})


VARIANTS = [
    {"name": "revert-D40-map-key-unguarded", "rule": "R15.20", "file": CF, "expect": "fire",
     "old": "      try:\n        ret.add(k_elt, v_elt)\n      except TypeError as e:\n        raise ConstantError(f'TypeError: {e.args[0]}', op) from e\n",
     "new": "      ret.add(k_elt, v_elt)\n"},
    {"name": "set-build-unguarded", "rule": "R15.20", "file": CF, "expect": "fire",
     "old": "      try:\n        value = python_type(collection.values)\n      except TypeError as e:\n        raise ConstantError(f'TypeError: {e.args[0]}', op) from e\n",
     "new": "      value = python_type(collection.values)\n"},
    {"name": "revert-D41-name-of-frozenset", "rule": "R15.21", "file": CF, "expect": "fire",
     "old": "              tag, et = map2.typ\n              name = et.__name__ if tag == 'prim' else tag\n",
     "new": "              name = map2.typ[1].__name__\n"},
    {"name": "twin-hash-guard-by-exception-base", "rule": "R15.20", "file": CF, "expect": "silent",
     "old": "      except TypeError as e:\n        raise ConstantError(f'TypeError: {e.args[0]}', op) from e\n      elements = collection.elements",
     "new": "      except (TypeError, ValueError) as e:\n        raise ConstantError(f'TypeError: {e.args[0]}', op) from e\n      elements = collection.elements"},
]
