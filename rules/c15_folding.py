"""C15 extension: the constant-folding pass must not let an exception escape.

constant_folding.py runs on every code object before analysis.  Compilable but
ill-typed literals (`{[1]: 2}`, `{**{1: 2}, **[1]}`) reach it; its own
convention is to turn such input into ConstantError (mapped to a reported
error by io.check_or_generate_pyi).  Two sibling-consistency rules:

R15.20  every place that *hashes* the value of a folded constant (uses it as a
        dict key or set element) is covered by a TypeError -> ConstantError
        handler, as Stack.build already is for sets;
R15.21  `<typ component>.__name__` is only taken where the type tag has been
        tested to be 'prim' (for every other tag the component is a frozenset
        of element types, not a class);
R15.22  the value-or-type router (`build_pyval`: the function that either
        materialises a constant from `const.value` through constant_to_var or
        recurses into the type-driven `build_folded_type`) takes the value
        route for EVERY constant that carries a value.  Raw code constants are
        pushed with a non-canonical shape (LOAD_CONST: `elements = typ[1]`,
        typestructs instead of _Constant objects; LIST_EXTEND re-tags every
        element of a constant tuple as 'prim', also nested tuples), so the
        type-driven path is only valid for constants without a value
        (value None).  A router that tests the value by truthiness sends the
        falsy constants 0, '', (), False down the type path: `[(), (1,),
        (1, 2)]` then indexes `primitive_instances[()]` -> KeyError escapes.
        The router's test is *evaluated* (rules/_peval.py) for falsy and
        truthy, flat and nested tuple constants under both tags they can carry.
"""
import ast

from sa.core import rule, AnalysisError
from sa.pyindex import get_module, dotted, src, calls_in
from sa import flow
from rules import _peval

CF = "pytype/constant_folding.py"


def _functions(mod):
  out = []
  for n in ast.walk(mod.tree):
    if isinstance(n, (ast.FunctionDef, ast.AsyncFunctionDef)):
      out.append(n)
  return out


def _in_typeerror_try(mod, node, fn):
  """node lies in the body of a `try` of fn that has an `except TypeError`
  (or a bare/Exception handler)."""
  cur = node
  while cur in mod.parent and cur is not fn:
    par = mod.parent[cur]
    if isinstance(par, ast.Try) and cur in par.body:
      for h in par.handlers:
        names = []
        if h.type is None:
          return True
        for t in (h.type.elts if isinstance(h.type, ast.Tuple) else [h.type]):
          names.append((dotted(t) or "").split(".")[-1])
        if any(n in ("TypeError", "Exception", "BaseException") for n in names):
          return True
    cur = par
  return False


def _value_attr(e):
  """`<x>.value` attribute access."""
  return isinstance(e, ast.Attribute) and e.attr == "value"


def _hash_sites(fn):
  """Expressions in fn that hash the .value of a folded constant."""
  sites = []
  for n in ast.walk(fn):
    if isinstance(n, ast.Assign):
      for t in n.targets:
        if isinstance(t, ast.Subscript) and _value_attr(t.slice):
          sites.append((n, f"{src(t.value)}[{src(t.slice)}] = ..."))
    elif isinstance(n, ast.Dict):
      for k in n.keys:
        if k is not None and _value_attr(k):
          sites.append((n, "{" + src(k) + ": ...}"))
    elif isinstance(n, ast.Set):
      for k in n.elts:
        if _value_attr(k):
          sites.append((n, "{" + src(k) + "}"))
    elif isinstance(n, ast.Call):
      d = dotted(n.func) or ""
      if d in ("set", "frozenset", "python_type") and n.args and \
          isinstance(n.args[0], ast.Attribute) and n.args[0].attr in ("values", "value"):
        sites.append((n, f"{d}({src(n.args[0])})"))
  return sites


def _qual(mod, fn):
  names = [fn.name]
  cur = fn
  while cur in mod.parent:
    cur = mod.parent[cur]
    if isinstance(cur, (ast.ClassDef, ast.FunctionDef)):
      names.append(cur.name)
  return ".".join(reversed(names))


@rule("R15.20", "C15", floor=3)
def r15_20(ctx):
  """Hashing a folded constant's value is covered by a TypeError handler."""
  mod = get_module(ctx, CF)
  fns = _functions(mod)
  by_name = {}
  for f in fns:
    by_name.setdefault(f.name, []).append(f)
  n_guarded_refs = 0
  for fn in fns:
    for node, what in _hash_sites(fn):
      guarded = _in_typeerror_try(mod, node, fn)
      how = "try/except TypeError in " + fn.name if guarded else None
      if not guarded:
        # every call of this function inside the module is itself guarded
        callers = []
        owner = mod.parent.get(fn)
        owner = owner.name if isinstance(owner, ast.ClassDef) else None
        for g in fns:
          for c in calls_in(g):
            if g is fn:
              continue
            if dotted(c.func) == fn.name and owner is None:
              callers.append((g, c))
            elif isinstance(c.func, ast.Attribute) and c.func.attr == fn.name and owner:
              # resolve the receiver: a local bound once to `Owner()` / another class
              recv = c.func.value
              cls = None
              if isinstance(recv, ast.Name):
                defs = [n.value for n in ast.walk(g) if isinstance(n, ast.Assign)
                        and any(isinstance(t, ast.Name) and t.id == recv.id for t in n.targets)]
                ctors = {dotted(d.func) for d in defs if isinstance(d, ast.Call)}
                if len(defs) == len(ctors) == 1:
                  cls = ctors.pop()
              npos = len(fn.args.args) - 1
              nreq = npos - len(fn.args.defaults)
              arity_ok = nreq <= len(c.args) + len(c.keywords) <= npos or \
                  fn.args.vararg is not None
              if (cls is None or cls == owner) and arity_ok:
                callers.append((g, c))   # unresolved receivers count as callers
        if callers and all(_in_typeerror_try(mod, c, g) for g, c in callers):
          guarded = True
          how = "all callers guarded: " + ", ".join(sorted({g.name for g, _ in callers}))
      if guarded:
        n_guarded_refs += 1
      ctx.check(guarded, f"{_qual(mod, fn)}:{what}", CF, node.lineno,
                f"`{what}` hashes the value of a folded constant; an "
                "unhashable literal such as `{[1]: 2}` makes this raise "
                "TypeError, and nothing on the way converts it to "
                "ConstantError (Stack.build does for set elements): the "
                "exception escapes the analysis", {"discharged_by": how})
  if n_guarded_refs == 0:
    raise AnalysisError("constant_folding: no guarded hashing site found "
                        "(the reference idiom `except TypeError -> ConstantError` is gone)")


def _typ_component_names(fn):
  """Local names bound to the second component of a `.typ` pair, with the
  name bound to the tag: {component_name: tag_name}; from `tag, et = x.typ`."""
  out = {}
  for n in ast.walk(fn):
    if isinstance(n, ast.Assign) and len(n.targets) == 1 and \
        isinstance(n.targets[0], ast.Tuple) and len(n.targets[0].elts) == 2 and \
        isinstance(n.value, ast.Attribute) and n.value.attr == "typ":
      a, b = n.targets[0].elts
      if isinstance(a, ast.Name) and isinstance(b, ast.Name):
        out[b.id] = (a.id, src(n.value))
  return out


@rule("R15.21", "C15", floor=2)
def r15_21(ctx):
  """`.__name__` of a typ component only under tag == 'prim'."""
  mod = get_module(ctx, CF)
  for fn in _functions(mod):
    comps = _typ_component_names(fn)
    for n in ast.walk(fn):
      if not (isinstance(n, ast.Attribute) and n.attr == "__name__"):
        continue
      base = n.value
      tag_exprs = None
      if isinstance(base, ast.Name) and base.id in comps:
        tag, typ_src = comps[base.id]
        tag_exprs = {tag, f"{typ_src}[0]"}
      elif isinstance(base, ast.Subscript) and isinstance(base.value, ast.Attribute) \
          and base.value.attr == "typ" and src(base.slice) == "1":
        tag_exprs = {f"{src(base.value)}[0]"}
      if tag_exprs is None:
        continue
      st = mod.enclosing_stmt(n)
      g = flow.guards_txt(mod.parent, st)
      g = list(g)
      cur = n
      while cur in mod.parent and cur is not st:   # conditional expressions
        par = mod.parent[cur]
        if isinstance(par, ast.IfExp) and cur is not par.test:
          g.append((src(par.test), cur is par.body))
        cur = par
      ok = any(p and t in {f"{e} == 'prim'" for e in tag_exprs} for t, p in g) or \
          any((not p) and t in {f"{e} != 'prim'" for e in tag_exprs} for t, p in g)
      ctx.check(ok, f"{_qual(mod, fn)}:{src(n)}", CF, n.lineno,
                f"`{src(n)}` assumes the type component is a class, which "
                f"holds only under tag 'prim' (for list/tuple/set/map it is a "
                f"frozenset of element types); the path condition is {g}: for "
                "input like `{**{1: 2}, **[1]}` building the error message "
                "itself raises AttributeError", {"guards": g})


# Tuple constants are the ones whose _Constant is not canonical (scalars pushed
# by LOAD_CONST are well-formed, so a scalar sent down the type route only
# loses its literal value, which C15 does not care about).  Falsy and truthy
# samples, flat and nested; `None` is the no-value sentinel, checked separately.
_SAMPLES = [("tuple", ()), ("tuple", (0,)), ("tuple", (1,)), ("tuple", ((),)),
            ("tuple", ((), 1)), ("tuple", (None,))]


def _value_route(fn, pname):
  """Exits of fn that hand `<pname>.value` to constant_to_var."""
  out = []
  for n in ast.walk(fn):
    if isinstance(n, ast.Return) and n.value is not None:
      for c in calls_in(n.value):
        if isinstance(c.func, ast.Attribute) and c.func.attr == "constant_to_var" and c.args \
            and src(c.args[0]) == f"{pname}.value":
          out.append(n)
  return out


def _routers(mod):
  """(function, parameter): a value-route exit plus an exit that passes the
  same constant on to a function of this module (the type-driven route)."""
  local_fns = {f.name for f in _functions(mod)}
  out = []
  for fn in _functions(mod):
    own = [n for n in ast.walk(fn) if mod.enclosing_function(n) is fn]
    for a in fn.args.args:
      p = a.arg
      vr = [r for r in _value_route(fn, p) if r in own]
      if not vr:
        continue
      tr = []
      for n in own:
        if isinstance(n, ast.Return) and n not in vr and n.value is not None:
          for c in calls_in(n.value):
            if (dotted(c.func) or "") in local_fns and any(
                isinstance(x, ast.Name) and x.id == p for x in c.args):
              tr.append(n)
      if tr:
        out.append((fn, p, vr, tr))
  return out


def _noncanonical_producers(mod):
  """`_Constant(typ, value, elements, op)` constructions whose elements are
  derived from the type structure, or whose 'prim' component is a name that was
  destructured from a typestruct while the original tag was discarded."""
  out = []
  for c in calls_in(mod.tree, name="_Constant"):
    if len(c.args) < 3:
      continue
    typ, _, elements = c.args[:3]
    tnames = {n.id for n in ast.walk(typ) if isinstance(n, ast.Name)}
    if tnames and isinstance(elements, ast.Subscript) and dotted(elements.value) in tnames:
      out.append((c, "elements taken from the typestruct"))
    if isinstance(typ, ast.Tuple) and len(typ.elts) == 2 and \
        isinstance(typ.elts[0], ast.Constant) and typ.elts[0].value == "prim" and \
        isinstance(typ.elts[1], ast.Name):
      comp = typ.elts[1].id
      cur = c
      while cur in mod.parent:
        cur = mod.parent[cur]
        if isinstance(cur, (ast.GeneratorExp, ast.ListComp)):
          for g in cur.generators:
            for t in ast.walk(g.target):
              if isinstance(t, ast.Tuple) and any(
                  isinstance(e, ast.Name) and e.id == comp for e in t.elts) and any(
                      isinstance(e, ast.Name) and e.id == "_" for e in t.elts):
                out.append((c, "component re-tagged 'prim' with the original tag discarded"))
          break
        if isinstance(cur, ast.stmt):
          break
  return out


@rule("R15.22", "C15", floor=12)
def r15_22(ctx):
  """Every constant that carries a value is materialised from the value."""
  mod = get_module(ctx, CF)
  routers = _routers(mod)
  if not routers:
    raise AnalysisError("constant_folding: no value-or-type router found (a function "
                        "returning constant_to_var(<p>.value) on one exit and passing <p> "
                        "to a function of the module on another)")
  prods = _noncanonical_producers(mod)
  if not prods:
    raise AnalysisError("constant_folding: no producer of non-canonical constants found; "
                        "the premise of R15.22 (raw constants are only valid through their "
                        "value) must be re-derived")
  cdef = mod.cls("_Constant")
  fields = [st.target.id for st in cdef.body
            if isinstance(st, ast.AnnAssign) and isinstance(st.target, ast.Name)]
  if fields[:3] != ["typ", "value", "elements"]:
    raise AnalysisError(f"_Constant fields are {fields}")
  ev = _peval.Evaluator(ctx)
  for fn, p, vr, tr in routers:
    q = _qual(mod, fn)

    def exits_for(tag, comp, v):
      const = _peval.Obj("_Constant", {"typ": (tag, comp), "value": v,
                                       "elements": None, "op": _peval.UNK}, mod)
      env = {a.arg: _peval.UNK for a in fn.args.args}
      env[p] = const
      try:
        return _peval.possible_exits(ev, mod, None, fn, env)
      except _peval.EvalError as e:
        raise AnalysisError(f"{q}: routing test for value {v!r}: {e}") from e

    # sanity: a constant without a value takes the type route
    ex = exits_for("list", frozenset(), None)
    if not ex or any(e in vr for e in ex):
      raise AnalysisError(f"{q}: a constant with value None is not sent down the type route; "
                          "the router is not understood")
    for kind, v in _SAMPLES:
      tags = ["prim", "tuple"] if isinstance(v, tuple) else ["prim"]
      for tag in tags:
        comp = type(v) if tag == "prim" and not isinstance(v, tuple) else ()
        ex = exits_for(tag, comp, v)
        by_value = [e for e in ex if e in vr]
        other = [e for e in ex if e not in vr]
        if by_value and other:
          raise AnalysisError(f"{q}: the route of a {kind} constant {v!r} depends on state "
                              "the analysis does not model")
        ctx.check(bool(by_value) and not other, f"{q}:by-value:{kind}:{v!r}:{tag}", CF,
                  (other[0] if other else fn).lineno,
                  f"a {kind} constant {v!r} (tag {tag!r}) carries a value but {q} sends it "
                  f"down the type-driven route (`{src(other[0])[:70] if other else ''}`): "
                  "constants made from raw code constants are only valid through their value "
                  f"({len(prods)} producers, e.g. line {prods[0][0].lineno}: {prods[0][1]}), "
                  "so the type route indexes tables by a malformed type component or unpacks "
                  "typestructs as constants and an internal exception escapes "
                  "(e.g. `x = [(), (1,), (1, 2)]` -> KeyError: ())",
                  {"producers": [(c.lineno, w) for c, w in prods],
                   "exits": [src(e)[:80] for e in ex if isinstance(e, ast.stmt)]})


_ROUTER = ("    if const.value is not None and const.tag in ('prim', 'tuple'):\n"
           "      return state, ctx.convert.constant_to_var(const.value)\n"
           "    else:\n"
           "      return build_folded_type(ctx, state, const)\n")

VARIANTS = [
    {"name": "seeded-C15-r2m1", "rule": "R15.22", "patch": "seeded/C15-r2m1/patch.diff",
     "expect": "fire"},
    # different shape: tuples no longer take the value route
    {"name": "router-prim-only", "rule": "R15.22", "file": CF, "expect": "fire",
     "old": "    if const.value is not None and const.tag in ('prim', 'tuple'):\n",
     "new": "    if const.value is not None and const.tag == 'prim':\n"},
    # different shape: early-return form with a length test
    {"name": "router-len-test", "rule": "R15.22", "file": CF, "expect": "fire",
     "old": _ROUTER,
     "new": ("    if const.tag == 'tuple' and not len(const.value or ()):\n"
             "      return build_folded_type(ctx, state, const)\n"
             "    if const.value is not None and const.tag in ('prim', 'tuple'):\n"
             "      return state, ctx.convert.constant_to_var(const.value)\n"
             "    return build_folded_type(ctx, state, const)\n")},
    {"name": "twin-router-early-return", "rule": "R15.22", "file": CF, "expect": "silent",
     "old": _ROUTER,
     "new": ("    has_value = not (const.value is None)\n"
             "    if not has_value or const.typ[0] not in {'tuple', 'prim'}:\n"
             "      return build_folded_type(ctx, state, const)\n"
             "    return state, ctx.convert.constant_to_var(const.value)\n")},
    {"name": "twin-router-renamed-param", "rule": "R15.22", "file": CF, "expect": "silent",
     "old": "  def build_pyval(state, const):\n" + _ROUTER,
     "new": ("  def build_pyval(state, c):\n"
             "    if c.tag in ('prim', 'tuple') and c.value is not None:\n"
             "      return state, ctx.convert.constant_to_var(c.value)\n"
             "    return build_folded_type(ctx, state, c)\n")},
    {"name": "twin-prim-arm-identity-test", "rule": "R15.22", "file": CF, "expect": "silent",
     "old": "  if tag == 'prim':\n    if const.value:\n",
     "new": "  if tag == 'prim':\n    if const.value is not None and const.value != '':\n"},
    {"name": "revert-D40-map-key-unguarded", "rule": "R15.20", "file": CF, "expect": "fire",
     "old": "      try:\n        ret.add(k_elt, v_elt)\n      except TypeError as e:\n        raise ConstantError(f'TypeError: {e.args[0]}', op) from e\n",
     "new": "      ret.add(k_elt, v_elt)\n"},
    {"name": "set-build-unguarded", "rule": "R15.20", "file": CF, "expect": "fire",
     "old": "      try:\n        value = python_type(collection.values)\n      except TypeError as e:\n        raise ConstantError(f'TypeError: {e.args[0]}', op) from e\n",
     "new": "      value = python_type(collection.values)\n"},
    {"name": "revert-D41-name-of-frozenset", "rule": "R15.21", "file": CF, "expect": "fire",
     "old": "              tag, et = map2.typ\n              name = et.__name__ if tag == 'prim' else tag\n",
     "new": "              name = map2.typ[1].__name__\n"},
    {"name": "twin-hash-guard-by-exception-base", "rule": "R15.20", "file": CF, "expect": "silent",
     "old": "      except TypeError as e:\n        raise ConstantError(f'TypeError: {e.args[0]}', op) from e\n      elements = collection.elements",
     "new": "      except (TypeError, ValueError) as e:\n        raise ConstantError(f'TypeError: {e.args[0]}', op) from e\n      elements = collection.elements"},
]
