"""C19 / R19.8 - what counts as "already has its build statement".

setup_build stops writing statements as soon as the set of files that have
their build statement covers the requested files (`if files >=
self.filenames: continue`).  "Analysed exactly once for errors" therefore
depends on what that set may gain: a module may enter it only in an iteration
that writes the module's *final* statement - the SINGLE_PASS or SECOND_PASS
one, whose output carries no suffix (R19.3) - never on its FIRST_PASS
statement (always `infer`, errors suppressed, output `x.pyi-1`): otherwise
the first passes over a cycle already satisfy the early exit and the
second-pass check statements of the requested files are skipped.

Decided, on PytypeRunner.setup_build:
  * the early exit: an `if` of the plan loop that compares a local set with
    the runner's requested files (the attribute __init__ fills from
    conf.inputs) by `>=`, `<=`, issuperset / issubset or an empty difference;
    the set is created empty outside the loop and only grows by `.add(..)`;
  * for each stage, which `.add` sites can execute under it: the path
    condition of the site is evaluated per stage - comparisons of the plan
    loop's stage variable with Stage constants (==, !=, is, in a tuple), and
    tests of a local whose value is decided by the stage (the suffix: `if
    not suffix`, `if suffix == ''`), whether written as if/elif arms, guard
    clauses (`continue`), asserts or conditional expressions; tests that do
    not depend on the stage are taken as satisfiable;
  * FIRST_PASS: no site may execute;  SINGLE_PASS / SECOND_PASS: a site that
    executes must add (an attribute of) the module whose statement the
    iteration writes, and the iteration must go on to write_build_statement
    on every path (or have called it already).
"""
import ast

from sa.core import rule, AnalysisError
from sa.pyindex import dotted, src
from sa import flow

from rules import _util_c16c19 as U
from rules.c19 import (
    RUN, RUNNER, _model, _stage_table, _stage_of, _is_loop_binding, _fold_attr,
    _possible_stages, _uses_of, _classify)


def _conj(test, pol):
  """Atomic (expr, polarity) facts implied by `test` having truth `pol`."""
  if isinstance(test, ast.BoolOp):
    if (isinstance(test.op, ast.And) and pol) or (isinstance(test.op, ast.Or) and not pol):
      for v in test.values:
        yield from _conj(v, pol)
      return
  if isinstance(test, ast.UnaryOp) and isinstance(test.op, ast.Not):
    yield from _conj(test.operand, not pol)
    return
  yield test, pol


def _requested_attr(mod):
  """Name of the runner attribute holding the files to type-check: the one
  __init__ fills from `<conf>.inputs`."""
  init = U.method(mod, RUNNER, "__init__")
  hits = set()
  for n in ast.walk(init):
    if isinstance(n, ast.Assign) and any(
        isinstance(x, ast.Attribute) and x.attr == "inputs" for x in ast.walk(n.value)):
      for t in n.targets:
        if isinstance(t, ast.Attribute) and dotted(t.value) == "self":
          hits.add(t.attr)
  if len(hits) != 1:
    raise AnalysisError(f"{RUNNER}.__init__: the attribute filled from conf.inputs "
                        f"is not unique: {sorted(hits)}")
  return hits.pop()


def _superset_test(t, req):
  """If `t` says '<local> covers self.<req>': the local's Name node."""
  is_req = lambda e: isinstance(e, ast.Attribute) and e.attr == req and dotted(e.value) == "self"
  if isinstance(t, ast.Compare) and len(t.ops) == 1:
    l, r, op = t.left, t.comparators[0], t.ops[0]
    if isinstance(op, ast.GtE) and isinstance(l, ast.Name) and is_req(r):
      return l
    if isinstance(op, ast.LtE) and is_req(l) and isinstance(r, ast.Name):
      return r
  if isinstance(t, ast.Call) and isinstance(t.func, ast.Attribute) and len(t.args) == 1:
    if t.func.attr == "issuperset" and isinstance(t.func.value, ast.Name) and is_req(t.args[0]):
      return t.func.value
    if t.func.attr == "issubset" and is_req(t.func.value) and isinstance(t.args[0], ast.Name):
      return t.args[0]
  return None


def _empty_difference(t, pol, req):
  """`not (self.<req> - <local>)`: the local's Name node."""
  if not pol and isinstance(t, ast.BinOp) and isinstance(t.op, ast.Sub) and \
      isinstance(t.left, ast.Attribute) and t.left.attr == req and \
      dotted(t.left.value) == "self" and isinstance(t.right, ast.Name):
    return t.right
  return None


class _IterFlow(flow.Flow):
  """sa.flow over one iteration of a loop body: `continue` / `break` that
  leave the iteration are exits."""

  def _stmt(self, s, st):
    if isinstance(s, (ast.Continue, ast.Break)) and not self._loops:
      self._record(self.before, s, st)
      self.exits.append(("continue" if isinstance(s, ast.Continue) else "break", s, st))
      return None
    return super()._stmt(s, st)


def _iteration(loop, gen, kill=None, mode="may"):
  body = ast.FunctionDef(name="<iteration>", args=ast.arguments(
      posonlyargs=[], args=[], kwonlyargs=[], kw_defaults=[], defaults=[]),
      body=loop.body, decorator_list=[], lineno=loop.lineno, col_offset=0)
  return _IterFlow(body, gen, kill, mode)


class _Stages:
  """Per-stage evaluation of path conditions inside the plan loop."""

  def __init__(self, m, stages):
    self.m, self.mod, self.rd, self.stages = m, m.mod, m.rd_sb, stages
    loop = m.loop
    # the stage variable: the loop-bound name compared with Stage constants
    cands = set()
    for n in ast.walk(loop):
      if isinstance(n, ast.Compare) and len(n.ops) == 1:
        for a in (n.left, n.comparators[0]):
          if isinstance(a, ast.Name) and self._stage_set_raw(n, a.id) is not None \
              and _is_loop_binding(m, self.rd.defs_of(a)):
            cands.add(a.id)
    if len(cands) != 1:
      raise AnalysisError(f"setup_build: stage variable of the plan loop not identified "
                          f"({sorted(cands)})")
    self.var = cands.pop()
    # locals of the loop whose value depends on the stage
    self.derived = set()
    for n in ast.walk(loop):
      if isinstance(n, ast.Assign):
        names = [t.id for t in n.targets if isinstance(t, ast.Name)]
        if not names:
          continue
        mentions = any(isinstance(x, ast.Name) and x.id == self.var for x in ast.walk(n.value))
        poss, _ = _possible_stages(m, self.rd, n, stages)
        if mentions or len(poss) != len(stages):
          self.derived.update(names)

  def _stage_set_raw(self, t, var):
    """Stages under which the comparison `t` of `var` is true (None: not one)."""
    if not (isinstance(t, ast.Compare) and len(t.ops) == 1):
      return None
    l, r, op = t.left, t.comparators[0], t.ops[0]
    allst = set(self.stages)
    if isinstance(op, (ast.Eq, ast.Is, ast.NotEq, ast.IsNot)):
      for a, b in ((l, r), (r, l)):
        s = _stage_of(self.mod, b, self.stages)
        if s and isinstance(a, ast.Name) and a.id == var:
          return {s} if isinstance(op, (ast.Eq, ast.Is)) else allst - {s}
    if isinstance(op, (ast.In, ast.NotIn)) and isinstance(r, (ast.Tuple, ast.List, ast.Set)) \
        and isinstance(l, ast.Name) and l.id == var:
      ss = [_stage_of(self.mod, e, self.stages) for e in r.elts]
      if all(ss):
        return set(ss) if isinstance(op, ast.In) else allst - set(ss)
    return None

  def _values(self, name_node):
    """stage -> set of constant values the stage-decided local can hold at
    this use (None: not understood)."""
    out = {s: set() for s in self.stages}
    for d in self.rd.defs_of(name_node):
      if d.kind != "assign" or d.path:
        return None
      arms = [(d.value, ())]
      if isinstance(d.value, ast.IfExp):
        arms = [(d.value.body, ((d.value.test, True),)),
                (d.value.orelse, ((d.value.test, False),))]
      for val, extra in arms:
        v = _fold_attr(self.mod, val)
        if not isinstance(v, (str, int, bool, type(None))):
          return None
        poss, _ = _possible_stages(self.m, self.rd, d.node, self.stages, extra)
        for s in poss:
          out[s].add(v)
    return out

  def truth(self, t):
    """stage -> set of truth values `t` can have ({True, False} = free)."""
    free = {s: {True, False} for s in self.stages}
    names = {n.id for n in ast.walk(t) if isinstance(n, ast.Name)}
    if not names & ({self.var} | self.derived):
      return free
    ss = self._stage_set_raw(t, self.var)
    if ss is not None:
      node = t.left if isinstance(t.left, ast.Name) and t.left.id == self.var else t.comparators[0]
      if isinstance(node, ast.Name) and _is_loop_binding(self.m, self.rd.defs_of(node)):
        return {s: {s in ss} for s in self.stages}
    # a stage-decided local: truthiness or comparison with a constant
    probe = None
    if isinstance(t, ast.Name) and t.id in self.derived:
      probe = (t, bool)
    elif isinstance(t, ast.Compare) and len(t.ops) == 1 and \
        isinstance(t.ops[0], (ast.Eq, ast.NotEq, ast.Is, ast.IsNot)):
      for a, b in ((t.left, t.comparators[0]), (t.comparators[0], t.left)):
        c = _fold_attr(self.mod, b)
        if isinstance(a, ast.Name) and a.id in self.derived and \
            isinstance(c, (str, int, bool, type(None))):
          eq = isinstance(t.ops[0], (ast.Eq, ast.Is))
          probe = (a, (lambda v, c=c, eq=eq: (v == c) == eq))
    if probe is not None:
      vals = self._values(probe[0])
      if vals is not None:
        return {s: {bool(probe[1](v)) for v in vals[s]} for s in self.stages}
    raise AnalysisError(
        f"setup_build: the test `{src(t)}` depends on the stage in a way that is "
        "not understood (stage comparisons and tests of a local whose constant "
        "value is chosen per stage are)")

  def may_execute(self, stmt):
    """Stages under which `stmt` can execute."""
    out = set(self.stages)
    for test, pol in flow.guards(self.mod.parent, stmt, stop=self.m.loop):
      for t, p in _conj(test, pol):
        tr = self.truth(t)
        out = {s for s in out if p in tr[s]}
    return out


@rule("R19.8", "C19", floor=4)
def r19_8(ctx):
  """Only a module's final statement counts towards the early exit."""
  m = _model(ctx)
  mod, rd, loop, sb = m.mod, m.rd_sb, m.loop, m.sb
  stages = _stage_table(mod)
  req = _requested_attr(mod)
  # -- the early exit -------------------------------------------------------------
  exits = []
  for n in ast.walk(loop):
    if isinstance(n, ast.Attribute) and n.attr == req and dotted(n.value) == "self":
      # the enclosing test
      cur, test_owner = n, None
      while cur in mod.parent and cur is not loop:
        par = mod.parent[cur]
        if isinstance(par, (ast.If, ast.While)) and par.test is cur:
          test_owner = par
          break
        if isinstance(par, ast.stmt):
          break
        cur = par
      if test_owner is None:
        raise AnalysisError(f"setup_build: self.{req} is used in the plan loop outside "
                            f"an `if` test (line {n.lineno})")
      found = None
      for t, p in _conj(test_owner.test, True):
        s = (_superset_test(t, req) if p else None) or _empty_difference(t, p, req)
        if s is not None and n in ast.walk(t):
          found = s
      if found is None:
        raise AnalysisError(f"setup_build: the test `{src(test_owner.test)}` on "
                            f"self.{req} is not an understood coverage test")
      exits.append((test_owner, found))
  if not exits:
    ctx.ok("setup_build:early-exit", RUN, loop.lineno,
           {"early_exit": False, "note": "every statement of the plan is written"})
    for s in sorted(stages):
      ctx.ok(f"setup_build:counted-as-built@{s}", RUN, loop.lineno, {"early_exit": False})
    return
  defs = set()
  for _, nm in exits:
    defs |= rd.defs_of(nm)
  if len(defs) != 1:
    raise AnalysisError("setup_build: the set compared with the requested files has "
                        f"{len(defs)} bindings")
  d = next(iter(defs))
  is_empty_set = isinstance(d.value, ast.Call) and dotted(d.value.func) == "set" \
      and not d.value.args and not d.value.keywords
  if d.kind != "assign" or d.path or not is_empty_set or d.node in set(ast.walk(loop)):
    raise AnalysisError(f"setup_build: `{d.name}` (compared with self.{req}) is not a "
                        f"local created as an empty set before the plan loop ({d.describe()})")
  sites = []
  for use in _uses_of(rd, sb, d):
    kind, node = _classify(mod, use)
    inside = use in set(ast.walk(loop))
    if kind == "method:add" and len(node.args) == 1 and not node.keywords:
      if not inside:
        raise AnalysisError(f"setup_build: `{d.name}` grows outside the plan loop")
      sites.append(node)
    elif kind in ("return", "contains", "iterate", "read") or \
        kind in ("method:issuperset", "method:issubset", "method:copy"):
      continue
    elif kind == "other" and isinstance(node, (ast.Compare, ast.BinOp, ast.BoolOp, ast.UnaryOp)):
      continue
    elif kind == "arg" and (
        dotted(node.func) in ("len", "sorted", "list", "frozenset", "bool")
        or (dotted(node.func) or "").startswith("logging.")
        or (isinstance(node.func, ast.Attribute)
            and node.func.attr in ("issubset", "issuperset", "isdisjoint"))):
      continue
    else:
      raise AnalysisError(f"setup_build: `{d.name}` (the early-exit set) is used as "
                          f"{kind} at line {use.lineno}: not understood")
  ctx.ok("setup_build:early-exit", RUN, exits[0][0].lineno,
         {"early_exit": True, "set": d.name, "covers": f"self.{req}",
          "test": src(exits[0][0].test), "add_sites": len(sites)})
  st = _Stages(m, stages)
  # the module whose statement the iteration writes
  w_mod = m.wbs_args[m.w_module]
  if not isinstance(w_mod, ast.Name) or not _is_loop_binding(m, rd.defs_of(w_mod)):
    raise AnalysisError("setup_build: the module passed to write_build_statement is not "
                        "the plan loop's element")
  mod_def = next(iter(rd.defs_of(w_mod)))
  wbs_stmt = mod.enclosing_stmt(m.wbs_call)

  def is_wbs(unit):
    return m.wbs_call in flow.unconditional_calls(unit)
  must = _iteration(loop, lambda u: ["written"] if is_wbs(u) else [], mode="must")
  info = []
  for call in sites:
    stmt = mod.enclosing_stmt(call)
    may = st.may_execute(stmt)
    # what is added
    names = [n for n in ast.walk(call.args[0]) if isinstance(n, ast.Name)]
    elem_ok = bool(names) and all(rd.defs_of(n) == {mod_def} for n in names)
    # does the iteration write the statement on every path through the site?
    before = must.before.get(stmt)
    if before is None:
      raise AnalysisError(f"setup_build: add site at line {stmt.lineno} is unreachable")
    pending = []
    if "written" not in before:
      f = _iteration(loop, lambda u, s=stmt: ["pending"] if u is s else [],
                     kill=lambda u: ["pending"] if is_wbs(u) else None, mode="may")
      pending = [f"{k}@{getattr(nd, 'lineno', loop.end_lineno)}" for k, nd, state in f.exits
                 if k != "raise" and state is not None and "pending" in state]
    info.append({"line": stmt.lineno, "stages": sorted(may), "element": src(call.args[0]),
                 "element_ok": elem_ok, "unwritten_exits": pending})
  for s in sorted(stages):
    here = [i for i in info if s in i["stages"]]
    construct = f"setup_build:counted-as-built@{s}"
    facts = {"add_sites": [i["line"] for i in here]}
    if s == "FIRST_PASS":
      ctx.check(not here, construct, RUN, here[0]["line"] if here else loop.lineno,
                f"`{d.name}.add(..)` at line(s) {[i['line'] for i in here]} can execute for "
                "a FIRST_PASS statement: the first pass of a cycle member writes only "
                "the suffixed stub (infer, errors suppressed), yet the module already "
                f"counts towards `{src(exits[0][0].test)}`; once the first passes cover "
                "the requested files every later statement - including the second-pass "
                "check of those very files - is skipped, so they are analysed for "
                "errors zero times", facts)
      continue
    wrong = [i for i in here if not i["element_ok"]]
    unwritten = [i for i in here if i["unwritten_exits"]]
    why = []
    if wrong:
      why.append(f"line {wrong[0]['line']} adds `{wrong[0]['element']}`, which is not the "
                 "module whose statement this iteration writes")
    if unwritten:
      why.append(f"after the add at line {unwritten[0]['line']} the iteration can end "
                 f"({', '.join(unwritten[0]['unwritten_exits'])}) without calling "
                 "write_build_statement: the module counts as built although its final "
                 "statement was not written")
    ctx.check(not why, construct, RUN, here[0]["line"] if here else loop.lineno,
              "; ".join(why), dict(facts, elements=sorted({i["element"] for i in here})))


# ---------------------------------------------------------------------------------
_CHAIN = ("      if stage == Stage.SINGLE_PASS:\n"
          "        files.add(module.full_path)\n"
          "        suffix = ''\n"
          "      elif stage == Stage.FIRST_PASS:\n"
          "        suffix = FIRST_PASS_SUFFIX\n"
          "      else:\n"
          "        assert stage == Stage.SECOND_PASS\n"
          "        files.add(module.full_path)\n"
          "        suffix = ''\n")
_CHAIN_NO_ADD = ("      if stage == Stage.SINGLE_PASS:\n"
                 "        suffix = ''\n"
                 "      elif stage == Stage.FIRST_PASS:\n"
                 "        suffix = FIRST_PASS_SUFFIX\n"
                 "      else:\n"
                 "        assert stage == Stage.SECOND_PASS\n"
                 "        suffix = ''\n")
_WBS = ("      module_to_output[module] = self.write_build_statement(\n"
        "          module, action, deps, imports, suffix)\n")
_GEN_DEFAULT = ("      if action == Action.GENERATE_DEFAULT:\n"
                "        module_to_output[module] = default_output\n"
                "        continue\n")


def _v(name, old, new, expect="fire"):
  return {"name": name, "rule": "R19.8", "file": RUN, "old": old, "new": new,
          "expect": expect}


VARIANTS = [
    {"name": "seeded-C19-r3m1", "rule": "R19.8", "patch": "seeded/C19-r3m1/patch.diff",
     "expect": "fire"},
    _v("first-pass-arm-counts-the-module", "        suffix = FIRST_PASS_SUFFIX\n",
       "        files.add(module.full_path)\n        suffix = FIRST_PASS_SUFFIX\n"),
    {"name": "module-counted-after-every-statement", "rule": "R19.8", "expect": "fire",
     "edits": [(RUN, _CHAIN, _CHAIN_NO_ADD),
               (RUN, _WBS, _WBS + "      files.add(module.full_path)\n")]},
    {"name": "module-counted-when-suffix-is-set", "rule": "R19.8", "expect": "fire",
     "edits": [(RUN, _CHAIN, _CHAIN_NO_ADD + "      if suffix:\n"
                "        files.add(module.full_path)\n")]},
    _v("module-counted-before-the-early-exit-test",
       "      if files >= self.filenames:\n",
       "      files.add(module.full_path)\n      if files >= self.filenames:\n"),
    # counted, but the iteration may end without writing the statement
    {"name": "module-counted-then-default-stub-skips-the-statement", "rule": "R19.8",
     "expect": "fire",
     "edits": [(RUN, _GEN_DEFAULT, ""), (RUN, _CHAIN, _CHAIN + _GEN_DEFAULT)]},
    _v("counts-the-dependencies-instead-of-the-module",
       "        assert stage == Stage.SECOND_PASS\n        files.add(module.full_path)\n",
       "        assert stage == Stage.SECOND_PASS\n"
       "        for dep in deps:\n          files.add(dep.full_path)\n"),
    # the same accounting, spelled differently
    {"name": "twin-counted-by-guard-on-final-stages", "rule": "R19.8", "expect": "silent",
     "edits": [(RUN, _CHAIN, _CHAIN_NO_ADD
                + "      if stage in (Stage.SINGLE_PASS, Stage.SECOND_PASS):\n"
                "        files.add(module.full_path)\n")]},
    {"name": "twin-counted-unless-first-pass-after-the-statement", "rule": "R19.8",
     "expect": "silent",
     "edits": [(RUN, _CHAIN, _CHAIN_NO_ADD),
               (RUN, _WBS, _WBS + "      if stage != Stage.FIRST_PASS:\n"
                "        files.add(module.full_path)\n")]},
    {"name": "twin-counted-when-suffix-is-empty", "rule": "R19.8", "expect": "silent",
     "edits": [(RUN, _CHAIN, _CHAIN_NO_ADD + "      if not suffix:\n"
                "        files.add(module.full_path)\n")]},
    {"name": "twin-suffix-by-conditional-expression-add-guarded", "rule": "R19.8",
     "expect": "silent",
     "edits": [(RUN, _CHAIN,
                "      suffix = FIRST_PASS_SUFFIX if stage == Stage.FIRST_PASS else ''\n"
                "      if suffix == '':\n        files.add(module.full_path)\n")]},
    {"name": "twin-early-exit-spelled-issubset", "rule": "R19.8", "expect": "silent",
     "edits": [(RUN, "      if files >= self.filenames:\n",
                "      if self.filenames.issubset(files):\n")]},
    _v("final-stage-decided-by-unknown-helper",
       "        assert stage == Stage.SECOND_PASS\n        files.add(module.full_path)\n",
       "        assert stage == Stage.SECOND_PASS\n"
       "        if self._is_final(stage):\n          files.add(module.full_path)\n", "error"),
]
