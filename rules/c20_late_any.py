"""C20 extension R20.26: no step of the stub chain exposes a bare Any/Never after the filter has run.

RemoveAnyNeverTransformer drops the annotations that ARE `Any` / `Never`.  It is one step of a chain of
transformers over the stub; a step that runs after it and replaces an annotation by one of its
sub-expressions (unwrapping `Annotated[X, 'property']` to `X`, `Optional[X]` to `X`, `typing.X` to `X`, ...)
can put a bare `Any` where the filter has already looked, and libcst then inserts it.  The obligation is on
the tree that reaches `_merge_csts(pyi_tree=...)`: no AnnAssign annotation and no FunctionDef return
annotation in it is a bare Any/Never - whatever the order and spelling of the steps.

Decided by model execution (the interpreter of rules/_util_c20.py over merge_sources, its helpers and the
callbacks of the module-local transformer classes; nothing of pytype or libcst is imported or run) on a
witness stub in which Any / Never stand in every sub-expression position of the annotation forms pytype's
printer writes: `Annotated[X, 'property']` (the attribute form of a property), `Optional[X]`, `list[X]`,
`dict[str, X]`, `Callable[..., X]`, `Union[int, X]`, `type[X]`, the qualified
`typing.Annotated[typing.X, 'property']`, and the bare `X` / `typing.X` themselves (control: the filter removes
them) - each as a class attribute, a module variable (with and without `= ...`), a method return and a
function return.  What the interpreter does not model is an ANALYSIS-ERROR.
"""
from sa.core import rule, AnalysisError
from rules import c20 as base
from rules._util_c20 import _N, _Source, _Interp, _unmodelled, _name, _dotted
from rules.c20_stub_classes import _sub, _ann, _line, _func, _cls, _assign, _walk, _text

MP = base.MP
BARE = ("Any", "Never")
_K = "HolderQz"


def _str(text):
  return _N("SimpleString", value=repr(text), evaluated_value=text)


def _forms():
  """label -> builder(X as a name) of the annotation expression."""
  q = lambda x: _dotted("typing", x)   # pylint: disable=unnecessary-lambda-assignment
  return {
      "X": _name,
      "typing.X": q,
      "Annotated[X, 'property']": lambda x: _sub(_name("Annotated"), _name(x), _str("property")),
      "typing.Annotated[typing.X, 'property']": lambda x: _sub(_dotted("typing", "Annotated"), q(x), _str("property")),
      "Optional[X]": lambda x: _sub(_name("Optional"), _name(x)),
      "list[X]": lambda x: _sub(_name("list"), _name(x)),
      "dict[str, X]": lambda x: _sub(_name("dict"), _name("str"), _name(x)),
      "Callable[..., X]": lambda x: _sub(_name("Callable"), _N("Ellipsis"), _name(x)),
      "Union[int, X]": lambda x: _sub(_name("Union"), _name("int"), _name(x)),
      "type[X]": lambda x: _sub(_name("type"), _name(x)),
  }


def _decl(name, ann, value=None):
  return _line(_N("AnnAssign", target=_name(name), annotation=_ann(ann), value=value))


def _witness():
  """(source, stub, {definition name: (form, X, position)})."""
  call = _N("Call", func=_name("property"), args=[])
  src_cls, src_mod, stub_cls, stub_mod, index = [], [], [], [], {}
  for i, (label, build) in enumerate(_forms().items()):
    for x in BARE:
      n = f"f{i}{x}Qz"
      index[f"a{n}"] = (label, x, "class attribute")
      index[f"v{n}"] = (label, x, "module variable")
      index[f"e{n}"] = (label, x, "module variable with a value")
      index[f"m{n}"] = (label, x, "method return")
      index[f"g{n}"] = (label, x, "function return")
      src_cls += [_assign(f"a{n}", call), _func(f"m{n}", [("self", None)], None)]
      src_mod += [_assign(f"v{n}", call), _assign(f"e{n}", call), _func(f"g{n}", [], None)]
      stub_cls += [_decl(f"a{n}", build(x)), _func(f"m{n}", [("self", None)], build(x))]
      stub_mod += [_decl(f"v{n}", build(x)), _decl(f"e{n}", build(x), _N("Ellipsis")),
                   _func(f"g{n}", [], build(x))]
  source = _N("Module", body=[_cls(_K, [], src_cls)] + src_mod, header=[], footer=[])
  stub = _N("Module", body=[_cls(_K, [], stub_cls)] + stub_mod, header=[], footer=[])
  return source, stub, index


def _is_bare(expr):
  if not isinstance(expr, _N):
    raise _unmodelled(f"an annotation of the filtered stub is {expr!r}")
  if expr.cls == "Attribute":
    v, a = expr.fields.get("value"), expr.fields.get("attr")
    if isinstance(v, _N) and v.cls == "Name" and v.fields.get("value") in ("typing", "typing_extensions"):
      expr = a
  return isinstance(expr, _N) and expr.cls == "Name" and expr.fields.get("value") in BARE


def _annotations(tree):
  """(definition name, kind, annotation expression) for the variable / return annotations the stub reader sees."""
  for _, n in _walk(tree):
    if n.cls == "AnnAssign":
      t, a = n.fields.get("target"), n.fields.get("annotation")
      who = t.fields.get("value") if isinstance(t, _N) and t.cls == "Name" else _text(t)
    elif n.cls == "FunctionDef":
      t, a = n.fields.get("name"), n.fields.get("returns")
      who = t.fields.get("value") if isinstance(t, _N) else repr(t)
    else:
      continue
    if a is None:
      continue
    if not isinstance(a, _N) or a.cls != "Annotation":
      raise _unmodelled(f"the annotation of {who} in the filtered stub is {a!r}")
    yield who, n.cls, a.fields.get("annotation")


def _run(ctx):
  def go():
    it = _Interp(ctx)
    source, stub, index = _witness()
    try:
      it.call(it.m.ms, None, [], {"py": _Source(source, "py"), "pyi": _Source(stub, "pyi")})
    except RecursionError as e:
      raise _unmodelled("recursion too deep") from e
    if it.captured is None:
      raise _unmodelled("_merge_csts was not reached")
    got = it.captured.get("pyi_tree")
    if not isinstance(got, _N) or got.cls != "Module":
      raise _unmodelled(f"the stub handed to _merge_csts is {got!r}")
    return {"merged_with": got, "index": index, "trace": it.trace, "stub": stub}
  return ctx.memo(("c20la", "run"), go)


@rule("R20.26", "C20", floor=10)
def r20_26(ctx):
  """The stub libcst gets holds no bare Any/Never variable or return annotation, however it was wrapped."""
  run = _run(ctx)
  index = run["index"]
  m = base._model(ctx)
  before = {who for who, _, _ in _annotations(run["stub"])}
  if before != set(index):
    raise AnalysisError("R20.26: the witness stub is not read back as built")
  per_form = {label: {"bare": [], "kept": 0, "dropped": 0} for label in _forms()}
  seen = set()
  for who, kind, expr in _annotations(run["merged_with"]):
    if who not in index:
      raise AnalysisError(f"R20.26: the filtered stub annotates {who}, which the witness does not define")
    seen.add(who)
    label, x, position = index[who]
    if _is_bare(expr):
      per_form[label]["bare"].append({"definition": who, "position": position, "stub_says": label.replace("X", x),
                                      "libcst_gets": _text(expr)})
    else:
      per_form[label]["kept"] += 1
  for who in set(index) - seen:
    per_form[index[who][0]]["dropped"] += 1
  for label, r in per_form.items():
    facts = {"annotations_in_witness": r["kept"] + r["dropped"] + len(r["bare"]), "still_annotated": r["kept"],
             "annotation_removed": r["dropped"], "pipeline": run["trace"]}
    name = f"merge_sources:no-bare-Any-or-Never-reaches-libcst[{label}]"
    if r["bare"]:
      ex = r["bare"][0]
      ctx.bad(name, MP, m.call.lineno,
              f"for the stub annotation `{ex['stub_says']}` ({ex['position']} {ex['definition']}) the tree handed to "
              f"_merge_csts says `{ex['libcst_gets']}`: a step of the stub chain produced a bare Any/Never after "
              f"(or without) the Any/Never filter, and libcst inserts it as a variable / return annotation "
              f"({len(r['bare'])} of {facts['annotations_in_witness']} annotations of this form)",
              dict(facts, counterexample=ex, bare=len(r["bare"])))
    else:
      ctx.ok(name, MP, m.call.lineno, facts)


_CHAIN = ("        pyi_cst.visit(RemoveAnyNeverTransformer())\n"
          "        .visit(RemoveTrivialTypesTransformer())\n")
_UNWRAP = '''class UnwrapOptionalTransformer(cst.CSTTransformer):
  """`Optional[X]` -> `X` on variables."""

  def leave_AnnAssign(self, original_node, updated_node):
    annotation = updated_node.annotation.annotation
    if (
        isinstance(annotation, cst.Subscript)
        and isinstance(annotation.value, cst.Name)
        and annotation.value.value == "Optional"
    ):
      inner = annotation.slice[0].slice
      if isinstance(inner, cst.Index):
        return updated_node.with_changes(annotation=cst.Annotation(annotation=inner.value))
    return updated_node


'''
_DEQUAL = '''class DropAnnotatedTransformer(cst.CSTTransformer):
  """`Annotated[X, ...]` -> `X` wherever it occurs."""

  def leave_Subscript(self, original_node, updated_node):
    if isinstance(updated_node.value, cst.Name) and updated_node.value.value == "Annotated":
      inner = updated_node.slice[0].slice
      if isinstance(inner, cst.Index):
        return inner.value
    return updated_node


'''
_RETURNS = '''class UnwrapTypeTransformer(cst.CSTTransformer):
  """`-> type[X]` -> `-> X`."""

  def leave_FunctionDef(self, original_node, updated_node):
    returns = updated_node.returns
    if returns is None or not isinstance(returns.annotation, cst.Subscript):
      return updated_node
    sub = returns.annotation
    inner = sub.slice[0].slice
    if isinstance(sub.value, cst.Name) and sub.value.value == "type" and isinstance(inner, cst.Index):
      return updated_node.with_changes(returns=returns.with_changes(annotation=inner.value))
    return updated_node


'''
_MS = "def merge_sources(*, py: str, pyi: str) -> str:\n"


def _v(name, edits, expect="fire"):
  return {"name": name, "rule": "R20.26", "edits": [(MP, o, n) for o, n in edits], "expect": expect}


VARIANTS = [
    {"name": "seeded-C20-r4m1", "rule": "R20.26", "patch": "seeded/C20-r4m1/patch.diff", "expect": "fire"},
    _v("optional-unwrapped-after-the-filter",
       [(_MS, _UNWRAP + _MS), (_CHAIN, _CHAIN + "        .visit(UnwrapOptionalTransformer())\n")]),
    _v("annotated-wrapper-dropped-by-an-expression-callback-after-the-filter",
       [(_MS, _DEQUAL + _MS),
        ("        pyi_cst.visit(RemoveAnyNeverTransformer())\n",
         "        pyi_cst.visit(RemoveAnyNeverTransformer())\n        .visit(DropAnnotatedTransformer())\n"),
        ]),
    _v("twin-annotated-wrapper-dropped-before-the-filter",
       [(_MS, _DEQUAL + _MS),
        ("        pyi_cst.visit(RemoveAnyNeverTransformer())\n",
         "        pyi_cst.visit(DropAnnotatedTransformer())\n        .visit(RemoveAnyNeverTransformer())\n"),
        ], expect="silent"),
    _v("return-type-unwrapped-as-the-last-step",
       [(_MS, _RETURNS + _MS),
        ("        .visit(QuoteNestedClassesTransformer(stub_class_collector.class_names))\n",
         "        .visit(QuoteNestedClassesTransformer(stub_class_collector.class_names))\n"
         "        .visit(UnwrapTypeTransformer())\n")]),
    _v("any-filter-left-out-of-the-chain",
       [("        pyi_cst.visit(RemoveAnyNeverTransformer())\n        .visit(RemoveTrivialTypesTransformer())\n",
         "        pyi_cst.visit(RemoveTrivialTypesTransformer())\n")]),
    _v("twin-optional-unwrapped-before-the-filter",
       [(_MS, _UNWRAP + _MS),
        ("        pyi_cst.visit(RemoveAnyNeverTransformer())\n",
         "        pyi_cst.visit(UnwrapOptionalTransformer())\n        .visit(RemoveAnyNeverTransformer())\n")],
       expect="silent"),
    _v("twin-return-type-unwrapped-then-filtered-again",
       [(_MS, _RETURNS + _MS),
        ("        .visit(QuoteNestedClassesTransformer(stub_class_collector.class_names))\n",
         "        .visit(QuoteNestedClassesTransformer(stub_class_collector.class_names))\n"
         "        .visit(UnwrapTypeTransformer())\n        .visit(RemoveAnyNeverTransformer())\n")],
       expect="silent"),
    _v("twin-any-filter-as-the-last-step",
       [("        pyi_cst.visit(RemoveAnyNeverTransformer())\n        .visit(RemoveTrivialTypesTransformer())\n",
         "        pyi_cst.visit(RemoveTrivialTypesTransformer())\n"),
        ("        .visit(QuoteNestedClassesTransformer(stub_class_collector.class_names))\n",
         "        .visit(QuoteNestedClassesTransformer(stub_class_collector.class_names))\n"
         "        .visit(RemoveAnyNeverTransformer())\n")], expect="silent"),
]
