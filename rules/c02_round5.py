"""C02 extension (round 5): which annotation governs, and which members a
protocol requires.

R2.50  The annotation history of a variable is append-only and node-scoped.
       `abstract_utils.Local.typ` is the record of every annotation a name
       was declared with; `Local.get_type(node)` asks it which declaration is
       visible at `node`, and `vm._apply_annotation` checks the stored value
       against exactly that type.  So, in `Local.__init__` and `Local.update`
       (the writers):
         * on EVERY path on which an annotation is handed in (the annotation
           parameter is truthy) and the opcode is new (not the re-entry guard
           `op in self.<seen>`), the annotation is bound into `self.typ` at
           the declaring node with an empty source set - by
           `self.typ.AddBinding(P, [], N)` or
           `self.typ = <..>.NewVariable([P], [], N)`.  The path condition of
           the binding may mention nothing else: every other test is treated
           as a free boolean and each of its outcomes must still bind;
         * the history is replaced (`self.typ = NewVariable(..)`) only when
           it is empty, and extended (`AddBinding`) only when it is not;
         * it is never cleared while an annotation is handed in.
       and in `Local.get_type` (the reader) the history is consulted only
       through `self.typ.Data(<node parameter>)` - never through the
       node-blind `.data` / `.bindings`.

R2.51  Override folds over the MRO run base-first.  A loop over a class's
       MRO that both *adds to* and *removes from* the same accumulator lets
       each visited class overrule what the classes visited before it
       decided (a protocol adds the members it requires, an implementing
       class strikes the members it provides).  Python gives the last word
       to the most derived class, so such a fold must iterate
       `reversed(X.mro)` (or `X.mro[::-1]`); iterating derived-first lets
       `object` - visited last - strike `__hash__`, `__eq__`, ... from every
       protocol, and an order unrelated to derivation (`sorted`, `set`) is
       just as wrong.  Instances today: Class._init_protocol_attributes (the
       member set `matcher._match_against_protocol` enforces) and
       Class._init_abstract_methods (which feeds the protocol attributes of
       the typing.* protocols).
"""
import ast
import itertools

from sa.core import rule, AnalysisError
from sa.pyindex import get_module, dotted, src, walk_no_nested
from sa import flow

AU = "pytype/abstract/abstract_utils.py"
CM = "pytype/abstract/class_mixin.py"
_FUNCS = (ast.FunctionDef, ast.AsyncFunctionDef)


# ---------------------------------------------------------------- R2.50 ------

_HISTORY = "typ"                       # Local.typ: the annotation history
_READS = {"Data"}                      # node-scoped read
_BLIND = {"data", "bindings", "Bindings"}   # node-blind reads


def _is_self_attr(e, attr=None):
  return (isinstance(e, ast.Attribute) and isinstance(e.value, ast.Name)
          and e.value.id == "self" and (attr is None or e.attr == attr))


def _params(fn):
  a = fn.args
  return [p.arg for p in a.posonlyargs + a.args + a.kwonlyargs][1:]


def _empty_seq(e):
  return isinstance(e, (ast.List, ast.Tuple)) and not e.elts


def _call_args(call, names):
  """positional/keyword arguments of `call` by the given parameter names."""
  out = {}
  for i, a in enumerate(call.args):
    if isinstance(a, ast.Starred) or i >= len(names):
      raise AnalysisError(f"cannot bind arguments of {src(call)}")
    out[names[i]] = a
  for k in call.keywords:
    if k.arg is None or k.arg not in names or k.arg in out:
      raise AnalysisError(f"cannot bind arguments of {src(call)}")
    out[k.arg] = k.value
  return out


def _binding_of(call, kind, where):
  """-> (P name, N name) of an AddBinding / NewVariable call, or AnalysisError."""
  if kind == "grow":
    a = _call_args(call, ["data", "source_set", "where"])
    datum = a.get("data")
  else:
    a = _call_args(call, ["bindings", "source_set", "where"])
    b = a.get("bindings")
    if not (isinstance(b, (ast.List, ast.Tuple)) and len(b.elts) == 1):
      raise AnalysisError(f"{where}: NewVariable bindings not a one-element list: {src(call)}")
    datum = b.elts[0]
  if "source_set" not in a or "where" not in a or not _empty_seq(a["source_set"]):
    raise AnalysisError(f"{where}: source set / node of {src(call)} not understood")
  if not isinstance(datum, ast.Name) or not isinstance(a["where"], ast.Name):
    raise AnalysisError(f"{where}: datum / node of {src(call)} is not a plain name")
  return datum.id, a["where"].id


def _value_alternatives(v):
  """`a if c else b` -> [([(c, True)], a), ([(c, False)], b)]."""
  if isinstance(v, ast.IfExp):
    out = []
    for pol, branch in ((True, v.body), (False, v.orelse)):
      for g, x in _value_alternatives(branch):
        out.append(([(v.test, pol)] + g, x))
    return out
  return [([], v)]


def _history_sites(mod, fn, where):
  """Every write of self.typ in fn: (kind, stmt, extra guards, P, N)."""
  sites = []
  for n in walk_no_nested(fn):
    if isinstance(n, (ast.AugAssign, ast.AnnAssign, ast.Delete, ast.NamedExpr)):
      tgts = n.targets if isinstance(n, ast.Delete) else [n.target]
      for t in tgts:
        if any(_is_self_attr(x, _HISTORY) for x in ast.walk(t)):
          if isinstance(n, ast.AnnAssign) and n.value is not None and n.simple == 0 \
              and _is_self_attr(n.target, _HISTORY):
            for g, v in _value_alternatives(n.value):
              sites.append(_classify_store(n, g, v, where))
          else:
            raise AnalysisError(f"{where}: write of self.{_HISTORY} not understood: {src(n)}")
    elif isinstance(n, ast.Assign):
      flat = []
      for t in n.targets:
        flat.extend(ast.walk(t))
      if any(_is_self_attr(x, _HISTORY) for x in flat):
        if len(n.targets) != 1 or not _is_self_attr(n.targets[0], _HISTORY):
          raise AnalysisError(f"{where}: write of self.{_HISTORY} not understood: {src(n)}")
        for g, v in _value_alternatives(n.value):
          sites.append(_classify_store(n, g, v, where))
    elif isinstance(n, ast.Call) and isinstance(n.func, ast.Attribute) \
        and _is_self_attr(n.func.value, _HISTORY):
      m = n.func.attr
      if m == "AddBinding":
        stmt = mod.enclosing_stmt(n)
        if not (isinstance(stmt, ast.Expr) and stmt.value is n):
          raise AnalysisError(f"{where}: AddBinding inside an expression: {src(stmt)}")
        p, nn = _binding_of(n, "grow", where)
        sites.append(("grow", stmt, [], p, nn))
      elif m not in _READS and m not in _BLIND and m not in ("Filter", "FilteredData"):
        raise AnalysisError(f"{where}: self.{_HISTORY}.{m}(..) not understood")
  # aliases of the history (x = self.typ; x.AddBinding(..)) are not followed
  for n in walk_no_nested(fn):
    if isinstance(n, (ast.Assign, ast.AnnAssign, ast.NamedExpr)) and n.value is not None \
        and _is_self_attr(n.value, _HISTORY):
      raise AnalysisError(f"{where}: self.{_HISTORY} is aliased: {src(n)}")
  return sites


def _classify_store(stmt, g, v, where):
  if isinstance(v, ast.Constant) and v.value is None:
    return ("clear", stmt, g, None, None)
  if isinstance(v, ast.Call) and isinstance(v.func, ast.Attribute) and v.func.attr == "NewVariable":
    p, nn = _binding_of(v, "replace", where)
    return ("replace", stmt, g, p, nn)
  raise AnalysisError(f"{where}: value stored in self.{_HISTORY} not understood: {src(v)}")


class _Formula:
  """Truth-functional reading of guard expressions over opaque atoms."""

  def __init__(self, pname, seen_keys):
    self.pname = pname
    self.seen_keys = seen_keys
    self.atoms = {}           # key -> printable

  def key(self, e):
    """-> (atom key, polarity) for a leaf test."""
    pol = True
    if isinstance(e, ast.Compare) and len(e.ops) == 1 and isinstance(e.ops[0], (ast.Is, ast.IsNot)) \
        and isinstance(e.comparators[0], ast.Constant) and e.comparators[0].value is None:
      pol = isinstance(e.ops[0], ast.IsNot)
      e = e.left
    elif isinstance(e, ast.Compare) and len(e.ops) == 1 and isinstance(e.ops[0], ast.NotIn):
      pol = False
      e = ast.Compare(left=e.left, ops=[ast.In()], comparators=e.comparators)
    elif isinstance(e, ast.Call) and dotted(e.func) == "bool" and len(e.args) == 1 and not e.keywords:
      e = e.args[0]
    k = ast.dump(e)
    self.atoms.setdefault(k, src(e))
    return k, pol

  def ev(self, e, val):
    if isinstance(e, ast.UnaryOp) and isinstance(e.op, ast.Not):
      return not self.ev(e.operand, val)
    if isinstance(e, ast.BoolOp):
      rs = [self.ev(x, val) for x in e.values]
      return all(rs) if isinstance(e.op, ast.And) else any(rs)
    if isinstance(e, ast.Constant):
      return bool(e.value)
    k, pol = self.key(e)
    return val[k] == pol

  def collect(self, e):
    if isinstance(e, ast.UnaryOp) and isinstance(e.op, ast.Not):
      self.collect(e.operand)
    elif isinstance(e, ast.BoolOp):
      for x in e.values:
        self.collect(x)
    elif not isinstance(e, ast.Constant):
      self.key(e)


def _seen_guard_keys(fn, params):
  """dump() of `X in self.F` for parameters X that fn records in self.F."""
  out = set()
  for n in walk_no_nested(fn):
    if isinstance(n, ast.Call) and isinstance(n.func, ast.Attribute) \
        and n.func.attr in ("append", "add") and _is_self_attr(n.func.value) \
        and len(n.args) == 1 and isinstance(n.args[0], ast.Name) and n.args[0].id in params:
      e = ast.Compare(left=ast.Name(id=n.args[0].id, ctx=ast.Load()), ops=[ast.In()],
                      comparators=[ast.Attribute(value=ast.Name(id="self", ctx=ast.Load()),
                                                 attr=n.func.value.attr, ctx=ast.Load())])
      out.add(ast.dump(e))
  return out


def _only_ifs_above(mod, stmt, fn, where):
  n = stmt
  while mod.parent.get(n) is not fn:
    n = mod.parent.get(n)
    if n is None:
      raise AnalysisError(f"{where}: statement outside the function")
    if not isinstance(n, ast.If):
      raise AnalysisError(f"{where}: annotation history written under {type(n).__name__}")


def _decide_writer(ctx, mod, qual, fresh):
  fn = mod.func(qual)
  params = _params(fn)
  sites = _history_sites(mod, fn, qual)
  binds = [s for s in sites if s[0] in ("grow", "replace")]
  if not binds:
    raise AnalysisError(f"{qual}: no binding of an annotation into self.{_HISTORY} found "
                        "(moved into a helper?)")
  ps = {s[3] for s in binds}
  ns = {s[4] for s in binds}
  if len(ps) != 1 or len(ns) != 1:
    raise AnalysisError(f"{qual}: bindings disagree on annotation / node: {sorted(ps)} {sorted(ns)}")
  pname, nname = ps.pop(), ns.pop()
  if pname not in params or nname not in params or pname == nname:
    raise AnalysisError(f"{qual}: bound annotation {pname!r} / node {nname!r} are not parameters")
  for n in walk_no_nested(fn):
    if isinstance(n, ast.Name) and isinstance(n.ctx, (ast.Store, ast.Del)) and n.id in (pname, nname):
      raise AnalysisError(f"{qual}: parameter {n.id} is re-bound")
  seen = _seen_guard_keys(fn, params)
  F = _Formula(pname, seen)
  pkey, _ = F.key(ast.Name(id=pname, ctx=ast.Load()))
  hkey, _ = F.key(ast.Attribute(value=ast.Name(id="self", ctx=ast.Load()), attr=_HISTORY, ctx=ast.Load()))
  conds = []
  for kind, stmt, extra, _, _ in sites:
    _only_ifs_above(mod, stmt, fn, qual)
    g = list(flow.guards(mod.parent, stmt, stop=fn)) + list(extra)
    for t, _ in g:
      F.collect(t)
    conds.append((kind, stmt, g))
  keys = sorted(F.atoms)
  if len(keys) > 10:
    raise AnalysisError(f"{qual}: too many distinct tests ({len(keys)})")
  free = [k for k in keys if k != pkey and k not in seen]
  problems = []
  for bits in itertools.product((False, True), repeat=len(free)):
    val = dict(zip(free, bits))
    val[pkey] = True
    for k in seen:
      val[k] = False
    if fresh:
      val[hkey] = False
    ran = [(kind, stmt) for kind, stmt, g in conds if all(F.ev(t, val) == pol for t, pol in g)]
    world = ", ".join(f"{F.atoms[k]}={val[k]}" for k in free if not (fresh and k == hkey)) or "always"
    kinds = [k for k, _ in ran]
    nb = sum(1 for k in kinds if k in ("grow", "replace"))
    if nb > 1:
      raise AnalysisError(f"{qual}: more than one binding on one path ({world})")
    if "clear" in kinds:
      problems.append(f"the history is cleared although an annotation is declared ({world})")
    elif nb == 0:
      problems.append(f"a declared annotation is not bound into self.{_HISTORY} when {world}")
    elif "replace" in kinds and not fresh and val[hkey]:
      problems.append(f"an existing history is overwritten by a new variable ({world}): "
                      "declarations visible from other branches are lost")
    elif "grow" in kinds and (fresh or not val[hkey]):
      problems.append(f"AddBinding on an empty history ({world})")
  problems = sorted(set(problems))
  ctx.check(not problems, f"{qual}:binds-every-declaration", AU, fn.lineno,
            "; ".join(problems[:3]),
            {"annotation": pname, "node": nname, "tests": [F.atoms[k] for k in keys],
             "sites": [k for k, _, _ in conds]})


def _decide_reader(ctx, mod, qual):
  fn = mod.func(qual)
  params = _params(fn)
  reads, blind = [], []
  for n in walk_no_nested(fn):
    if not _is_self_attr(n, _HISTORY):
      continue
    par = mod.parent.get(n)
    if isinstance(n.ctx, ast.Store):
      raise AnalysisError(f"{qual}: writes self.{_HISTORY}")
    if isinstance(par, ast.Attribute) and par.value is n:
      gp = mod.parent.get(par)
      if par.attr in _READS and isinstance(gp, ast.Call) and gp.func is par:
        a = _call_args(gp, ["where"])
        w = a.get("where")
        if not (isinstance(w, ast.Name) and w.id in params):
          raise AnalysisError(f"{qual}: node of {src(gp)} is not a parameter")
        reads.append(src(gp))
      elif par.attr in _BLIND:
        blind.append(src(par))
      else:
        raise AnalysisError(f"{qual}: self.{_HISTORY}.{par.attr} not understood")
    elif isinstance(par, (ast.If, ast.UnaryOp, ast.BoolOp, ast.IfExp, ast.Compare)):
      continue          # presence test
    else:
      raise AnalysisError(f"{qual}: use of self.{_HISTORY} not understood: {src(par)}")
  if not reads and not blind:
    raise AnalysisError(f"{qual}: does not read self.{_HISTORY}")
  ctx.check(not blind and reads, f"{qual}:reads-at-node", AU, fn.lineno,
            f"the governing annotation is read node-blind ({', '.join(blind)}): a declaration made "
            "in another branch, or shadowed by a later one, would govern",
            {"reads": reads, "blind": blind})


@rule("R2.50", "C02", floor=3)
def r2_50(ctx):
  """Every declared annotation is bound, at its node, into Local.typ (append-only history), and is read back by visibility at the query node."""
  mod = get_module(ctx, AU)
  _decide_writer(ctx, mod, "Local.__init__", fresh=True)
  _decide_writer(ctx, mod, "Local.update", fresh=False)
  _decide_reader(ctx, mod, "Local.get_type")


# ---------------------------------------------------------------- R2.51 ------

_FOLD_FILES = [CM, "pytype/abstract/_classes.py", AU, "pytype/matcher.py",
               "pytype/attribute.py"]
_FOLD_ANCHORS = {(CM, "Class._init_protocol_attributes"), (CM, "Class._init_abstract_methods")}
_GROW_M = {"add", "update", "append", "extend", "union"}
_SHRINK_M = {"discard", "remove", "difference_update", "intersection_update", "pop",
             "clear", "difference", "intersection"}
_COMPS = (ast.SetComp, ast.ListComp, ast.DictComp, ast.GeneratorExp)


def _mentions_mro(e, fn=None, loop=None, depth=0):
  """e reads some `.mro`, directly or through a local bound once before the loop."""
  for x in ast.walk(e):
    if isinstance(x, ast.Attribute) and x.attr == "mro":
      return True
    if isinstance(x, ast.Name) and fn is not None and depth < 4:
      v = _single_def(fn, x.id, loop)
      if v is not None and _mentions_mro(v, fn, loop, depth + 1):
        return True
  return False


def _single_def(fn, name, before):
  defs = [n for n in walk_no_nested(fn)
          if isinstance(n, ast.Assign) and len(n.targets) == 1
          and isinstance(n.targets[0], ast.Name) and n.targets[0].id == name]
  stores = [n for n in walk_no_nested(fn) if isinstance(n, ast.Name)
            and isinstance(n.ctx, ast.Store) and n.id == name]
  if len(defs) == 1 and len(stores) == 1 and defs[0].lineno < before.lineno:
    return defs[0].value
  return None


def _direction(e, fn, loop, depth=0):
  """-> 'derived-first' | 'base-first' | 'unordered' | None (not understood)."""
  flip = {"derived-first": "base-first", "base-first": "derived-first", "unordered": "unordered", None: None}
  if depth > 6:
    return None
  if isinstance(e, ast.Attribute) and e.attr == "mro":
    return "derived-first"
  if isinstance(e, ast.Call) and isinstance(e.func, ast.Attribute) and e.func.attr == "mro" \
      and not e.args and not e.keywords:
    return "derived-first"
  if isinstance(e, ast.Call) and isinstance(e.func, ast.Name) and not e.keywords and len(e.args) == 1:
    if e.func.id == "reversed":
      return flip[_direction(e.args[0], fn, loop, depth + 1)]
    if e.func.id in ("list", "tuple", "iter"):
      return _direction(e.args[0], fn, loop, depth + 1)
  if isinstance(e, ast.Call) and isinstance(e.func, ast.Name) \
      and e.func.id in ("sorted", "set", "frozenset") and e.args:
    return "unordered" if _direction(e.args[0], fn, loop, depth + 1) else None
  if isinstance(e, ast.Subscript) and isinstance(e.slice, ast.Slice):
    s = e.slice
    inner = _direction(e.value, fn, loop, depth + 1)
    if s.step is None:
      return inner
    step = s.step
    neg = isinstance(step, ast.UnaryOp) and isinstance(step.op, ast.USub) \
        and isinstance(step.operand, ast.Constant) and step.operand.value == 1
    one = isinstance(step, ast.Constant) and step.value == 1
    if one:
      return inner
    if neg:
      return flip[inner]
    return None
  if isinstance(e, ast.Name):
    v = _single_def(fn, e.id, loop)
    if v is not None:
      return _direction(v, fn, loop, depth + 1)
  return None


def _accumulator_ops(loop):
  """name -> set of 'grow' / 'shrink' / 'other' for locals updated in the loop body."""
  ops = {}

  def note(name, kind):
    ops.setdefault(name, set()).add(kind)

  def expr_kind(name, v):
    """kind of `name = v` when v is computed from name itself."""
    uses = [x for x in ast.walk(v) if isinstance(x, ast.Name) and x.id == name]
    if not uses:
      return None
    if isinstance(v, _COMPS):
      g = v.generators
      if len(g) == 1 and isinstance(g[0].iter, ast.Name) and g[0].iter.id == name:
        elt_is_var = isinstance(v, ast.DictComp) or (
            isinstance(v.elt, ast.Name) and isinstance(g[0].target, ast.Name)
            and v.elt.id == g[0].target.id)
        if elt_is_var:
          return "shrink" if g[0].ifs else None
      return "other"
    if isinstance(v, ast.BinOp) and isinstance(v.left, ast.Name) and v.left.id == name:
      if isinstance(v.op, (ast.BitOr, ast.Add)):
        return "grow"
      if isinstance(v.op, (ast.Sub, ast.BitAnd)):
        return "shrink"
    if isinstance(v, ast.Call) and isinstance(v.func, ast.Attribute) \
        and isinstance(v.func.value, ast.Name) and v.func.value.id == name:
      if v.func.attr in ("union",):
        return "grow"
      if v.func.attr in ("difference", "intersection"):
        return "shrink"
    if isinstance(v, ast.Call) and isinstance(v.func, ast.Name) \
        and v.func.id in ("set", "list", "frozenset", "tuple", "dict") and len(v.args) == 1:
      return expr_kind(name, v.args[0])
    return "other"

  for stmt in loop.body:
    for n in [stmt] + list(walk_no_nested(stmt)):
      if isinstance(n, ast.AugAssign) and isinstance(n.target, ast.Name):
        if isinstance(n.op, (ast.BitOr, ast.Add)):
          note(n.target.id, "grow")
        elif isinstance(n.op, (ast.Sub, ast.BitAnd)):
          note(n.target.id, "shrink")
        else:
          note(n.target.id, "other")
      elif isinstance(n, ast.Assign) and len(n.targets) == 1 and isinstance(n.targets[0], ast.Name):
        k = expr_kind(n.targets[0].id, n.value)
        if k:
          note(n.targets[0].id, k)
      elif isinstance(n, ast.Call) and isinstance(n.func, ast.Attribute) \
          and isinstance(n.func.value, ast.Name):
        if n.func.attr in _GROW_M - {"union"}:
          note(n.func.value.id, "grow")
        elif n.func.attr in _SHRINK_M - {"difference", "intersection"}:
          note(n.func.value.id, "shrink")
  return ops


def _assigned_outside(fn, loop, name):
  inside = set(map(id, ast.walk(loop)))
  return any(isinstance(n, ast.Name) and n.id == name and isinstance(n.ctx, ast.Store)
             and id(n) not in inside for n in walk_no_nested(fn))


def _qual(mod, fn):
  names = [fn.name]
  n = mod.parent.get(fn)
  while n is not None:
    if isinstance(n, (ast.ClassDef,) + _FUNCS):
      names.append(n.name)
    n = mod.parent.get(n)
  return ".".join(reversed(names))


@rule("R2.51", "C02", floor=2)
def r2_51(ctx):
  """A loop over an MRO that both adds to and removes from one accumulator (an override fold) iterates base-first."""
  decided = set()
  for rel in _FOLD_FILES:
    mod = get_module(ctx, rel)
    for loop in ast.walk(mod.tree):
      if not isinstance(loop, ast.For):
        continue
      fn = mod.enclosing_function(loop)
      if fn is None:
        continue
      it = loop.iter
      if not _mentions_mro(it, fn, loop):
        continue
      ops = _accumulator_ops(loop)
      folds = sorted(a for a, k in ops.items()
                     if {"grow", "shrink"} <= k and _assigned_outside(fn, loop, a))
      if not folds:
        continue
      q = _qual(mod, fn)
      if any("other" in ops[a] for a in folds):
        raise AnalysisError(f"{q}: update of {folds} in the MRO loop not understood")
      d = _direction(it, fn, loop)
      if d is None:
        raise AnalysisError(f"{q}: iteration order of `{src(it)}` not understood")
      construct = f"{q}:{'+'.join(folds)}"
      decided.add((rel, q))
      ctx.check(d == "base-first", construct, rel, loop.lineno,
                f"the override fold over `{src(it)}` runs {d}: the classes visited last "
                "(the most basic ones, e.g. object) overrule the more derived ones",
                {"iter": src(it), "order": d, "accumulators": folds})
  missing = sorted(_FOLD_ANCHORS - decided)
  if missing:
    raise AnalysisError(f"no add/remove fold over the MRO recognised in {missing}")


VARIANTS = [
    # ---- R2.50 -------------------------------------------------------------
    {"name": "r2.50-skip-final-redeclaration", "rule": "R2.50", "file": AU, "expect": "fire",
     "old": "    self.final = final\n    if typ:\n      if self.typ:\n",
     "new": "    self.final = final\n    if typ and not final:\n      if self.typ:\n"},
    {"name": "r2.50-always-new-variable", "rule": "R2.50", "file": AU, "expect": "fire",
     "old": "      if self.typ:\n        self.typ.AddBinding(typ, [], node)\n      else:\n        self.typ = self.ctx.program.NewVariable([typ], [], node)\n",
     "new": "      self.typ = self.ctx.program.NewVariable([typ], [], node)\n"},
    {"name": "r2.50-bind-only-first-per-node", "rule": "R2.50", "file": AU, "expect": "fire",
     "old": "      if self.typ:\n        self.typ.AddBinding(typ, [], node)\n      else:\n",
     "new": "      if self.typ:\n        if len(self.typ.bindings) < 2:\n          self.typ.AddBinding(typ, [], node)\n      else:\n"},
    {"name": "r2.50-ctor-drops-when-no-value", "rule": "R2.50", "file": AU, "expect": "fire",
     "old": "    self.final = False\n    if typ:\n      self.typ = ctx.program.NewVariable([typ], [], node)\n",
     "new": "    self.final = False\n    if typ and orig:\n      self.typ = ctx.program.NewVariable([typ], [], node)\n"},
    {"name": "r2.50-get-type-node-blind", "rule": "R2.50", "file": AU, "expect": "fire",
     "old": "    values = self.typ.Data(node)\n    if len(values) > 1:\n      self.ctx.errorlog.ambiguous_annotation",
     "new": "    values = self.typ.data\n    if len(values) > 1:\n      self.ctx.errorlog.ambiguous_annotation"},
    {"name": "twin-r2.50-early-return-and-is-none", "rule": "R2.50", "file": AU, "expect": "silent",
     "old": "    if typ:\n      if self.typ:\n        self.typ.AddBinding(typ, [], node)\n      else:\n        self.typ = self.ctx.program.NewVariable([typ], [], node)\n    if orig:\n      self.orig = orig\n",
     "new": "    if orig:\n      self.orig = orig\n    if not typ:\n      return\n    if self.typ is None:\n      self.typ = self.ctx.program.NewVariable(\n          [typ], [], node\n      )\n    else:\n      self.typ.AddBinding(typ, [], node)\n"},
    {"name": "twin-r2.50-keywords-and-conjunction", "rule": "R2.50", "file": AU, "expect": "silent",
     "old": "    if typ:\n      if self.typ:\n        self.typ.AddBinding(typ, [], node)\n      else:\n        self.typ = self.ctx.program.NewVariable([typ], [], node)\n",
     "new": "    if typ and self.typ:\n      self.typ.AddBinding(typ, source_set=[], where=node)\n    elif typ:\n      program = self.ctx.program\n      self.typ = program.NewVariable(bindings=[typ], source_set=[], where=node)\n"},
    {"name": "twin-r2.50-ctor-ternary", "rule": "R2.50", "file": AU, "expect": "silent",
     "old": "    if typ:\n      self.typ = ctx.program.NewVariable([typ], [], node)\n    else:\n      # Creating too many variables bloats the typegraph, hurting performance,\n      # so we use None instead of an empty variable.\n      self.typ = None\n",
     "new": "    self.typ = ctx.program.NewVariable([typ], [], node) if typ else None\n"},
    {"name": "twin-r2.50-get-type-renamed", "rule": "R2.50", "file": AU, "expect": "silent",
     "old": "    values = self.typ.Data(node)\n    if len(values) > 1:\n      self.ctx.errorlog.ambiguous_annotation(self.stack, values, name)\n      return self.ctx.convert.unsolvable\n    elif values:\n      return values[0]\n",
     "new": "    visible = self.typ.Data(node)\n    if len(visible) > 1:\n      self.ctx.errorlog.ambiguous_annotation(self.stack, visible, name)\n      return self.ctx.convert.unsolvable\n    elif visible:\n      return visible[0]\n"},
    # ---- R2.51 -------------------------------------------------------------
    {"name": "r2.51-abstract-methods-derived-first", "rule": "R2.51", "file": CM, "expect": "fire",
     "old": "    abstract_methods = set()\n    for cls in reversed(self.mro):\n",
     "new": "    abstract_methods = set()\n    for cls in self.mro:\n"},
    {"name": "r2.51-protocol-attrs-sorted", "rule": "R2.51", "file": CM, "expect": "fire",
     "old": "    protocol_attributes = set()\n    for cls in reversed(self.mro):\n",
     "new": "    protocol_attributes = set()\n    for cls in sorted(self.mro, key=lambda c: c.full_name):\n"},
    {"name": "r2.51-protocol-attrs-double-reverse-alias", "rule": "R2.51", "file": CM, "expect": "fire",
     "old": "    protocol_attributes = set()\n    for cls in reversed(self.mro):\n",
     "new": "    protocol_attributes = set()\n    bases_first = self.mro[::-1]\n    for cls in reversed(bases_first):\n"},
    {"name": "twin-r2.51-slice-reverse", "rule": "R2.51", "file": CM, "expect": "silent",
     "old": "    protocol_attributes = set()\n    for cls in reversed(self.mro):\n",
     "new": "    protocol_attributes = set()\n    for cls in self.mro[::-1]:\n"},
    {"name": "twin-r2.51-alias-and-renamed-accumulator", "rule": "R2.51", "file": CM, "expect": "silent",
     "old": "    protocol_attributes = set()\n    for cls in reversed(self.mro):\n      if not isinstance(cls, Class):\n        continue\n      if cls.is_protocol:\n        # Add protocol attributes defined by this class.\n        protocol_attributes |= {a for a in cls.protocol_attributes if a in cls}\n      else:\n        # Remove attributes implemented by this class.\n        protocol_attributes = {a for a in protocol_attributes if a not in cls}\n    self.protocol_attributes = protocol_attributes\n",
     "new": "    required = set()\n    bases_first = list(reversed(self.mro))\n    for klass in bases_first:\n      if not isinstance(klass, Class):\n        continue\n      if not klass.is_protocol:\n        required -= {a for a in required if a in klass}\n      else:\n        required.update(a for a in klass.protocol_attributes if a in klass)\n    self.protocol_attributes = required\n"},
    {"name": "twin-r2.51-abstract-methods-difference", "rule": "R2.51", "file": CM, "expect": "silent",
     "old": "      abstract_methods = {\n          m\n          for m in abstract_methods\n          if m not in cls or m in cls.abstract_methods\n      }\n",
     "new": "      abstract_methods = abstract_methods - {\n          m\n          for m in abstract_methods\n          if m in cls and m not in cls.abstract_methods\n      }\n"},
]
