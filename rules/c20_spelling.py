"""C20 extension (R20.25): the stub printer spells a class nested in a class of
the unit by its full dotted name - the only spelling merge-pyi hides.

Two sites have to agree.  merge_pyi.QuoteNestedClassesTransformer protects
libcst from references to nested classes by quoting *Attribute chains rooted
at a stub class* (what R20.23 decides on its witness).  That is enough only
while pytype's stub printer writes every such reference as `Outer.Inner`:
PrintVisitor.VisitNamedType / VisitClassType, for a name that
`LookupItemRecursive(self._unit, ..)` resolves, must return `node.name`
itself.  A shortened or relative spelling (`Inner` inside the body of
`class Outer`, the way hand-written stubs put it) is still a valid stub, passes
the hiding transformer as a bare Name, is resolved by libcst's scope analysis
to `Outer.Inner`, read as "Inner from module Outer", and the merge adds
`from Outer import Inner` to the source.

Decided by abstract evaluation of the printer method and of every helper
(method of PrintVisitor or module-level function of printer.py) a value
derived from the node reaches, over all paths, in the world "node.name is a
dotted name that the unit lookup resolves":

  value domain  NAME (node.name itself) | DER (a string computed from it:
                slices, partitions, removeprefix, f-strings, ..) | constants |
                unknown;
  tests         `"." in NAME` holds, NAME == <constant without a dot> does
                not, DER == <constant> does not (the constants the printer
                compares parts of a name with are foreign module names, not
                classes of the unit - see ASSUMPTIONS), everything else can go
                both ways;
  try           the handlers of the `try` that holds the unit lookup are not
                taken (the lookup resolves);
  loops         zero or one iteration, names bound inside are unknown after.

Every value a judged method can return must be NAME.  DER -> violation; a
constant or an unknown value -> ANALYSIS-ERROR (never a verdict).
"""
import ast

from sa.core import rule, AnalysisError
from sa.pyindex import get_module, dotted, src

PR = "pytype/pytd/printer.py"
PV = "PrintVisitor"
JUDGED = ("VisitNamedType", "VisitClassType")

# atoms of the value domain
NAME = ("name",)
NODE = ("node",)
SELF = ("self",)
TRUE = ("const", True)
FALSE = ("const", False)


def _der(desc, where=None):
  return ("der", desc, where)


def _unk(desc):
  return ("unk", str(desc)[:60])


_PREDICATES = {"startswith", "endswith", "isidentifier", "isupper", "islower", "isalpha",
               "isalnum", "isdigit", "isspace", "istitle", "isascii", "isnumeric",
               "isdecimal", "isprintable", "count", "find", "rfind", "index", "rindex",
               "__contains__"}


def _interesting(vals):
  for a in vals:
    if a[0] in ("name", "node", "der", "unitrel"):
      return True
    if a[0] == "tuple" and any(_interesting(x) for x in a[1]):
      return True
  return False


def _local_mro(mod, cname):
  out, todo = [], [cname]
  while todo:
    c = todo.pop(0)
    if c in out or c not in mod.classes:
      continue
    out.append(c)
    todo += [dotted(b) for b in mod.classes[c].bases if dotted(b) in mod.classes]
  return out


class _Frame:
  def __init__(self, fn):
    self.fn = fn
    self.returns = set()


class Spelling:
  """Abstract evaluation of PrintVisitor methods (see the module docstring)."""

  def __init__(self, mod):
    self.mod = mod
    self.methods = {}
    for k in reversed(_local_mro(mod, PV)):
      self.methods.update(mod.methods(k))
    self.memo = {}
    self.active = set()
    self.lookups = []      # unit lookups evaluated with a value derived from the node
    self.followed = []     # helpers entered
    self.steps = 0

  # -- calls ---------------------------------------------------------------------------
  def call(self, fn, args, is_method):
    """Set of atoms `fn` can return for the abstract positional `args`
    (a list of frozensets; `self` excluded)."""
    key = (fn, tuple(args))
    if key in self.memo:
      return self.memo[key]
    if key in self.active:
      return frozenset([_unk(f"recursive call of {fn.name}")])
    a = fn.args
    if a.vararg or a.kwarg or a.posonlyargs or a.kwonlyargs:
      return frozenset([_unk(f"{fn.name}(..)")])
    params = [p.arg for p in a.args]
    env = {}
    if is_method:
      if not params:
        return frozenset([_unk(f"{fn.name}(..)")])
      env[params[0]] = frozenset([SELF])
      params = params[1:]
    if len(args) > len(params):
      return frozenset([_unk(f"{fn.name}(..)")])
    for p, v in zip(params, args):
      env[p] = v
    ndef = len(a.defaults)
    for i, p in enumerate(params[len(args):], start=len(args)):
      j = i - (len(params) - ndef)
      if j < 0:
        return frozenset([_unk(f"{fn.name}(..)")])
      env[p] = self.eval(a.defaults[j], {})
    self.active.add(key)
    frame = _Frame(fn)
    try:
      rest = self.block(fn.body, [env], frame)
      if rest:
        frame.returns.add(("const", None))
    finally:
      self.active.discard(key)
    out = frozenset(frame.returns)
    self.memo[key] = out
    if fn.name not in self.followed:
      self.followed.append(fn.name)
    return out

  # -- statements ----------------------------------------------------------------------
  def tick(self):
    self.steps += 1
    if self.steps > 400000:
      raise AnalysisError("printer: spelling analysis exceeds its step budget")

  def block(self, stmts, envs, frame):
    for s in stmts:
      nxt = []
      for env in envs:
        nxt += self.stmt(s, env, frame)
      envs = nxt
      if len(envs) > 256:
        raise AnalysisError(f"printer: too many paths through {frame.fn.name}")
      if not envs:
        break
    return envs

  def _holds_lookup(self, stmts):
    for s in stmts:
      for n in ast.walk(s):
        if isinstance(n, ast.Call) and self._is_lookup(n):
          return True
    return False

  @staticmethod
  def _is_lookup(call):
    return (dotted(call.func) or "").split(".")[-1] == "LookupItemRecursive" \
        and len(call.args) >= 2 and src(call.args[0]) == "self._unit"

  def _assigned(self, stmts):
    out = set()
    for s in stmts:
      for n in ast.walk(s):
        if isinstance(n, ast.Name) and not isinstance(n.ctx, ast.Load):
          out.add(n.id)
    return out

  def bind(self, t, v, env):
    if isinstance(t, ast.Name):
      env[t.id] = v
    elif isinstance(t, (ast.Tuple, ast.List)):
      tuples = [a for a in v if a[0] == "tuple" and len(a[1]) == len(t.elts)]
      if len(v) == 1 and tuples and not any(isinstance(e, ast.Starred) for e in t.elts):
        for e, x in zip(t.elts, tuples[0][1]):
          self.bind(e, x, env)
      else:
        part = frozenset([_der(f"part of {self._descr(v)}")]) if _interesting(v) \
            else frozenset([_unk("unpacked value")])
        for e in t.elts:
          self.bind(e.value if isinstance(e, ast.Starred) else e, part, env)
    # attribute / subscript targets: state of the printer, not a spelling

  def stmt(self, s, env, frame):
    self.tick()
    if isinstance(s, ast.Return):
      frame.returns |= self.eval(s.value, env) if s.value is not None else {("const", None)}
      return []
    if isinstance(s, ast.Raise):
      if s.exc is not None:
        self.eval(s.exc, env)
      return []
    if isinstance(s, (ast.Pass, ast.Import, ast.ImportFrom, ast.Global, ast.Nonlocal)):
      return [env]
    if isinstance(s, ast.Expr):
      self.eval(s.value, env)
      return [env]
    if isinstance(s, ast.Assert):
      self.eval(s.test, env)
      return [env]
    if isinstance(s, (ast.Assign, ast.AnnAssign)):
      if s.value is None:
        return [env]
      v = self.eval(s.value, env)
      env = dict(env)
      for t in (s.targets if isinstance(s, ast.Assign) else [s.target]):
        self.bind(t, v, env)
      return [env]
    if isinstance(s, ast.AugAssign):
      cur = self.eval(s.target, env) if isinstance(s.target, ast.Name) else frozenset()
      v = self.eval(s.value, env)
      if isinstance(s.target, ast.Name):
        env = dict(env)
        env[s.target.id] = frozenset([_der(src(s)[:60], frame.fn.name)]) \
            if _interesting(cur | v) else frozenset([_unk(src(s))])
      return [env]
    if isinstance(s, ast.If):
      t = self.truth(self.eval(s.test, env))
      out = []
      if True in t:
        out += self.block(s.body, [dict(env)], frame)
      if False in t:
        out += self.block(s.orelse, [dict(env)], frame)
      return out
    if isinstance(s, (ast.While, ast.For, ast.AsyncFor)):
      env1 = dict(env)
      if isinstance(s, ast.While):
        t = self.truth(self.eval(s.test, env))
      else:
        it = self.eval(s.iter, env)
        self.bind(s.target, frozenset([_der(f"element of {self._descr(it)}")])
                  if _interesting(it) else frozenset([_unk("loop variable")]), env1)
        t = {True, False}
      out = []
      if False in t:
        out += self.block(s.orelse, [dict(env)], frame)
      if True in t:
        widened = self._assigned(s.body)
        for e in self.block(s.body, [env1], frame):
          e = dict(e)
          for n in widened:
            if n in e and not (len(e[n]) == 1 and e[n] == env.get(n)):
              e[n] = frozenset([_unk(f"{n} after a loop")]) if not _interesting(e[n]) \
                  else frozenset([_der(f"{n} after a loop", frame.fn.name)]) | \
                  frozenset(a for a in e[n] if a == NAME)
          out += self.block(s.orelse, [e], frame)
      return out
    if isinstance(s, (ast.With, ast.AsyncWith)):
      env = dict(env)
      for item in s.items:
        self.eval(item.context_expr, env)
        if item.optional_vars is not None:
          self.bind(item.optional_vars, frozenset([_unk("context value")]), env)
      return self.block(s.body, [env], frame)
    if isinstance(s, ast.Try):
      ok = self.block(s.body, [dict(env)], frame)
      ok = self.block(s.orelse, ok, frame) if ok else []
      out = list(ok)
      if not self._holds_lookup(s.body):
        # any statement of the body may have raised
        for h in s.handlers:
          e = dict(env)
          for n in self._assigned(s.body):
            e[n] = frozenset([_unk(f"{n} in an except handler")])
          if h.name:
            e[h.name] = frozenset([_unk("exception")])
          out += self.block(h.body, [e], frame)
      return self.block(s.finalbody, out, frame) if s.finalbody else out
    if isinstance(s, (ast.FunctionDef, ast.AsyncFunctionDef, ast.ClassDef)):
      env = dict(env)
      env[s.name] = frozenset([_unk(f"local definition {s.name}")])
      return [env]
    if isinstance(s, ast.Delete):
      return [env]
    raise AnalysisError(f"printer: statement `{src(s)[:50]}` of {frame.fn.name} is not "
                        "modelled by the spelling analysis")

  # -- expressions ---------------------------------------------------------------------
  @staticmethod
  def _descr(vals):
    for a in sorted(vals, key=repr):
      if a == NAME:
        return "node.name"
      if a[0] == "der":
        return a[1]
    return "a value"

  def truth(self, vals):
    out = set()
    for a in vals:
      if a[0] == "const":
        out.add(bool(a[1]))
      elif a in (NAME, NODE, SELF):
        out.add(True)          # a dotted name is not empty
      else:
        out |= {True, False}
    return out or {True, False}

  def _bools(self, ts):
    return frozenset(TRUE if t else FALSE for t in ts)

  def _compare1(self, op, left, right, where):
    """Truth values of `left <op> right` in the world of the module docstring."""
    out = set()
    for a in left:
      for b in right:
        if isinstance(op, (ast.Eq, ast.NotEq)):
          x, y = (a, b) if b[0] == "const" else (b, a)
          if y[0] == "const" and x[0] == "const":
            r = {x[1] == y[1]}
          elif y[0] == "const" and isinstance(y[1], str) and x == NAME:
            r = {False} if "." not in y[1] else {True, False}
          elif y[0] == "const" and isinstance(y[1], str) and x[0] == "der":
            r = {False}        # a part of the name against a foreign module name
          elif y[0] == "const" and y[1] is None and x in (NAME, NODE) or \
              y[0] == "const" and y[1] is None and x[0] == "der":
            r = {False}
          else:
            r = {True, False}
          out |= r if isinstance(op, ast.Eq) else {not t for t in r}
        elif isinstance(op, (ast.Is, ast.IsNot)):
          if b == ("const", None) and (a in (NAME, NODE, SELF) or a[0] == "der"):
            r = {False}
          elif a[0] == "const" and b[0] == "const" and (a[1] is None or b[1] is None):
            r = {a[1] is b[1]}
          else:
            r = {True, False}
          out |= r if isinstance(op, ast.Is) else {not t for t in r}
        elif isinstance(op, (ast.In, ast.NotIn)):
          if a[0] == "const" and isinstance(a[1], str) and b == NAME:
            r = {True} if a[1] in (".", "") else {True, False}
          elif b[0] == "tuple" and a[0] == "der" and all(
              len(x) == 1 and next(iter(x))[0] == "const" for x in b[1]):
            r = {False}        # a part of the name in a tuple of foreign module names
          elif b[0] == "tuple" and a == NAME and all(
              len(x) == 1 and next(iter(x))[0] == "const"
              and isinstance(next(iter(x))[1], str) and "." not in next(iter(x))[1]
              for x in b[1]):
            r = {False}
          else:
            r = {True, False}
          out |= r if isinstance(op, ast.In) else {not t for t in r}
        else:
          out |= {True, False}
    return out or {True, False}

  def eval(self, e, env):
    """frozenset of atoms `e` can evaluate to."""
    self.tick()
    if isinstance(e, ast.Constant):
      return frozenset([("const", e.value)])
    if isinstance(e, ast.Name):
      if e.id in env:
        return env[e.id]
      return frozenset([_unk(e.id)])
    if isinstance(e, ast.NamedExpr):
      v = self.eval(e.value, env)
      self.bind(e.target, v, env)
      return v
    if isinstance(e, ast.Attribute):
      o = self.eval(e.value, env)
      out = set()
      for a in o:
        if a == NODE and e.attr == "name":
          out.add(NAME)
        elif a == NODE:
          out.add(_unk(f"node.{e.attr}"))
        elif a == NAME or a[0] == "der":
          out.add(_unk(src(e)))
        else:
          out.add(_unk(src(e)))
      return frozenset(out)
    if isinstance(e, (ast.Tuple, ast.List)):
      if any(isinstance(x, ast.Starred) for x in e.elts):
        vals = [self.eval(x.value if isinstance(x, ast.Starred) else x, env) for x in e.elts]
        return frozenset([_der(src(e)[:60])]) if any(_interesting(v) for v in vals) \
            else frozenset([_unk(src(e))])
      return frozenset([("tuple", tuple(self.eval(x, env) for x in e.elts))])
    if isinstance(e, ast.JoinedStr):
      parts = [self.eval(v.value, env) for v in e.values if isinstance(v, ast.FormattedValue)]
      if len(e.values) == 1 and len(parts) == 1 and e.values[0].format_spec is None \
          and e.values[0].conversion == -1:
        return parts[0]
      if any(_interesting(p) for p in parts):
        return frozenset([_der(src(e)[:60])])
      return frozenset([_unk(src(e))])
    if isinstance(e, ast.BinOp):
      l, r = self.eval(e.left, env), self.eval(e.right, env)
      if _interesting(l) or _interesting(r):
        return frozenset([_der(src(e)[:60])])
      return frozenset([_unk(src(e))])
    if isinstance(e, ast.Subscript):
      o = self.eval(e.value, env)
      self.eval(e.slice, env) if not isinstance(e.slice, ast.Slice) else None
      if len(o) == 1 and next(iter(o))[0] == "tuple" and isinstance(e.slice, ast.Constant) \
          and isinstance(e.slice.value, int) and \
          -len(next(iter(o))[1]) <= e.slice.value < len(next(iter(o))[1]):
        return next(iter(o))[1][e.slice.value]
      if _interesting(o):
        return frozenset([_der(src(e)[:60])])
      return frozenset([_unk(src(e))])
    if isinstance(e, ast.BoolOp):
      return frozenset(self._boolop(e, env))
    if isinstance(e, ast.UnaryOp) and isinstance(e.op, ast.Not):
      return self._bools({not t for t in self.truth(self.eval(e.operand, env))})
    if isinstance(e, ast.IfExp):
      t = self.truth(self.eval(e.test, env))
      out = set()
      if True in t:
        out |= self.eval(e.body, env)
      if False in t:
        out |= self.eval(e.orelse, env)
      return frozenset(out)
    if isinstance(e, ast.Compare):
      left = self.eval(e.left, env)
      res = {True}
      for op, r in zip(e.ops, e.comparators):
        right = self.eval(r, env)
        ts = self._compare1(op, left, right, e)
        res = {a and b for a in res for b in ts}
        left = right
      return self._bools(res)
    if isinstance(e, ast.Call):
      return self.eval_call(e, env)
    if isinstance(e, (ast.ListComp, ast.SetComp, ast.GeneratorExp, ast.DictComp)):
      its = [self.eval(g.iter, env) for g in e.generators]
      if any(_interesting(i) for i in its):
        return frozenset([_der(src(e)[:60])])
      return frozenset([_unk(src(e))])
    if isinstance(e, ast.Lambda):
      return frozenset([_unk("lambda")])
    if isinstance(e, ast.Starred):
      return self.eval(e.value, env)
    if isinstance(e, (ast.Dict, ast.Set)):
      return frozenset([_unk(src(e))])
    return frozenset([_unk(src(e))])

  def _boolop(self, e, env):
    """Values an and/or chain can yield (short circuit, three-valued)."""
    out = set()
    stop = isinstance(e.op, ast.Or)        # the truth value that ends the chain
    for i, x in enumerate(e.values):
      v = self.eval(x, env)
      last = i == len(e.values) - 1
      go_on = False
      for a in v:
        ta = self.truth([a])
        if last:
          out.add(a)
          continue
        if stop in ta:
          out.add(a)
        if (not stop) in ta:
          go_on = True
      if not last and not go_on:
        break
    return out or {_unk(src(e))}

  def eval_call(self, e, env):
    f = e.func
    if any(isinstance(a, ast.Starred) for a in e.args) or any(k.arg is None for k in e.keywords):
      vals = [self.eval(a.value if isinstance(a, ast.Starred) else a, env) for a in e.args]
      vals += [self.eval(k.value, env) for k in e.keywords]
      del vals
      return frozenset([_unk(f"result of {src(e)[:50]}")])
    args = [self.eval(a, env) for a in e.args]
    kwargs = {k.arg: self.eval(k.value, env) for k in e.keywords}
    hot = any(_interesting(v) for v in args) or any(_interesting(v) for v in kwargs.values())
    if self._is_lookup(e):
      if not _interesting(args[1]):
        raise AnalysisError(
            f"printer: `{src(e)[:70]}` does not look up the name of the node")
      self.lookups.append(src(e)[:90])
      return frozenset([_unk("the item found")])
    # self.H(..) -> a method of the printer; f(..) -> a function of printer.py
    target = None
    if isinstance(f, ast.Attribute) and isinstance(f.value, ast.Name) \
        and env.get(f.value.id) == frozenset([SELF]) and f.attr in self.methods:
      target, is_method = self.methods[f.attr], True
    elif isinstance(f, ast.Name) and f.id not in env and f.id in self.mod.functions:
      target, is_method = self.mod.functions[f.id], False
    if target is not None and hot:
      if target.decorator_list:
        return frozenset([_unk(f"result of the decorated {src(f)}(..)")])
      if kwargs:
        names = [p.arg for p in target.args.args][1 if is_method else 0:]
        full = list(args)
        for p in names[len(args):]:
          if p in kwargs:
            full.append(kwargs.pop(p))
          else:
            break
        if kwargs:
          return frozenset([_unk(f"result of {src(e)[:50]}")])
        args = full
      res = self.call(target, args, is_method)
      where = f"{PV}.{target.name}" if is_method else target.name
      return frozenset(("der", a[1], a[2] or where) if a[0] == "der" else a for a in res)
    if isinstance(f, ast.Attribute):
      o = self.eval(f.value, env)
      if _interesting(o) and not any(a == NODE for a in o):
        if f.attr in _PREDICATES:
          return self._bools({True, False})
        fn = self._frame_name(e)
        if f.attr == "removeprefix" and e.args and "self._unit" in src(e.args[0]):
          return frozenset([("unitrel", src(e)[:70], fn)])
        return frozenset([_der(src(e)[:70], fn)])
      if hot and f.attr in ("join", "format", "format_map"):
        return frozenset([_der(src(e)[:70], self._frame_name(e))])
    if isinstance(f, ast.Name) and f.id in ("str", "repr", "sys.intern") and hot and len(args) == 1:
      return args[0] if f.id == "str" else frozenset([_der(src(e)[:60])])
    if isinstance(f, ast.Name) and f.id in ("bool", "isinstance", "callable", "hasattr", "len"):
      return frozenset([_unk(src(e))])
    if hot and isinstance(f, ast.Name) and f.id in (
        "filter", "map", "sorted", "reversed", "list", "tuple", "zip", "enumerate", "iter",
        "next", "min", "max"):
      return frozenset([_der(src(e)[:60])])
    if hot:
      # a callee that is not in printer.py gets a value derived from the node:
      # what it hands back is unknown
      return frozenset([_unk(f"result of {src(e)[:50]}")])
    return frozenset([_unk(src(e))])

  def _frame_name(self, node):
    fn = self.mod.enclosing_function(node)
    if fn is None:
      return None
    owner = self.mod.parent.get(fn)
    return f"{owner.name}.{fn.name}" if isinstance(owner, ast.ClassDef) else fn.name


def spellings(ctx):
  """{judged method: (set of atoms it can return, facts)} - memoised per run."""
  def go():
    mod = get_module(ctx, PR)
    if PV not in mod.classes:
      raise AnalysisError(f"printer: class {PV} not found")
    out = {}
    for mname in JUDGED:
      sp = Spelling(mod)
      fn = sp.methods.get(mname)
      if fn is None:
        raise AnalysisError(f"printer: {PV}.{mname} not found")
      if len(fn.args.args) != 2 or fn.args.vararg or fn.args.kwarg or fn.decorator_list:
        raise AnalysisError(f"printer: {PV}.{mname} does not take (self, node)")
      res = sp.call(fn, [frozenset([NODE])], True)
      if not sp.lookups:
        raise AnalysisError(
            f"printer: the LookupItemRecursive(self._unit, ..) test of {PV} was not "
            f"found on the way from {mname}")
      out[mname] = (res, {"lookup": sorted(set(sp.lookups))[0],
                          "helpers_followed": [h for h in sp.followed if h != mname],
                          "line": fn.lineno})
    return out
  return ctx.memo(("c20sp", "spellings"), go)


def describe(atoms):
  out = []
  for a in sorted(atoms, key=repr):
    if a == NAME:
      out.append("node.name")
    elif a[0] in ("der", "unitrel"):
      out.append(f"`{a[1]}`" + (f" ({a[2]})" if a[2] else ""))
    elif a[0] == "const":
      out.append(repr(a[1]))
    elif a[0] == "tuple":
      out.append("a tuple")
    else:
      out.append(f"<unknown: {a[1]}>" if len(a) > 1 else f"<{a[0]}>")
  return out


@rule("R20.25", "C20", floor=2)
def r20_25(ctx):
  """The printer writes a unit-local nested class as its full dotted name."""
  for mname, (atoms, facts) in sorted(spellings(ctx).items()):
    construct = f"{PV}.{mname}:unit-local-dotted-name-spelling"
    facts = dict(facts, can_return=describe(atoms))
    line = facts.pop("line")
    short = sorted(a for a in atoms if a[0] == "der")
    odd = sorted((a for a in atoms if a != NAME and a[0] != "der"), key=repr)
    if short:
      ctx.bad(construct, PR, line,
              f"{PV}.{mname} can print {', '.join(describe(short))} instead of the full "
              "dotted node.name for a name that LookupItemRecursive resolves inside the "
              "unit (a class nested in a class of the stub): merge-pyi's "
              "QuoteNestedClassesTransformer hides only Attribute chains rooted at a stub "
              "class, so a shortened spelling (`Inner` inside `class Outer`) reaches "
              "libcst as a bare Name, is resolved to `Outer.Inner`, read as `Inner from "
              "module Outer`, and `from Outer import Inner` is added to the program",
              facts)
      continue
    if odd:
      raise AnalysisError(
          f"printer: what {PV}.{mname} prints for a dotted name found inside the unit is "
          f"not understood ({', '.join(describe(odd))[:200]})")
    ctx.ok(construct, PR, line, facts)


_SUCCESS = "        else:\n          node_name = node.name\n      else:\n"


def _v(name, old, new, expect="fire", rid="R20.25"):
  return {"name": name, "rule": rid, "file": PR, "old": old, "new": new, "expect": expect}


VARIANTS = [
    {"name": "seeded-C20-r3m2", "rule": "R20.25", "patch": "seeded/C20-r3m2/patch.diff",
     "expect": "fire"},
    # other shortened spellings on the path where the unit lookup succeeded
    _v("unit-local-name-printed-as-its-last-component", _SUCCESS,
       "        else:\n          node_name = suffix\n      else:\n"),
    _v("unit-local-name-relative-to-the-class-stack", _SUCCESS,
       "        else:\n          node_name = node.name\n"
       "          for outer in self.class_names:\n"
       "            node_name = node_name.removeprefix(outer + \".\")\n      else:\n"),
    _v("unit-local-name-sliced-behind-the-first-dot", _SUCCESS,
       "        else:\n          node_name = (\n"
       "              node.name.split(\".\", 1)[1] if self.in_signature else node.name\n"
       "          )\n      else:\n"),
    _v("member-class-shortened-before-the-lookup",
       "    elif \".\" not in node.name:\n      node_name = node.name\n",
       "    elif \".\" not in node.name:\n      node_name = node.name\n"
       "    elif self.class_names and prefix == self.class_names[-1]:\n"
       "      node_name = suffix\n"),
    _v("class-type-shortened-on-its-own",
       "  def VisitClassType(self, node):\n    return self.VisitNamedType(node)\n",
       "  def VisitClassType(self, node):\n"
       "    text = self.VisitNamedType(node)\n"
       "    if self.class_names and self.in_signature:\n"
       "      return text.rpartition(\".\")[2]\n    return text\n"),
    # behaviour-preserving spellings of the same printer
    {"name": "twin-success-path-through-a-helper-that-keeps-the-name", "rule": "R20.25",
     "expect": "silent",
     "edits": [(PR, _SUCCESS,
                "        else:\n          node_name = self._UnitLocalName(node)\n"
                "      else:\n"),
               (PR, "  def _GuessModule(self, maybe_module):\n",
                "  def _UnitLocalName(self, node):\n"
                "    if not node.name:\n      raise ValueError(node)\n"
                "    full_name = node.name\n    return full_name\n\n"
                "  def _GuessModule(self, maybe_module):\n")]},
    _v("twin-success-path-returns-directly", _SUCCESS,
       "        else:\n          return node.name\n      else:\n", "silent"),
    _v("twin-name-hoisted-into-a-local",
       "    prefix, _, suffix = node.name.rpartition(\".\")\n"
       "    if self._IsBuiltin(prefix) and not self._NameCollision(suffix):\n"
       "      node_name = suffix\n",
       "    full_name = node.name\n"
       "    prefix, _, suffix = full_name.rpartition(\".\")\n"
       "    if self._IsBuiltin(prefix) and not self._NameCollision(suffix):\n"
       "      node_name = suffix\n", "silent"),
    _v("twin-none-abbreviation-as-a-guard-clause",
       "    if node_name == \"NoneType\":\n"
       "      # PEP 484 allows this special abbreviation.\n"
       "      return \"None\"\n    else:\n      return node_name\n",
       "    if node_name != \"NoneType\":\n      return node_name\n"
       "    # PEP 484 allows this special abbreviation.\n    return \"None\"\n", "silent"),
    {"name": "twin-refactoring-C05-r2-printer-helpers", "rule": "R20.25",
     "patch": "benign/C05-r2/patch.diff", "expect": "silent"},
    # what the analysis cannot follow is refused, not judged
    _v("unit-local-name-from-a-foreign-helper", _SUCCESS,
       "        else:\n          node_name = pytd_utils.Shorten(node.name)\n      else:\n",
       "error"),
]
