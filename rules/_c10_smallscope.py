"""Small-scope semantic decision for `mro.MergeSequences` (used by rules/c10.py
when the *shape* of the C3 step is outside what the structural recognisers
understand, e.g. after the candidate search was extracted into helpers).

The function (and the module-level helpers it calls by bare name) is evaluated
from its AST with rules/_minieval.py - nothing is imported or run from /repo -
on EVERY input of a bounded scope and compared with the C3 merge as CPython's
typeobject.c `pmerge` defines it:

    scope: up to 3 rows, each a duplicate-free sequence of at most 3 of the 4
    classes A..D (empty rows included), rows in every order, up to renaming
    of the classes (the merge cannot tell classes apart except by identity).

On each input the result list must be identical (same objects, same order),
or both must fail - the function with ValueError exactly.  Anything the
evaluator does not model is an AnalysisError (never a pass).  The scope covers
every defect the structural rules look for (head vs. other element, tail
`[1:]` vs. `[0:]`/`[2:]`, scan order/restart, removal of heads, the error
class): each shows up on inputs of this size.  Classes carrying pytype's
`SINGLETON` marker are outside the scope (CPython has no counterpart).
"""
from __future__ import annotations

import itertools

from sa.core import AnalysisError
from rules import _minieval as me

_SYMS = "ABCD"
MAX_ROWS = 3
MAX_LEN = 3


def reference_merge(rows):
  """C3 merge (CPython pmerge) over lists of hashable-by-identity items.
  -> list, or None when no consistent order exists."""
  rows = [list(r) for r in rows]
  out = []
  while True:
    live = [r for r in rows if r]
    if not live:
      return out
    for r in live:
      cand = r[0]
      if not any(any(x is cand for x in o[1:]) for o in live):
        break
    else:
      return None
    out.append(cand)
    for r in live:
      if r[0] is cand:
        del r[0]


def _row_shapes():
  shapes = [()]
  for n in range(1, MAX_LEN + 1):
    shapes += list(itertools.permutations(range(len(_SYMS)), n))
  return shapes


def _canonical(rows):
  ren, out = {}, []
  for r in rows:
    o = []
    for x in r:
      if x not in ren:
        ren[x] = len(ren)
      o.append(ren[x])
    out.append(tuple(o))
  return tuple(out)


def scope_inputs():
  shapes = _row_shapes()
  seen = set()
  for k in range(0, MAX_ROWS + 1):
    for rows in itertools.product(shapes, repeat=k):
      c = _canonical(rows)
      if c == rows and c not in seen:
        seen.add(c)
        yield c


def _resolver_for(mod):
  def resolver(name, args, kw):
    if "." not in name and name in mod.functions:
      fn = mod.functions[name]
      params = [p.arg for p in fn.args.posonlyargs + fn.args.args]
      if len(args) > len(params):
        raise me.Outside(f"call of {name}")
      return me.Interp(fn, resolver=resolver, max_steps=4000).call(
          {**dict(zip(params, args)), **kw})
    raise me.Outside(f"call of unknown function {name}")
  return resolver


MAX_MISMATCHES = 12


def decide(ctx, mod, fn_name="MergeSequences"):
  """-> {"inputs": n, "complete": bool, "result": first input on which the
  merged list differs from C3 (or the function fails although C3 succeeds, or
  accepts an inconsistent hierarchy) | None, "reject": first inconsistent
  input on which the function fails with something else than ValueError |
  None}; AnalysisError when the function leaves the evaluated fragment."""
  def run():
    fn = mod.func(fn_name)
    params = [p.arg for p in fn.args.posonlyargs + fn.args.args]
    if len(params) != 1 or fn.args.vararg or fn.args.kwarg or fn.args.kwonlyargs:
      raise AnalysisError(f"{fn_name}: expected exactly one parameter (the rows)")
    resolver = _resolver_for(mod)
    classes = [me.Obj((f"class {s}",), {"name": s}) for s in _SYMS]
    out = {"inputs": 0, "complete": True, "result": None, "reject": None,
           "mismatches": 0}

    def record(kind, shown, want, got):
      out["mismatches"] += 1
      if out[kind] is None:
        out[kind] = {"rows": shown,
                     "c3": None if want is None else [x.attrs["name"] for x in want],
                     "got": got}

    for rows in scope_inputs():
      if out["mismatches"] >= MAX_MISMATCHES:
        out["complete"] = False
        break
      out["inputs"] += 1
      want = reference_merge([[classes[i] for i in r] for r in rows])
      arg = [[classes[i] for i in r] for r in rows]
      shown = [[_SYMS[i] for i in r] for r in rows]
      try:
        got = me.Interp(fn, resolver=resolver, max_steps=6000).call({params[0]: arg})
        err = None
      except me.Raised as e:
        got, err = None, e.name
      except me.Diverged:
        got, err = None, "<no termination within the step budget>"
      except me.Outside as e:
        raise AnalysisError(
            f"{fn_name}: small-scope evaluation left the modelled fragment: {e}") from e
      except RecursionError as e:
        raise AnalysisError(f"{fn_name}: small-scope evaluation recursed too deep") from e
      if err is not None:
        if want is None:
          if err != "ValueError":
            record("reject", shown, want, f"raises {err}")
        else:
          record("result", shown, want, f"raises {err}")
        continue
      if not isinstance(got, (list, tuple)) or any(
          not isinstance(x, me.Obj) for x in got):
        raise AnalysisError(f"{fn_name}: returned {got!r:.60} on {shown}")
      names = [x.attrs.get("name") for x in got]
      if want is None or len(got) != len(want) or \
          any(a is not b for a, b in zip(got, want)):
        record("result", shown, want, names)
    return out
  return ctx.memo(("c10-smallscope", mod.rel, fn_name), run)
