"""C20 - merging a stub changes annotations only.

Decides (on tools/merge_pyi/merge_pyi.py, typed against the *installed*
libcst node declarations): which trees are filtered / transformed on the path
from the two source texts to the merged text, the overwrite switches, that the
stub-filter predicates are applied to values that can have the tested type,
that rebuilt nodes are well typed, and that only the merged text is written
back.  Does NOT decide what libcst's ApplyTypeAnnotationsVisitor does.
"""
import ast
import glob
import importlib.util
import os

from sa.core import rule, AnalysisError
from sa.pyindex import (get_module, dotted, src, calls_in, try_fold,
                        walk_no_nested, all_py_files)
from sa import flow
from rules.provenance import ReachingDefs, bind_args, strip_iter_wrappers

EXPLANATION = (
    "Who-may-transform and typing rules for merge_pyi.py.  R20.1: the tree "
    "given to _merge_csts(pyi_tree=..) is parse_module(pyi) passed through "
    "RemoveAnyNeverTransformer and RemoveTrivialTypesTransformer, the py tree "
    "is parse_module(py) with no transformer at all, the value returned is "
    "exactly <merged>.code, and _merge_csts stores the pyi tree as stub and "
    "transforms the py tree with libcst's ApplyTypeAnnotationsVisitor.  Which "
    "tree passes which visitor is decided by a model run of merge_sources "
    "with abstract visits (rules/_util_c20.py: an interpreter over the ast of "
    "merge_sources and of the module-level helper functions it calls; "
    "`.visit(<instance of a transformer class of the module>)` yields a new "
    "tree, `.visit(<instance of a class deriving only from libcst's read-only "
    "CSTVisitor>)` the receiver itself, no callback is run), so the steps may "
    "sit in a method chain, in re-assignments of a local, in helper functions "
    "or in a loop over a tuple of instances; constructor arguments are bound "
    "to the class's __init__ (through module-local base classes and "
    "super().__init__).  The run must reach the single call of _merge_csts "
    "and may take no control decision outside visitor callbacks (an if/while/"
    "conditional expression/and-or, a loop over anything but a tuple or list "
    "display): it is then the only path through the pipeline and what it "
    "shows holds for every input; otherwise, and for every construct the "
    "interpreter does not model, the rule refuses (ANALYSIS-ERROR).  R20.2: both switches that could "
    "make libcst overwrite existing annotations (constructor and "
    "store_stub_in_context) are False, explicitly or by libcst's own default "
    "read from its source.  R20.3: for every isinstance(x.., T) test on a "
    "libcst class inside a callback or a helper method the callbacks reach, "
    "and every call of a helper predicate from a callback, the static type of "
    "the subject (libcst dataclass field annotations followed along the "
    "attribute chain from the leave_X parameter) can be a T - otherwise the "
    "filter is dead and `x: Any` is merged (defect D4).  Helper methods "
    "(plain or @staticmethod, own or inherited from a module-local base, "
    "called as self.H(..) or K.H(..)) are analysed once per assignment of "
    "static types to their parameters, to any depth: branches whose test "
    "cannot hold for these types are dead (early returns, guard clauses, "
    "isinstance dispatch), the value of a helper call has the join of the "
    "types its live returns hand back (so `bare = self._strip(annotation)` is "
    "typed), a once-bound local holding a test is read as that test, and a "
    "call site is a violation when no live path can return a true value; a "
    "test that can hold for no caller is a violation too.  Names are typed "
    "flow-sensitively (join over the reaching definitions: parameter type, "
    "type of the assigned value, element type for loop and comprehension "
    "targets, elements put into a local list with append/insert/extend; "
    "loop-carried re-bindings by fixpoint), and a narrowing test is "
    "used only while no name it mentions has been re-bound since it was "
    "evaluated (must-flow), so `while isinstance(p, A): p = p.value` is typed "
    "as written.  R20.4: every instance of a local "
    "transformer class made anywhere in the module is, in the model run of "
    "R20.1, used for nothing but visits that lead from the parsed stub to the "
    "tree given to _merge_csts (an instantiation the run does not execute, an "
    "instance that visits anything else or nothing, is a violation), nothing "
    "else in the module rewrites a tree, and a helper function the run went "
    "through is entered from nowhere else (its visits were judged by what "
    "that run did with them); a class whose only foreign base is "
    "libcst.CSTVisitor is read-only (libcst's CSTNode.visit returns the node "
    "itself for it - read from libcst/_nodes/base.py on every run), may be "
    "instantiated anywhere, and `.visit(<such an instance>)` is not a "
    "rewrite.  R20.5: merge_files_src writes only the "
    "merge_sources result, only to the py path it read (opened with mode "
    "\"w\": appending or updating in place would keep the old text), only in "
    "OVERWRITE mode; the open-for-writing (and the backup copy that must "
    "precede it) is looked for in merge_files_src and in the functions of "
    "the module it calls (two levels): a helper's parameters stand for the "
    "arguments of the one call that reaches it, the mode test must guard "
    "that call statement in merge_files_src, and a helper that is "
    "referenced anywhere else, a copy and a write in different functions, "
    "or several calls are refused.  R20.6: nodes rebuilt by the filters - in a callback or in a helper "
    "method a callback reaches, typed as for R20.3, once per typing of the "
    "helper's parameters - get arguments of the "
    "declared field types (no Assign without value); positional arguments "
    "are bound to the fields in the order of the libcst dataclass "
    "declaration (one too many, or given twice, is a violation).  R20.7: "
    "RemoveAnyNeverTransformer has a leave_X callback for both node classes "
    "whose own annotation the property speaks about (AnnAssign.annotation, "
    "FunctionDef.returns - taken from the libcst field declarations), and in "
    "each of them every return that hands back a still annotated node (the "
    "node itself, with_changes that keeps or re-installs the annotation) is "
    "unreachable when the Any/Never predicate holds for the node's own "
    "annotation: the path condition of the return (sa.flow.guards, guard "
    "clauses, elif chains, conditional expressions, locals holding the "
    "predicate's value) "
    "is evaluated three-valued in the world 'predicate true'; a hoisted "
    "temporary (`returns = original_node.returns`: one reaching definition "
    "whose value reads only never re-bound parameters) is read as the "
    "expression it holds; tests on other "
    "Optional fields of the node (e.g. `updated_node.value is None`) can go "
    "either way, so `x: Any = ...` surviving because only value-less "
    "declarations are removed is a violation; `return self._helper(node)` "
    "(a helper method of the class / function of the module, defined once, "
    "whose body is nothing but if / return over its parameters, given never "
    "re-bound parameters of the callback) is read as the helper's returns "
    "under their own path conditions with the arguments substituted (one "
    "level; anything else is refused).  R20.8 (two-site agreement "
    "printer <-> filter): the typing members the stub printer asks for when "
    "it prints `Any` / a `nothing` return are names the filter's predicate "
    "recognises, and every qualified spelling PrintVisitor._FromTyping can "
    "give such a member (the text itself where it is a matter of constants, "
    "`typing.X` otherwise) is recognised as well.  The predicate is the one "
    "helper the annotation callbacks call other than as the value they "
    "return (a helper whose result is returned is the node builder R20.7 "
    "reads inline; it is refused if its returns are truth values).  What the predicate "
    "recognises is decided by evaluating it (the interpreter of "
    "rules/_util_c20.py: helper methods, @staticmethod, class and module "
    "constants that are bound once and never mutated) on the node the "
    "spelling parses to - Name(X), Attribute(Name(typing), Name(X)); an "
    "outcome that depends on something unknown is an ANALYSIS-ERROR.  (This "
    "rule found defect D44: when the analysed module itself "
    "defines a name `Any`/`Never` the printer writes `typing.Any`, which the "
    "Name-only filter missed, so merge-pyi inserted `-> Any`; repaired by "
    "87d75f5, after which the predicate recognises the qualified form.)  "
    "Filter classes are resolved through base classes defined in "
    "merge_pyi.py (callbacks and helpers may be inherited).  R20.20 "
    "(rules/c20_traversal.py): RemoveAnyNeverTransformer and its "
    "module-local bases have no `visit_X` override that can return a false "
    "value for a node class X whose subtree can hold a FunctionDef/AnnAssign "
    "that libcst's stub reader sees (containment closure over the libcst "
    "field declarations, cut below the node classes whose TypeCollector "
    "visit_X always returns False), and do not override on_visit: a pruned "
    "subtree keeps its bare Any/Never.  R20.21 (rules/c20_bases.py, "
    "two-site agreement printer <-> libcst): every element of the sequence "
    "PrintVisitor.VisitClass joins into the `class NAME(...)` header is "
    "derived (element provenance over reaching definitions, list mutations "
    "included) from node.bases or node.keywords; a synthesised element that "
    "can spell `Generic` is a violation because "
    "ApplyTypeAnnotationsVisitor.leave_ClassDef copies a stub class's "
    "Generic[...] base onto a source class that has none.  Not "
    "decided: the behaviour of libcst's visitor itself (it also adds "
    "imports), user stubs that spell Any through their own aliases, nor "
    "that the filters remove every undesirable annotation; whether "
    "output.py puts a Generic base into node.bases that the source class "
    "does not have.  R20.22 / R20.23 (rules/c20_stub_classes.py): read from "
    "libcst's source "
    "that leave_Module appends every stub class whose simple name was not met "
    "as a ClassDef of the source (D57: the stub of `P = NamedTuple('P', ..)` "
    "has `class P(NamedTuple)`, so a class statement is inserted) and that "
    "the stub reader registers an import for every dotted name in an "
    "annotation or a class base, and from the stub printer that a class "
    "nested in a class of the same stub is printed as `Outer.Inner` (D58: "
    "`from Outer import Inner` is added); the obligations are decided by "
    "model execution: merge_sources, its helper functions and the callbacks "
    "and helper methods of the local visitor / "
    "transformer classes are interpreted (the interpreter of "
    "rules/_util_c20.py, on "
    "libcst-shaped model nodes, following libcst's visit/leave protocol) on a "
    "witness source/stub pair, and the tree that reaches _merge_csts may "
    "define no class the witness source has no class statement for (R20.22) "
    "and may hold no Attribute chain rooted at a stub class inside an "
    "Annotation or a base list, nor a subscripted string (R20.23).  Blind "
    "spots of these two: only the witness is decided (names the code could "
    "not know, nesting depth up to three, annotations on variables, "
    "parameters, returns, class attributes; subscripted dotted bases, a "
    "class statement inside a function body, a dotted name rooted at a "
    "dropped stub class) - a filter that misbehaves only on other shapes "
    "passes; what the interpreter does not model is an "
    "ANALYSIS-ERROR.")
ASSUMPTIONS = [
    "libcst's ApplyTypeAnnotationsVisitor only adds annotations (and the "
    "imports they need) to the tree given to transform_module and never "
    "replaces an existing annotation unless one of the two overwrite "
    "switches is set (libcst documentation; not pytype code)",
    "libcst dispatches leave_X/visit_X by method name with a node of class X, "
    "and node fields hold values of their declared annotations "
    "(libcst/_nodes/*.py of the installed package, read with ast)",
    "the public entry points are merge_sources(py=, pyi=) and "
    "merge_files_src; keyword-only parameter names are part of that API",
    "the Any/Never predicate is true for a bare Any/Never annotation "
    "expression (R20.3 types its argument, R20.8 its name set); libcst calls "
    "leave_X with the node's children already visited and uses the returned "
    "node in place of the original",
    "libcst calls visit_X before the children of an X and skips them when "
    "it returns False (None counts as True); leave_X still runs for the "
    "node itself; on_visit is the only other hook that can prune",
    "libcst copies from a stub class only a base matching "
    "Subscript(value=Name('Generic')) (read from "
    "codemod/visitors/_apply_type_annotations.py: _find_generic_base) and "
    "whole classes absent from the source",
    "CSTNode.visit returns the visited node itself when the visitor is a "
    "CSTVisitor (read from libcst/_nodes/base.py), and a class deriving only "
    "from CSTVisitor does not reach into node internals (nodes are frozen "
    "dataclasses)",
    "the constructor of a libcst node takes its fields positionally in the "
    "order of the annotated class attributes of its @dataclass declaration "
    "(own declarations only; ClassVar excluded)",
    "R20.22/R20.23 model libcst's traversal as: visit_X(node) (False prunes), "
    "children in field order, leave_X(original, updated) whose result "
    "replaces the node, RemovalSentinel drops an element of a sequence (and "
    "a statement line that lost its last statement), a CSTVisitor changes "
    "nothing; a model run raises no exception (except-handlers are not "
    "taken)",
    "stubs given to merge-pyi are the ones pytype's printer produces "
    "(PrintVisitor); _Imports.get_alias returns the alias of a from-import, "
    "i.e. a bare identifier",
    "the model run of merge_sources (R20.1, R20.4) stands for every run: no "
    "statement of the pipeline raises (a failure ends in MergeError and "
    "nothing is written), constructors of the local visitor classes have no "
    "effect beyond setting attributes, and helper functions of merge_pyi.py "
    "are reached through their names only (no aliasing, no getattr)",
    "a class attribute or module-level name bound once to a tuple / string / "
    "frozen literal and never re-bound, augmented or mutated through a "
    "method call in merge_pyi.py keeps that value at run time (read by the "
    "interpreter for `self._NAMES`, `_MODULE_CONSTANT`)",
    "helper methods of the filter classes are pure with respect to what the "
    "rules read: the same call with the same (frozen) nodes gives the same "
    "result, so a local holding the result can be read as the call",
]

EXPLANATION += (
    "  R20.24 (rules/c20_state.py; state not shared across merges / cache "
    "keys cover every input): in every module of pytype/tools/merge_pyi/ "
    "(tests excluded) the holders of state that outlives a call are "
    "inventoried - module-level names and class-body attributes bound to a "
    "mutable container, names re-bound under `global`, attributes stored on a "
    "module-level class or function, mutable default values, module-level "
    "instances of a module class whose methods write self.<attr> outside "
    "__init__ or of a libcst dataclass with list/dict/set fields (read from "
    "the installed libcst).  For a holder some function writes, every store "
    "must be keyed and the key must depend on every parameter (and other "
    "written holder) the stored value depends on (flow-insensitive data "
    "dependence through the function's locals, calls that may mutate their "
    "arguments, tests of enclosing compound statements); an unkeyed store of "
    "a parameter-dependent value that anything reads back, a read that "
    "delivers stored content regardless of a key (iteration, values(), "
    "handing the container on) and a stateful shared instance used by a "
    "function are violations; size tests, clear/pop/del and stores that "
    "depend on no parameter are harmless.  (A memo of the pre-filtered stub "
    "keyed by the stub text alone serves the stub filtered against an earlier "
    "source's class statements to a later source.)  Blind spots: a key that "
    "mentions an input but loses information (len(x)); free variables read "
    "by callees of the cached computation; state kept in closures, on "
    "objects reachable from arguments, or outside pytype/tools/merge_pyi/; "
    "functools caches, module-level objects of unknown mutability that a "
    "function uses are refused.  The model run of R20.1/R20.4/R20.22/R20.23 "
    "still refuses a pipeline that tests remembered state (one path no "
    "longer stands for every call).  R20.25 (rules/c20_spelling.py; two-site "
    "agreement printer <-> hiding transformer): QuoteNestedClassesTransformer "
    "hides only Attribute chains rooted at a stub class, so for a name that "
    "LookupItemRecursive(self._unit, ..) resolves (a class nested in a class "
    "of the stub) PrintVisitor.VisitNamedType and VisitClassType must return "
    "node.name itself on every path.  Decided by abstract evaluation of the "
    "method and of every helper (method of PrintVisitor, function of "
    "printer.py) a value derived from the node reaches, over all paths, with "
    "the value domain {node.name, derived-from-it, constant, unknown} in the "
    "world 'the name is dotted and the unit lookup resolves it' (handlers of "
    "the try holding the lookup are not taken, `\".\" in name` holds, "
    "name == <constant without a dot> does not, a part of the name == "
    "<constant> does not); a derived spelling that can be returned "
    "(removeprefix, rpartition, slices, f-strings - `Inner` inside `class "
    "Outer`) is a violation, a constant or unknown value an ANALYSIS-ERROR.  "
    "R20.23's printer premise is read from the same analysis.  Blind spots: "
    "spellings chosen through printer state (self.<attr>) or foreign helpers "
    "are refused, not judged; VisitLateType and the text assembled around the "
    "name (GenericType, signatures) are not looked at.")
ASSUMPTIONS += [
    "a value stored in a container that outlives a call is a function of the "
    "inputs the rule's dependence closure finds (parameters of the storing "
    "function, other written state holders); helper callees are pure with "
    "respect to module state (R20.24)",
    "libcst's CSTVisitor/CSTTransformer base classes keep no per-visit state "
    "in the instance, so an instance of a module class whose own methods "
    "write no self attribute outside __init__ may be shared (R20.24)",
    "the string constants PrintVisitor compares parts of a dotted name with "
    "(builtins, typing, typing_extensions, ..) are names of foreign modules, "
    "never of a class of the unit being printed, and a dotted name is never "
    "equal to a constant without a dot (R20.25)",
    "pytd dispatches VisitNamedType / VisitClassType by node class name with "
    "the node as only argument, and node.name of a class nested in a class of "
    "the unit is its dotted path from the top-level class (R20.25)",
]

EXPLANATION += (
    "  R20.26 (rules/c20_late_any.py; the Any/Never filter is the last step that can produce or expose an "
    "annotation expression): by model execution of merge_sources (the interpreter of rules/_util_c20.py, as "
    "for R20.22/R20.23) on a witness stub in which Any / Never stand in every sub-expression position of the "
    "annotation forms the stub printer writes (Annotated[X, 'property'], Optional[X], list[X], dict[str, X], "
    "Callable[..., X], Union[int, X], type[X], typing.Annotated[typing.X, 'property'], and bare X / typing.X "
    "as control) on class attributes, module variables with and without a value, method and function "
    "returns, the tree that reaches _merge_csts holds no AnnAssign annotation and no FunctionDef return "
    "annotation that is a bare Any/Never (Name, or typing./typing_extensions. attribute): a step placed after "
    "the filter that unwraps a wrapper, or a chain without the filter, is a violation whatever its spelling; "
    "unwrapping before the filter, or filtering again afterwards, is not.  Blind spots: only the witness "
    "forms (a step that unwraps another wrapper, or only under conditions the witness does not meet, passes); "
    "parameter annotations are outside the property's clause; what the interpreter does not model is an "
    "analysis error.  For this rule the interpreter reads generator expressions eagerly and constant "
    "subscripts of sequences, and the typing of R20.3/R20.6 types `x.with_changes(..)` as the receiver's "
    "class and `seq[i]` as the element type.")
ASSUMPTIONS += [
    "libcst's SimpleString.evaluated_value is the string the literal denotes (modelled as a field of the "
    "witness node); with_changes returns a node of the receiver's class (dataclasses.replace) (R20.26, "
    "R20.6)",
]

MP = "pytype/tools/merge_pyi/merge_pyi.py"
REQUIRED_FILTERS =("RemoveAnyNeverTransformer", "RemoveTrivialTypesTransformer")
APPLY = "ApplyTypeAnnotationsVisitor"


def _one(xs, what):
  if len(xs) != 1:
    raise AnalysisError(f"expected exactly one {what}, found {len(xs)}")
  return xs[0]


# -- libcst reference model (not pytype code: read with plain open) -----------------

def _libcst_dir():
  try:
    spec = importlib.util.find_spec("libcst")
  except (ImportError, ValueError):
    spec = None
  if spec and spec.submodule_search_locations:
    return list(spec.submodule_search_locations)[0]
  d = "/venv/lib/python3.12/site-packages/libcst"
  if os.path.isdir(d):
    return d
  raise AnalysisError("installed libcst sources not found")


class CstModel:
  """Class hierarchy and dataclass field types of libcst._nodes."""

  def __init__(self):
    self.root = _libcst_dir()
    self.classes = {}
    files = sorted(glob.glob(os.path.join(self.root, "_nodes", "*.py")))
    if not files:
      raise AnalysisError("libcst/_nodes/*.py not found")
    for path in files:
      with open(path, encoding="utf-8") as f:
        try:
          tree = ast.parse(f.read())
        except SyntaxError as e:
          raise AnalysisError(f"{path} does not parse: {e}") from e
      for st in tree.body:
        if isinstance(st, ast.ClassDef):
          if st.name in self.classes:
            raise AnalysisError(f"libcst class {st.name} defined twice")
          fields = {}
          for s in st.body:
            if isinstance(s, ast.AnnAssign) and isinstance(s.target, ast.Name):
              fields[s.target.id] = s.annotation
          self.classes[st.name] = {
              "bases": [dotted(b).split(".")[-1] for b in st.bases if dotted(b)],
              "fields": fields, "file": os.path.basename(path), "node": st,
              "dataclass": any(
                  (dotted(d.func if isinstance(d, ast.Call) else d) or "")
                  .split(".")[-1] == "dataclass" for d in st.decorator_list)}
    self._cone = {}
    self._init_order = {}
    self.children = {}
    for name, c in self.classes.items():
      for b in c["bases"]:
        self.children.setdefault(b, set()).add(name)

  def cone(self, name):
    """`name` and all its transitive subclasses."""
    if name not in self._cone:
      out, todo = set(), [name]
      while todo:
        n = todo.pop()
        if n not in out:
          out.add(n)
          todo.extend(self.children.get(n, ()))
      self._cone[name] = out
    return self._cone[name]

  def mro_names(self, name):
    out, todo = [], [name]
    while todo:
      n = todo.pop(0)
      if n in out or n not in self.classes:
        continue
      out.append(n)
      todo.extend(self.classes[n]["bases"])
    return out

  def init_order(self, cls):
    """Positional parameter order of the constructor of node class `cls`: the
    order the @dataclass decorator derives from the field declarations (own
    annotated class attributes in source order; ClassVar is not a field).
    Inherited dataclass fields, init=False and keyword-only fields are outside
    the model."""
    if cls not in self._init_order:
      c = self.classes.get(cls)
      if c is None or not c["dataclass"]:
        raise AnalysisError(f"libcst reference: {cls} is not a @dataclass node class")
      for anc in self.mro_names(cls)[1:]:
        a = self.classes[anc]
        if a["dataclass"] and any(not self._is_classvar(x) for x in a["fields"].values()):
          raise AnalysisError(
              f"libcst reference: {cls} inherits dataclass fields from {anc}: "
              "positional order not modelled")
      order = []
      for s in c["node"].body:
        if not (isinstance(s, ast.AnnAssign) and isinstance(s.target, ast.Name)):
          continue
        if self._is_classvar(s.annotation):
          continue
        if "KW_ONLY" in src(s.annotation):
          raise AnalysisError(f"libcst reference: {cls} has keyword-only fields")
        if isinstance(s.value, ast.Call):
          for k in s.value.keywords:
            if k.arg in ("init", "kw_only"):
              raise AnalysisError(
                  f"libcst reference: {cls}.{s.target.id} uses field({k.arg}=..)")
        if s.target.id not in order:
          order.append(s.target.id)
      self._init_order[cls] = order
    return self._init_order[cls]

  @staticmethod
  def _is_classvar(ann):
    if isinstance(ann, ast.Constant) and isinstance(ann.value, str):
      return ann.value.replace("typing.", "").startswith("ClassVar")
    if isinstance(ann, ast.Subscript):
      ann = ann.value
    return (dotted(ann) or "").split(".")[-1] == "ClassVar"

  def field_type(self, cls, attr):
    for c in self.mro_names(cls):
      ann = self.classes[c]["fields"].get(attr)
      if ann is not None:
        return self.typeset(ann)
    return None

  def typeset(self, ann):
    """Annotation -> frozenset of atoms: class name, 'None', ('seq', typeset)."""
    if isinstance(ann, ast.Constant):
      if ann.value is None:
        return frozenset(["None"])
      if isinstance(ann.value, str):
        try:
          return self.typeset(ast.parse(ann.value, mode="eval").body)
        except SyntaxError as e:
          raise AnalysisError(f"libcst annotation {ann.value!r}: {e}") from e
    if isinstance(ann, (ast.Name, ast.Attribute)):
      return frozenset([dotted(ann).split(".")[-1]])
    if isinstance(ann, ast.BinOp) and isinstance(ann.op, ast.BitOr):
      return self.typeset(ann.left) | self.typeset(ann.right)
    if isinstance(ann, ast.Subscript):
      head = (dotted(ann.value) or "").split(".")[-1]
      args = ann.slice.elts if isinstance(ann.slice, ast.Tuple) else [ann.slice]
      if head == "Optional":
        return self.typeset(args[0]) | {"None"}
      if head == "Union":
        out = frozenset()
        for a in args:
          out |= self.typeset(a)
        return out
      if head in ("Sequence", "List", "Iterable", "Collection"):
        return frozenset([("seq", self.typeset(args[0]))])
      if head == "Tuple" and len(args) == 2 and isinstance(args[1], ast.Constant) \
          and args[1].value is Ellipsis:
        return frozenset([("seq", self.typeset(args[0]))])
      return frozenset([f"?{src(ann)}"])
    return frozenset([f"?{src(ann)}"])

  def can_be(self, typeset, target):
    """Some value of static type `typeset` can be an instance of class `target`."""
    tc = self.cone(target)
    for a in typeset:
      if isinstance(a, str) and a in self.classes and self.cone(a) & tc:
        return True
    return False

  def assignable(self, typeset, accept):
    """Every value of `typeset` is admitted by the field type `accept`."""
    for a in typeset:
      if isinstance(a, tuple):
        inner = [b[1] for b in accept if isinstance(b, tuple)]
        if not inner or not any(self.assignable(a[1], i) for i in inner):
          return False
      elif a in self.classes:
        if not any(isinstance(b, str) and b in self.classes and a in self.cone(b)
                   for b in accept):
          return False
      elif a not in accept:
        return False
    return True


def _cst(ctx):
  return ctx.memo(("c20", "libcst"), CstModel)


def show(typeset):
  out = []
  for a in sorted(typeset, key=str):
    out.append(f"Sequence[{show(a[1])}]" if isinstance(a, tuple) else a)
  return " | ".join(out) or "<nothing>"


# -- typing expressions of a transformer method ---------------------------------------

class _Freshness:
  """Which path-condition tests still speak about the *current* value of the
  names they mention.

  sa.flow.guards is purely structural: it reports `isinstance(node, A)` for a
  use of `node` even when `node` was re-bound (`node = node.value`) between
  the test and the use.  Must-mode flow: the fact "test T was evaluated and no
  name T mentions has been bound since" is generated where T is evaluated and
  killed by every binding of one of its names; a guard is fresh at a use iff
  that fact holds on every path to the statement of the use.  A stale guard is
  dropped (less narrowing, wider static type)."""

  def __init__(self, mod, fn, rd):
    self.mod, self.fn, self.rd = mod, fn, rd
    self.units = {}
    for n in walk_no_nested(fn):
      if isinstance(n, (ast.If, ast.While)):
        self.units[n.test] = n.test
      elif isinstance(n, ast.Assert):
        self.units[n.test] = n
    self._names = {}
    self._binds = {}
    self.rebound = set(rd.unsupported)
    tests = set(self.units.values())

    def binds(unit):
      if unit not in self._binds:
        self._binds[unit] = frozenset(d.name for d in rd._gen_unit(unit))
        self.rebound |= self._binds[unit]
      return self._binds[unit]

    def gen(unit):
      if unit in tests and not (self.names(unit) & binds(unit)):
        return [unit]
      return ()

    def kill(unit):
      b = binds(unit)
      if not b:
        return None
      return lambda fact: bool(self.names(fact) & b)
    self.flow = flow.flow(fn, gen, kill, mode="must")

  def names(self, node):
    if node not in self._names:
      self._names[node] = frozenset(
          n.id for n in ast.walk(node) if isinstance(n, ast.Name))
    return self._names[node]

  def fresh(self, test, use):
    names = self.names(test) & self.rebound
    if not names:
      return True     # nothing the test mentions is ever re-bound in the function
    if names & set(self.rd.unsupported):
      return False
    stmt = self.mod.enclosing_stmt(use)
    header = stmt
    if isinstance(stmt, (ast.If, ast.While)):
      header = stmt.test
    elif not isinstance(stmt, (ast.Return, ast.Assign, ast.AnnAssign, ast.AugAssign,
                               ast.Expr, ast.Assert, ast.Raise)):
      return False    # for/with/try/match headers bind names: not modelled
    if any(isinstance(n, ast.NamedExpr) and n.target.id in names
           for n in ast.walk(header)):
      return False
    unit = self.units.get(test)
    if unit is None:
      # an earlier operand of the same expression (and-chain, conditional
      # expression): nothing but a walrus could re-bind in between
      return self.mod.enclosing_stmt(test) is stmt
    st = self.flow.after_header.get(stmt) if isinstance(stmt, ast.While) \
        else self.flow.before.get(stmt)
    return st is not None and unit in st


class Typer:
  """Static types of expressions inside one method.

  With `fn` given, local names are typed flow-sensitively: the type of a use
  is the join over its reaching definitions (parameter type, type of the
  assigned value in the context of the assignment, element type of the
  iterated sequence for loop / comprehension targets), and a narrowing test is
  applied only while it is fresh (see _Freshness)."""

  def __init__(self, model, mod, env, fn=None, inter=None):
    self.model = model
    self.mod = mod
    self.env = env  # parameter name -> typeset
    self.fn = fn
    self.inter = inter    # _Inter: types calls of helper methods of the class
    self.rd = ReachingDefs(mod, fn) if fn is not None else None
    self._freshness = None
    self._depth = 0
    self._active = set()
    self._assumed = {}
    self._grew = self._cyclic = False
    self.dead = set()     # ids of statements known to be unreachable

  def node_class(self, expr):
    """Resolves `cst.X` / `expression.X` to a libcst node class name."""
    d = dotted(expr)
    if not d or "." not in d:
      return None
    head, name = d.rsplit(".", 1)
    target = self.mod.imports.get(head, "")
    if target.split(".")[0] == "libcst" and name in self.model.classes:
      return name
    return None

  # -- path conditions ---------------------------------------------------------
  def tests_at(self, node):
    """Tests known to hold when `node` is evaluated (stale ones dropped)."""
    tests = _context_tests(self.mod, self.fn, node)
    if self.rd is None:
      return tests
    if self._freshness is None:
      self._freshness = _Freshness(self.mod, self.fn, self.rd)
    return [(t, pol) for t, pol in tests if self._freshness.fresh(t, node)]

  def narrow_at(self, node):
    return self.narrowings(self.tests_at(node))

  # -- types -------------------------------------------------------------------
  def type_of(self, expr, narrow):
    if self._depth:
      return self._type_of(expr, narrow)
    for _ in range(40):
      self._grew = self._cyclic = False
      self._depth = 1
      try:
        t = self._type_of(expr, narrow)
      finally:
        self._depth = 0
        self._active.clear()
      if not (self._cyclic and self._grew):
        return t
    raise AnalysisError(f"typing: no fixpoint for {src(expr)[:60]}")

  def _def_type(self, d, compute):
    """Type contributed by one definition; loop-carried definitions (`x =
    x.value` in a loop) are solved by iteration from the empty type."""
    if d in self._active:
      self._cyclic = True
      return self._assumed.get(d, frozenset())
    self._active.add(d)
    try:
      t = compute()
    finally:
      self._active.discard(d)
    if self._assumed.get(d, frozenset()) != t:
      self._assumed[d] = t | self._assumed.get(d, frozenset())
      self._grew = True
    return self._assumed[d]

  def _name_type(self, expr):
    if self.rd is None:
      if expr.id in self.env:
        return self.env[expr.id]
      raise AnalysisError(f"typing: {expr.id} has no known static type")
    ds = self.rd.defs_of(expr)
    if not ds:
      raise AnalysisError(f"typing: {expr.id} has no known static type")
    out = frozenset()
    for d in sorted(ds, key=lambda d: (getattr(d.node, "lineno", 0), d.kind)):
      if id(d.node) in self.dead:
        continue          # bound in a branch the caller has shown to be unreachable
      if d.kind == "param":
        if d.name not in self.env:
          raise AnalysisError(f"typing: {expr.id} has no known static type")
        out |= self.env[d.name]
      elif d.kind in ("assign", "walrus") and not d.path:
        out |= self._def_type(
            d, lambda d=d: self._type_of(d.value, self.narrow_at(d.value)))
      elif d.kind in ("for", "comp") and not d.path:
        it = strip_iter_wrappers(d.value)
        seq = self._def_type(
            d, lambda it=it: self._type_of(it, self.narrow_at(it)))
        for a in seq:
          if not isinstance(a, tuple):
            raise AnalysisError(
                f"typing: {expr.id} iterates over non-sequence type {a}")
          out |= a[1]
      else:
        raise AnalysisError(f"typing: {expr.id} is bound by {d.describe()}")
    if any(isinstance(a, tuple) for a in out):
      # a list held in a local also holds what is put into it in place
      extra = self._mutation_elems(expr.id)
      if extra:
        out = frozenset(("seq", a[1] | extra) if isinstance(a, tuple) else a for a in out)
    return out

  def _mutation_elems(self, name):
    """Static types of the elements `name.append(v)` / `.insert(i, v)` /
    `.extend(seq)` anywhere in the function can add to the list held in local
    `name` (flow-insensitive; aliases of the list are not followed)."""
    key = ("mutations", name)
    if key in self._active:
      return frozenset()
    self._active.add(key)
    try:
      out = frozenset()
      for c in walk_no_nested(self.fn):
        if not (isinstance(c, ast.Call) and isinstance(c.func, ast.Attribute)
                and isinstance(c.func.value, ast.Name) and c.func.value.id == name) \
            or id(c) in self.dead or c.keywords:
          continue
        if c.func.attr == "append" and len(c.args) == 1:
          out |= self._type_of(c.args[0], self.narrow_at(c.args[0]))
        elif c.func.attr == "insert" and len(c.args) == 2:
          out |= self._type_of(c.args[1], self.narrow_at(c.args[1]))
        elif c.func.attr == "extend" and len(c.args) == 1:
          for a in self._type_of(c.args[0], self.narrow_at(c.args[0])):
            if not isinstance(a, tuple):
              raise AnalysisError(f"typing: {name}.extend(<{a}>)")
            out |= a[1]
      return out
    finally:
      self._active.discard(key)

  def _type_of(self, expr, narrow):
    key = src(expr)
    if key in narrow:
      return narrow[key]
    if isinstance(expr, ast.Name):
      return self._name_type(expr)
    if isinstance(expr, ast.Constant) and expr.value is None:
      return frozenset(["None"])
    if isinstance(expr, ast.Constant) and isinstance(expr.value, str):
      return frozenset(["str"])
    if isinstance(expr, ast.JoinedStr):
      return frozenset(["str"])
    if isinstance(expr, ast.Attribute):
      d = dotted(expr)
      if d and d.endswith("MaybeSentinel.DEFAULT"):
        return frozenset(["MaybeSentinel"])
      base = self._type_of(expr.value, narrow)
      out = frozenset()
      for a in base:
        if a == "None":
          continue  # access on None is an AttributeError, not a typing question
        if not isinstance(a, str) or a not in self.model.classes:
          raise AnalysisError(
              f"typing: attribute .{expr.attr} on non-node type {a} in {key}")
        ft = self.model.field_type(a, expr.attr)
        if ft is None:
          raise AnalysisError(
              f"typing: {a} declares no field {expr.attr!r} (in {key})")
        out |= ft
      return out
    if isinstance(expr, ast.Call):
      c = self.node_class(expr.func)
      if c:
        return frozenset([c])
      if isinstance(expr.func, ast.Name) and expr.func.id in ("repr", "str") \
          and self._is_builtin(expr.func):
        return frozenset(["str"])
      h = self.inter.helper_of(expr, self.fn) if self.inter is not None and self.fn else None
      if h is not None:
        # a helper method of the class: the join of what it can return for
        # arguments of these static types
        _, penv = self.inter.arg_types(self, expr, h, narrow)
        return self.inter.analyse(h, penv).ret_type()
    if isinstance(expr, (ast.List, ast.Tuple)):
      inner = frozenset()
      for e in expr.elts:
        if isinstance(e, ast.Starred):
          raise AnalysisError(f"typing: cannot type {key[:60]}")
        inner |= self._type_of(e, narrow)
      return frozenset([("seq", inner)])
    if isinstance(expr, ast.Call) and isinstance(expr.func, ast.Attribute) and \
        expr.func.attr == "with_changes" and not expr.args:
      # libcst's CSTNode.with_changes is dataclasses.replace: a node of the receiver's class
      recv = self._type_of(expr.func.value, narrow) - {"None"}
      if recv and all(isinstance(a, str) and a in self.model.classes for a in recv):
        return recv
    if isinstance(expr, ast.Subscript) and isinstance(expr.ctx, ast.Load) and \
        not isinstance(expr.slice, ast.Slice):
      # an element of a sequence-typed value (the index itself is not judged)
      seq = self._type_of(expr.value, narrow) - {"None"}
      if seq and all(isinstance(a, tuple) and a[0] == "seq" for a in seq):
        out = frozenset()
        for a in seq:
          out |= a[1]
        return out
    if isinstance(expr, ast.ListComp) and self.rd is not None:
      # (the comprehension's own `if` clauses narrow nothing here: wider type)
      return frozenset([("seq", self._type_of(expr.elt, self.narrow_at(expr.elt)))])
    raise AnalysisError(f"typing: cannot type {key[:60]}")

  def _is_builtin(self, name):
    if name.id in self.mod.imports or name.id in self.mod.classes or \
        name.id in self.mod.functions or name.id in self.mod.assigns:
      return False
    return self.rd is None or not self.rd.defs_of(name)

  def narrowings(self, tests):
    """tests: [(expr, polarity)] known to hold -> {source text: typeset}."""
    narrow = {}
    todo = list(tests)
    while todo:
      t, pol = todo.pop(0)
      if isinstance(t, ast.BoolOp):
        if isinstance(t.op, ast.And) and pol:
          todo = [(v, True) for v in t.values] + todo
        elif isinstance(t.op, ast.Or) and not pol:
          todo = [(v, False) for v in t.values] + todo
        continue
      if isinstance(t, ast.UnaryOp) and isinstance(t.op, ast.Not):
        todo.insert(0, (t.operand, not pol))
        continue
      try:
        if isinstance(t, ast.Call) and dotted(t.func) == "isinstance" \
            and len(t.args) == 2 and pol:
          cs = [self.node_class(c) for c in (
              t.args[1].elts if isinstance(t.args[1], ast.Tuple) else [t.args[1]])]
          if all(cs):
            narrow[src(t.args[0])] = frozenset(cs)
        elif isinstance(t, ast.Compare) and len(t.ops) == 1 and isinstance(
            t.comparators[0], ast.Constant) and t.comparators[0].value is None:
          is_none = isinstance(t.ops[0], ast.Is) == pol
          if isinstance(t.ops[0], (ast.Is, ast.IsNot)):
            cur = self.type_of(t.left, narrow)
            narrow[src(t.left)] = frozenset(["None"]) if is_none else cur - {"None"}
        elif isinstance(t, (ast.Name, ast.Attribute)) and pol:
          cur = self.type_of(t, narrow)
          narrow[src(t)] = cur - {"None"}
      except AnalysisError:
        continue  # a test over something untyped narrows nothing
    return narrow


def _and_context(mod, node, stop):
  """Earlier operands of enclosing `and` chains (they hold when node is evaluated)."""
  out = []
  cur = node
  while cur is not stop and cur in mod.parent:
    par = mod.parent[cur]
    if isinstance(par, ast.BoolOp) and isinstance(par.op, ast.And):
      idx = par.values.index(cur)
      out = [(v, True) for v in par.values[:idx]] + out
    elif isinstance(par, ast.IfExp) and cur is not par.test:
      out = [(par.test, cur is par.body)] + out
    if isinstance(par, ast.stmt):
      break
    cur = par
  return out


def _context_tests(mod, fn, node):
  st = mod.enclosing_stmt(node)
  tests = list(flow.guards(mod.parent, st))
  # a use inside the test of an `if` is not guarded by that test itself
  return tests + _and_context(mod, node, st)


_CST_BASES = ("CSTTransformer", "CSTVisitor", "ContextAwareTransformer")


def _local_mro(mod, cname):
  """`cname` followed by its base classes defined in the same module
  (depth-first, left to right, as far as single inheritance goes: a diamond
  among module-local transformer classes is outside the model)."""
  out, todo = [], [cname]
  while todo:
    n = todo.pop(0)
    if n in out or n not in mod.classes:
      continue
    out.append(n)
    local = [dotted(b) for b in mod.classes[n].bases if dotted(b) in mod.classes]
    if len(local) > 1:
      raise AnalysisError(f"{n}: several module-local base classes: MRO not modelled")
    todo.extend(local)
  return out


def _transformer_classes(ctx, mod):
  """Classes of the module that are libcst transformers/visitors, directly or
  through base classes defined in the module."""
  out = {}
  for name, c in mod.classes.items():
    for k in _local_mro(mod, name):
      bases = [dotted(b) or "" for b in mod.classes[k].bases]
      if any(b.split(".")[-1] in _CST_BASES for b in bases):
        out[name] = c
        break
  for need in REQUIRED_FILTERS:
    if need not in out:
      raise AnalysisError(f"anchor class {need} (a CSTTransformer) not found in {MP}")
  return out


_READ_ONLY_BASES = ("CSTVisitor",)


def _class_kind(mod, cname):
  """'visitor' for a class that can only read a tree: every base class on its
  module-local inheritance chain is module-local or libcst's CSTVisitor
  (libcst discards what the callbacks of a CSTVisitor return, see
  _visitor_reference); 'transformer' otherwise (anything else may rebuild
  nodes, or is not known not to)."""
  seen_visitor = False
  for k in _local_mro(mod, cname):
    for b in mod.classes[k].bases:
      d = dotted(b) or ""
      if d in mod.classes:
        continue
      head = d.rsplit(".", 1)[0] if "." in d else ""
      if d.split(".")[-1] in _READ_ONLY_BASES and (
          mod.imports.get(head, "").split(".")[0] == "libcst"
          or mod.imports.get(d, "").split(".")[0] == "libcst"):
        seen_visitor = True
        continue
      return "transformer"
  return "visitor" if seen_visitor else "transformer"


def _visitor_reference(ctx):
  """Reads from libcst's CSTNode.visit (libcst/_nodes/base.py) that the result
  of visiting with a CSTVisitor is the visited node itself: the branch
  `if isinstance(visitor, CSTVisitor): ...; leave_result = self`, and
  `return leave_result`."""
  def load():
    model = _cst(ctx)
    c = model.classes.get("CSTNode")
    if c is None:
      raise AnalysisError("libcst reference: class CSTNode not found")
    fn = next((s for s in c["node"].body
               if isinstance(s, ast.FunctionDef) and s.name == "visit"), None)
    if fn is None or len(fn.args.args) != 2:
      raise AnalysisError("libcst reference: CSTNode.visit(self, visitor) not found")
    self_, vis = (a.arg for a in fn.args.args)
    rets = [r for r in walk_no_nested(fn) if isinstance(r, ast.Return)]
    if len(rets) != 1 or not isinstance(rets[0].value, ast.Name):
      raise AnalysisError("libcst reference: CSTNode.visit does not return one local")
    res = rets[0].value.id
    binds = [a for a in walk_no_nested(fn) if isinstance(a, ast.Assign)
             and any(isinstance(t, ast.Name) and t.id == res for t in a.targets)]
    for a in binds:
      if src(a.value) != self_:
        continue
      par = c_parent(fn, a)
      if isinstance(par, ast.If) and a in par.body and \
          src(par.test) == f"isinstance({vis}, CSTVisitor)" and \
          len([b for b in binds if b in par.body]) == 1:
        return {"function": "CSTNode.visit", "file": "_nodes/base.py",
                "branch": src(par.test), "result": f"{res} = {self_}"}
    raise AnalysisError(
        "libcst reference: CSTNode.visit no longer returns the node itself for "
        "a CSTVisitor")
  return ctx.memo(("c20", "visitor-ref"), load)


def c_parent(root, node):
  for n in ast.walk(root):
    for c in ast.iter_child_nodes(n):
      if c is node:
        return n
  return None


def _methods(mod, cname):
  """name -> def for the methods of `cname`, inherited ones (from base classes
  defined in the module) included; the most derived definition wins."""
  out = {}
  for k in reversed(_local_mro(mod, cname)):
    out.update(mod.methods(k))
  return out


def _method_env(model, typer_mod, fn, kind="transformer"):
  """Parameter types of a libcst callback, from its name (leave_X / visit_X).
  libcst calls leave_X(original_node, updated_node) on a transformer and
  leave_X(original_node) on a read-only CSTVisitor."""
  for prefix, n in (("leave_", 2 if kind == "transformer" else 1), ("visit_", 1)):
    if fn.name.startswith(prefix):
      cls = fn.name[len(prefix):]
      if cls not in model.classes:
        raise AnalysisError(f"{fn.name}: libcst has no node class {cls}")
      params = fn.args.args[1:1 + n]
      if len(params) != n:
        raise AnalysisError(f"{fn.name}: expected {n} node parameter(s)")
      env = {}
      for p in params:
        if p.annotation is not None:
          d = dotted(p.annotation) or ""
          if d.split(".")[-1] != cls:
            raise AnalysisError(
                f"{fn.name}: parameter {p.arg} is annotated {src(p.annotation)} "
                f"but libcst passes a {cls}")
        env[p.arg] = frozenset([cls])
      return env
  return None


# -- chains ------------------------------------------------------------------------------

def _chain(mod, rd, expr):
  """(base, steps): `base.step1(..).step2` with names followed through copies.

  steps are (attr, call-or-None) innermost first; base is ("call", Call) for a
  module-level function call, ("param", Def) or ("expr", node).
  """
  steps = []
  for _ in range(50):
    if isinstance(expr, ast.Name):
      ds = rd.defs_of(expr)
      if not ds:
        return ("expr", expr), steps[::-1]
      d = _one(list(ds), f"binding of {expr.id}")
      if d.kind == "param":
        return ("param", d), steps[::-1]
      if d.kind != "assign" or d.path:
        raise AnalysisError(f"chain: {expr.id} bound by {d.describe()}")
      expr = d.value
    elif isinstance(expr, ast.Call) and isinstance(expr.func, ast.Attribute):
      root = expr.func
      while isinstance(root, ast.Attribute):
        root = root.value
      if isinstance(root, ast.Name) and root.id in mod.imports and not rd.defs_of(root) \
          and dotted(expr.func):
        return ("call", expr), steps[::-1]
      steps.append((expr.func.attr, expr))
      expr = expr.func.value
    elif isinstance(expr, ast.Call):
      return ("call", expr), steps[::-1]
    elif isinstance(expr, ast.Attribute):
      steps.append((expr.attr, None))
      expr = expr.value
    else:
      return ("expr", expr), steps[::-1]
  raise AnalysisError("chain: too long")


class _M:
  pass


def _model(ctx):
  return ctx.memo(("c20", "model"), lambda: _build(ctx))


def _build(ctx):
  m = _M()
  m.mod = mod = get_module(ctx, MP)
  m.classes = _transformer_classes(ctx, mod)
  m.kinds = {c: _class_kind(mod, c) for c in m.classes}
  for need in REQUIRED_FILTERS:
    if m.kinds[need] != "transformer":
      raise AnalysisError(f"anchor class {need} is not a CSTTransformer")
  m.ms = mod.func("merge_sources")
  m.mc = mod.func("_merge_csts")
  for fn, need in ((m.ms, {"py", "pyi"}), (m.mc, {"py_tree", "pyi_tree"})):
    have = {a.arg for a in fn.args.args + fn.args.kwonlyargs}
    if have != need:
      raise AnalysisError(f"{fn.name}: parameters {sorted(have)}, expected {sorted(need)}")
  refs = [n for n in ast.walk(mod.tree) if isinstance(n, ast.Name) and n.id == m.mc.name]
  calls = [c for c in ast.walk(mod.tree) if isinstance(c, ast.Call) and c.func in refs]
  if len(refs) != len(calls):
    raise AnalysisError(f"{m.mc.name} is referenced without being called: aliasing is not tracked")
  # the one place (merge_sources itself or a helper it calls) that starts the merge
  m.call = _one(calls, f"call of {m.mc.name} in {MP}")
  m.args = bind_args(m.call, m.mc)
  if set(m.args) != {"py_tree", "pyi_tree"}:
    raise AnalysisError("merge_sources: _merge_csts is not given both trees")
  _wire(ctx, m)
  return m


class _Pipeline:
  """What a model run of merge_sources with abstract visits (see
  rules/_util_c20.py) shows: which tree reaches _merge_csts through which
  visits, and what is returned."""

  def __init__(self, ctx):
    from rules import _util_c20 as mx
    m = _model(ctx)
    self.mx = mx
    self.it = it = mx._Interp(ctx, abstract_visits=True)
    texts = {p: mx._Source(mx._N("Module", body=[], header=[], footer=[]), p)
             for p in ("py", "pyi")}
    try:
      self.returned = it.call(m.ms, None, [], texts)
    except RecursionError as e:
      raise AnalysisError("model execution of merge_sources: recursion too deep") from e
    if it.captured is None or it.captured_call is not m.call:
      raise AnalysisError(
          f"model execution of merge_sources: the call of {m.mc.name} was not reached")
    if it.branches:
      raise AnalysisError(
          "merge_sources: which visitors the trees pass on their way to "
          f"{m.mc.name} depends on run-time tests ({'; '.join(it.branches[:3])}): only a "
          "pipeline without branches is decided")
    self.pyi = it.captured["pyi_tree"]
    self.py = it.captured["py_tree"]

  def tree(self, v):
    return isinstance(v, self.mx._N)

  def describe(self, v):
    """('text the tree was parsed from' | description, [visitor classes applied])."""
    it = self.it
    if isinstance(v, self.mx._Code):
      root, steps = self.describe(v.of)
      return root, steps + ["code"]
    if isinstance(v, self.mx._Merged):
      return "_merge_csts(..)", []
    if not self.tree(v):
      return repr(v), []
    root = it.root_of(v)
    return (f"parse_module({root})" if root else "<unknown tree>",
            [ev["obj"].cname for ev in it.chain_of(v)])

  def read_only_visits(self):
    return [ev for ev in self.it.events if ev["kind"] == "visitor"]


def _pipeline(ctx):
  return ctx.memo(("c20", "pipeline"), lambda: _Pipeline(ctx))


def _ctor_of(m, rd, expr):
  """The `K(...)` call that creates the module-local visitor/transformer
  instance `expr` evaluates to: written in place, or held in a local with
  exactly one reaching definition.  None when it is something else.  The
  constructor arguments must bind to K's __init__ (found through the
  module-local bases; libcst's own __init__ takes none)."""
  for _ in range(10):
    if isinstance(expr, ast.Name) and rd is not None:
      ds = rd.defs_of(expr)
      if len(ds) != 1:
        return None
      d = next(iter(ds))
      if d.kind != "assign" or d.path:
        return None
      expr = d.value
      continue
    break
  if not (isinstance(expr, ast.Call) and isinstance(expr.func, ast.Name)
          and expr.func.id in m.classes):
    return None
  if rd is not None and rd.defs_of(expr.func):
    return None     # a local shadows the class name
  init = _methods(m.mod, expr.func.id).get("__init__")
  if init is None:
    if expr.args or expr.keywords:
      raise AnalysisError(
          f"{expr.func.id}(..) is given arguments but defines no __init__")
  else:
    bind_args(expr, init, skip_self=True)   # AnalysisError when they do not bind
  return expr


def _visit_step(m, rd, step):
  """(class name, constructor call) for a `.visit(<instance of K>)` step where
  K is a visitor/transformer class of the module, else None."""
  attr, call = step
  if attr != "visit" or call is None or len(call.args) != 1 or call.keywords:
    return None
  ctor = _ctor_of(m, rd, call.args[0])
  return (ctor.func.id, ctor) if ctor is not None else None


# -- R20.1 ---------------------------------------------------------------------------

@rule("R20.1", "C20", floor=5)
def r20_1(ctx):
  """Filters on the pyi path, nothing on the py path, result = merged.code."""
  m = _model(ctx)
  mod = m.mod
  p = _pipeline(ctx)
  it = p.it
  for label, v in (("stub", p.pyi), ("source", p.py)):
    if not p.tree(v):
      raise AnalysisError(
          f"merge_sources: the {label} tree handed to {m.mc.name} is {v!r}: it goes "
          "through a step that is not .visit(<instance of a local visitor/transformer "
          "class>)")
  root, applied_all = p.describe(p.pyi)
  if it.root_of(p.pyi) != "pyi":
    ctx.bad("merge_sources:pyi-tree-is-the-parsed-stub", MP, m.call.lineno,
            "the pyi_tree handed to _merge_csts is not built from "
            "cst.parse_module(pyi)", {"base": root, "steps": applied_all})
    return
  read_only = sorted({ev["obj"].cname for ev in p.read_only_visits()})
  if read_only:
    _visitor_reference(ctx)
  applied = [ev["obj"].cname for ev in it.chain_of(p.pyi) if ev["kind"] == "transformer"]
  for need in REQUIRED_FILTERS:
    ctx.check(need in applied, f"merge_sources:pyi-tree-passes:{need}", MP,
              m.call.lineno,
              f"the stub tree reaches _merge_csts without passing {need} "
              f"(applied: {applied}); the annotations it removes (Any/Never, "
              "trivial literal types) would be merged into the source",
              {"applied": applied, "read_only_steps": read_only,
               "pipeline": it.trace})
  py_root, py_steps = p.describe(p.py)
  py_ok = it.root_of(p.py) == "py"
  py_rewriting = [ev["obj"].cname for ev in it.chain_of(p.py)]
  ctx.check(py_ok and not py_rewriting, "merge_sources:py-tree-untransformed", MP,
            m.call.lineno,
            "the py_tree handed to _merge_csts must be cst.parse_module(py) "
            f"itself; found {py_root} followed by visits of {py_steps}: any "
            "transformer on the source tree can change more than annotations",
            {"base": py_root, "rewriting": py_rewriting,
             "read_only_steps": sorted({ev["obj"].cname for ev in p.read_only_visits()
                                        if it.root_of(ev["recv"]) == "py"})})
  rets = [n for n in walk_no_nested(m.ms) if isinstance(n, ast.Return)]
  if not rets:
    raise AnalysisError("merge_sources has no return")
  shown = p.describe(p.returned)
  ok = isinstance(p.returned, p.mx._Code) and p.returned.of is it.merged
  ctx.check(ok, "merge_sources:returns-merged-code", MP, rets[0].lineno,
            f"merge_sources returns {shown}; it must be exactly the `.code` of "
            "the tree returned by _merge_csts", {"returned": [shown[0], shown[1]]})
  # _merge_csts wiring
  fn = m.mc
  rdc = ReachingDefs(mod, fn)
  stores = [c for c in calls_in(fn) if isinstance(c.func, ast.Attribute)
            and c.func.attr == "store_stub_in_context"]
  trans = [c for c in calls_in(fn) if isinstance(c.func, ast.Attribute)
           and c.func.attr == "transform_module"]
  st = _one(stores, "store_stub_in_context call")
  tr = _one(trans, "transform_module call")
  m.store_call, m.trans_call = st, tr
  ctor = tr.func.value
  if not isinstance(ctor, ast.Call):
    base, steps = _chain(mod, rdc, ctor)
    if base[0] != "call" or steps:
      raise AnalysisError("_merge_csts: visitor construction not found")
    ctor = base[1]
  m.ctor = ctor

  def visitor_class(expr):
    base, steps = _chain(mod, rdc, expr)
    parts = [src(base[1])] if base[0] == "expr" else []
    return base[0] == "expr" and not [s for s in steps if s[1] is not None] and \
        (dotted(base[1]) or "").split(".")[0] in mod.imports and \
        ([s[0] for s in steps] or [dotted(base[1]).split(".")[-1]])[-1] == APPLY
  cls_ok = visitor_class(ctor.func) and visitor_class(st.func.value)
  stub = st.args[1] if len(st.args) > 1 else next(
      (k.value for k in st.keywords if k.arg == "stub"), None)
  tgt = tr.args[0] if tr.args else None
  c1 = st.args[0] if st.args else None
  c2 = ctor.args[0] if ctor.args else next(
      (k.value for k in ctor.keywords if k.arg == "context"), None)
  wired = (isinstance(stub, ast.Name) and rdc.defs_of(stub) == {rdc.params["pyi_tree"]}
           and isinstance(tgt, ast.Name) and rdc.defs_of(tgt) == {rdc.params["py_tree"]}
           and isinstance(c1, ast.Name) and isinstance(c2, ast.Name)
           and rdc.defs_of(c1) == rdc.defs_of(c2) and len(rdc.defs_of(c1)) == 1
           and executes_first(mod, fn, st, tr))
  rets = [n for n in walk_no_nested(fn) if isinstance(n, ast.Return)]
  def is_result(b, s):
    return (b[0] == "call" and b[1] is tr and not s) or (
        b[0] == "call" and b[1] is ctor and len(s) == 1 and s[0][1] is tr)
  ret_ok = bool(rets) and all(
      is_result(*_chain(mod, rdc, r.value)) for r in rets)
  ctx.check(cls_ok and wired and ret_ok, "_merge_csts:stub=pyi_tree,target=py_tree",
            MP, tr.lineno,
            f"_merge_csts must store pyi_tree as the stub (found "
            f"{src(stub) if stub is not None else None}), transform py_tree "
            f"(found {src(tgt) if tgt is not None else None}) with libcst's "
            f"{APPLY} on the same context, and return that result",
            {"stub": src(stub) if stub is not None else None,
             "target": src(tgt) if tgt is not None else None,
             "visitor_ok": cls_ok, "returns_result": ret_ok})


def executes_first(mod, fn, first_call, second_call):
  from rules.provenance import executes_before
  s1 = mod.enclosing_stmt(first_call)
  s2 = mod.enclosing_stmt(second_call)
  if s1 is s2:
    return first_call.lineno <= second_call.lineno
  return executes_before(mod, fn, lambda u: u is s1, s2)


# -- R20.2 ---------------------------------------------------------------------------

def _libcst_apply_defaults(ctx):
  """Signatures of ApplyTypeAnnotationsVisitor.__init__ / store_stub_in_context."""
  def load():
    model = _cst(ctx)
    path = os.path.join(model.root, "codemod", "visitors", "_apply_type_annotations.py")
    try:
      with open(path, encoding="utf-8") as f:
        tree = ast.parse(f.read())
    except (OSError, SyntaxError) as e:
      raise AnalysisError(f"libcst reference {path}: {e}") from e
    for st in tree.body:
      if isinstance(st, ast.ClassDef) and st.name == APPLY:
        out = {}
        for s in st.body:
          if isinstance(s, ast.FunctionDef) and s.name in (
              "__init__", "store_stub_in_context"):
            out[s.name] = s
        if len(out) == 2:
          return out
    raise AnalysisError(f"libcst reference: {APPLY} signatures not found")
  return ctx.memo(("c20", "apply"), load)


def _switch(call, fn, skip_self, name):
  """Value of boolean parameter `name` at `call` of libcst function `fn`."""
  bound = bind_args(call, fn, skip_self=skip_self)
  if name in bound:
    v = try_fold(bound[name], default="<not constant>")
    return v, "explicit"
  params = [a.arg for a in fn.args.posonlyargs + fn.args.args]
  defaults = fn.args.defaults
  idx = params.index(name) - (len(params) - len(defaults)) if name in params else -1
  if idx < 0:
    raise AnalysisError(f"libcst reference: {fn.name} has no default for {name}")
  return try_fold(defaults[idx], default="<not constant>"), "libcst default"


@rule("R20.2", "C20", floor=2)
def r20_2(ctx):
  """Existing annotations are kept: both overwrite switches are False."""
  m = _model(ctx)
  sigs = _libcst_apply_defaults(ctx)
  for call, fn, skip, label in (
      (m.ctor, sigs["__init__"], True, f"{APPLY}(..)"),
      (m.store_call, sigs["store_stub_in_context"], False, "store_stub_in_context(..)")):
    v, how = _switch(call, fn, skip, "overwrite_existing_annotations")
    if v == "<not constant>":
      raise AnalysisError(f"_merge_csts: overwrite switch of {label} is not a constant")
    ctx.check(v is False, f"_merge_csts:{label}:overwrite_existing_annotations",
              MP, call.lineno,
              f"{label} has overwrite_existing_annotations={v!r} ({how}); libcst "
              "ORs the two switches, and when set an annotation already in the "
              "source is replaced by the inferred one",
              {"value": v, "source": how})


def _wire(ctx, m):
  """Finds the libcst calls of _merge_csts (when R20.1 did not run first)."""
  mod, fn = m.mod, m.mc
  rdc = ReachingDefs(mod, fn)
  st = _one([c for c in calls_in(fn) if isinstance(c.func, ast.Attribute)
             and c.func.attr == "store_stub_in_context"], "store_stub_in_context call")
  tr = _one([c for c in calls_in(fn) if isinstance(c.func, ast.Attribute)
             and c.func.attr == "transform_module"], "transform_module call")
  ctor = tr.func.value
  if not isinstance(ctor, ast.Call):
    base, steps = _chain(mod, rdc, ctor)
    if base[0] != "call" or steps:
      raise AnalysisError("_merge_csts: visitor construction not found")
    ctor = base[1]
  m.store_call, m.trans_call, m.ctor = st, tr, ctor


# -- R20.3 ---------------------------------------------------------------------------

def _isinstance_tests(typer, fn):
  """(call, subject expr, [class names]) for isinstance tests on libcst classes."""
  out = []
  for c in calls_in(fn, name="isinstance"):
    if len(c.args) != 2:
      continue
    targets = c.args[1].elts if isinstance(c.args[1], ast.Tuple) else [c.args[1]]
    names = [typer.node_class(t) for t in targets]
    if not all(names):
      continue
    out.append((c, c.args[0], names))
  return sorted(out, key=lambda x: (x[0].lineno, x[0].col_offset))


def _nth(seen, construct):
  """`construct`, numbered from the second occurrence on (source order)."""
  k = seen[construct] = seen.get(construct, 0) + 1
  return construct if k == 1 else f"{construct}#{k}"


def _root_node(expr):
  while isinstance(expr, ast.Attribute):
    expr = expr.value
  return expr if isinstance(expr, ast.Name) else None


def _root_name(expr):
  r = _root_node(expr)
  return r.id if r is not None else None


def _is_static(fn, mod=None):
  """Helpers that take no instance: @staticmethod methods and (with `mod`
  given) functions at the top level of the module; other decorators are not
  modelled."""
  decos = [dotted(d.func if isinstance(d, ast.Call) else d) or src(d)
           for d in fn.decorator_list]
  if mod is not None and not isinstance(mod.parent.get(fn), ast.ClassDef):
    if decos:
      raise AnalysisError(f"{fn.name}: decorator(s) {decos} are not modelled")
    return True
  if not decos:
    return False
  if decos == ["staticmethod"]:
    return True
  raise AnalysisError(f"{fn.name}: decorator(s) {decos} are not modelled")


def _typeable(typer, fn, subj, env):
  """Does the rule speak about this isinstance subject?  Yes when its root is
  a parameter with a known static type, or a local of the function (typed by
  its reaching definitions - an AnalysisError when that fails); no for `self`,
  parameters of unknown type and names of the module."""
  r = _root_node(subj)
  if r is None:
    return False
  if r.id in env:
    return True
  if typer.rd is None or r.id in typer.rd.params:
    return False
  return bool(typer.rd.defs_of(r))


class _Res:
  """What is known about one helper method for one assignment of static types
  to its parameters."""

  def __init__(self, fn, penv, typer):
    self.fn, self.penv, self.typer = fn, penv, typer
    self.possible = False     # some path can return a true value
    self.falls = False        # control can fall off the end (returns None)
    self.dead = []            # tests that cannot hold, as text
    self.live_returns = []
    self.tests = []           # (index, text, line, static type shown, can hold)
    self.nested = []
    self._ret = None

  def total_tests(self, seen=None):
    seen = seen if seen is not None else set()
    if id(self) in seen:
      return 0
    seen.add(id(self))
    return len(self.tests) + sum(r.total_tests(seen) for r in self.nested)

  def ret_type(self):
    """Join of the static types of the values the live returns hand back."""
    if self._ret is None:
      out = frozenset(["None"]) if self.falls else frozenset()
      for r in self.live_returns:
        if r.value is None:
          out |= {"None"}
        else:
          out |= self.typer.type_of(r.value, self.typer.narrow_at(r.value))
      self._ret = out
    return self._ret


class _Inter:
  """Typing across the helper methods (everything that is not a libcst
  callback) of one visitor/transformer class: a helper is analysed once per
  assignment of static types to its parameters - which of its isinstance tests
  can hold, which branches are dead for these types, whether a true value can
  come back, and the join of the types it can return."""

  def __init__(self, model, mod, cname, methods, kind):
    self.model, self.mod, self.cname = model, mod, cname
    self.methods, self.kind = methods, kind
    self.memo = {}
    self.active = []
    self.liveness = {}      # (helper name, test index) -> record
    self.site = "?"
    self._local = set(_local_mro(mod, cname))

  def helper_of(self, call, caller):
    """The helper method `self.H(..)` / `<class of the module>.H(..)` written
    inside `caller` calls, or None."""
    d = dotted(call.func) or ""
    if isinstance(call.func, ast.Name):
      # a function at the top level of the module, unless a local shadows it
      h = self.mod.functions.get(d)
      if h is None or h is caller or any(
          isinstance(n, ast.Name) and n.id == d and not isinstance(n.ctx, ast.Load)
          for n in ast.walk(caller)) or any(
              a.arg == d for a in ast.walk(caller.args) if isinstance(a, ast.arg)):
        return None
      return h
    if d.count(".") != 1:
      return None
    head, name = d.split(".")
    if name not in self.methods:
      return None
    ps = caller.args.posonlyargs + caller.args.args
    is_self = bool(ps) and head == ps[0].arg and not caller.decorator_list
    if not is_self and head not in self._local:
      return None
    h = self.methods[name]
    if _method_env(self.model, self.mod, h, self.kind) is not None:
      return None           # a callback, not a helper
    if not is_self and not _is_static(h):
      return None
    return h

  def _matters(self, h, p):
    """Can the (unknown) type of parameter p of h change a verdict?  It can
    when p, or a local computed from it, is the subject of an isinstance test
    on a libcst class or is handed to another helper."""
    tainted = {p}
    changed = True
    while changed:
      changed = False
      for n in ast.walk(h):
        value, targets = None, []
        if isinstance(n, ast.Assign):
          value, targets = n.value, n.targets
        elif isinstance(n, (ast.AnnAssign, ast.AugAssign)) and n.value is not None:
          value, targets = n.value, [n.target]
        elif isinstance(n, ast.NamedExpr):
          value, targets = n.value, [n.target]
        elif isinstance(n, (ast.For, ast.comprehension)):
          value, targets = n.iter, [n.target]
        if value is None or not any(isinstance(x, ast.Name) and x.id in tainted
                                    for x in ast.walk(value)):
          continue
        for t in targets:
          for x in ast.walk(t):
            if isinstance(x, ast.Name) and x.id not in tainted:
              tainted.add(x.id)
              changed = True
    probe = Typer(self.model, self.mod, {})
    if any(_root_name(subj) in tainted for _, subj, _ in _isinstance_tests(probe, h)):
      return True
    for c in calls_in(h):
      if self.helper_of(c, h) is not None and any(
          isinstance(x, ast.Name) and x.id in tainted
          for a in list(c.args) + [k.value for k in c.keywords] for x in ast.walk(a)):
        return True
    return False

  def arg_types(self, typer, call, h, narrow):
    """(parameter -> argument expr, parameter -> static type) at a call of h;
    an argument that cannot be typed is left out unless its type matters."""
    bound = bind_args(call, h, skip_self=not _is_static(h, self.mod))
    penv = {}
    for p, a in bound.items():
      try:
        penv[p] = typer.type_of(a, narrow)
      except AnalysisError:
        if self._matters(h, p):
          raise
    return bound, penv

  def analyse(self, h, penv):
    key = (h.name, h.lineno, tuple(sorted(penv.items(), key=lambda kv: kv[0])))
    res = self.memo.get(key)
    if res is None:
      if key in self.active:
        raise AnalysisError(f"{self.cname}.{h.name} is recursive: not modelled")
      self.active.append(key)
      try:
        res = self._analyse(h, penv)
      finally:
        self.active.pop()
      self.memo[key] = res
    self._record(res, set())
    return res

  def _record(self, res, seen):
    if id(res) in seen:
      return
    seen.add(id(res))
    for i, text, line, shown, alive in res.tests:
      rec = self.liveness.setdefault((res.fn.name, i), {
          "test": text, "line": line, "alive": False, "sites": []})
      rec["alive"] = rec["alive"] or alive
      site = f"{self.site}: {shown}"
      if site not in rec["sites"]:
        rec["sites"].append(site)
    for r in res.nested:
      self._record(r, seen)

  def _analyse(self, h, penv):
    model = self.model
    ptyper = Typer(model, self.mod, penv, h, inter=self)
    res = _Res(h, penv, ptyper)
    all_tests = _isinstance_tests(ptyper, h)
    tests = {id(c): (subj, names) for c, subj, names in all_tests
             if _typeable(ptyper, h, subj, penv)}
    dead = res.dead

    def kill(stmts):
      ptyper.dead |= {id(x) for b in stmts for x in ast.walk(b)}
      ptyper._assumed.clear()

    def helper_result(e):
      h2 = self.helper_of(e, h) if isinstance(e, ast.Call) else None
      if h2 is None:
        return None
      _, penv2 = self.arg_types(ptyper, e, h2, ptyper.narrow_at(e))
      r2 = self.analyse(h2, penv2)
      if r2 not in res.nested:
        res.nested.append(r2)
      return r2

    def local_value(e):
      """The expression a once-bound local holds (its only reaching definition)."""
      if isinstance(e, ast.Name) and e.id not in ptyper.rd.params:
        ds = [d for d in ptyper.rd.defs_of(e) if id(d.node) not in ptyper.dead]
        if len(ds) == 1 and ds[0].kind in ("assign", "walrus") and not ds[0].path:
          return ds[0].value
      return None

    def can_true(e, depth=0):
      if isinstance(e, ast.BoolOp):
        vs = [can_true(v, depth) for v in e.values]
        return all(vs) if isinstance(e.op, ast.And) else any(vs)
      if isinstance(e, ast.UnaryOp) and isinstance(e.op, ast.Not):
        return can_false(e.operand, depth)
      if isinstance(e, ast.Constant):
        return bool(e.value)
      if isinstance(e, ast.IfExp):
        return (can_true(e.test, depth) and can_true(e.body, depth)) or \
            (can_false(e.test, depth) and can_true(e.orelse, depth))
      if id(e) in tests:
        subj, names = tests[id(e)]
        # the subject is typed where the test stands: a name re-bound on the
        # way (`while isinstance(p, A): p = p.value`) has the join of the
        # types of the values assigned to it
        t = ptyper.type_of(subj, ptyper.narrow_at(e))
        ok = any(model.can_be(t, k) for k in names)
        if not ok:
          dead.append(f"isinstance({src(subj)}, {'/'.join(names)}) sees a {show(t)}")
        return ok
      if isinstance(e, ast.Call) and isinstance(e.func, ast.Name) and e.func.id == "bool" \
          and len(e.args) == 1 and not e.keywords and ptyper._is_builtin(e.func):
        return can_true(e.args[0], depth)
      r2 = helper_result(e)
      if r2 is not None:
        if r2.total_tests() and not r2.possible:
          dead.extend(f"{r2.fn.name}(..): {x}" for x in r2.dead)
          return False
        return True
      v = local_value(e) if depth < 5 else None
      if v is not None:
        return can_true(v, depth + 1)
      return True

    def can_false(e, depth=0):
      if isinstance(e, ast.BoolOp):
        vs = [can_false(v, depth) for v in e.values]
        return any(vs) if isinstance(e.op, ast.And) else all(vs)
      if isinstance(e, ast.UnaryOp) and isinstance(e.op, ast.Not):
        return can_true(e.operand, depth)
      if isinstance(e, ast.Constant):
        return not bool(e.value)
      if isinstance(e, ast.IfExp):
        return (can_true(e.test, depth) and can_false(e.body, depth)) or \
            (can_false(e.test, depth) and can_false(e.orelse, depth))
      v = local_value(e) if depth < 5 else None
      if v is not None:
        return can_false(v, depth + 1)
      return True

    def block(stmts):
      """(a true value can be returned, control can fall through)."""
      found = False
      for k, st in enumerate(stmts):
        if isinstance(st, ast.Return):
          res.live_returns.append(st)
          kill(stmts[k + 1:])
          return found or (st.value is not None and can_true(st.value)), False
        if isinstance(st, ast.Raise):
          kill(stmts[k + 1:])
          return found, False
        if isinstance(st, ast.If):
          t_ok, f_ok = can_true(st.test), can_false(st.test)
          for blk, live in ((st.body, t_ok), (st.orelse, f_ok)):
            if not live:
              kill(blk)
          r1, f1 = block(st.body) if t_ok else (False, False)
          r2, f2 = block(st.orelse) if f_ok else (False, False)
          found = found or r1 or r2
          if not (f1 or f2):
            kill(stmts[k + 1:])
            return found, False
        elif isinstance(st, (ast.While, ast.For)):
          if not isinstance(st, ast.While) or can_true(st.test):
            found = block(st.body)[0] or found
          else:
            kill(st.body)
          found = block(st.orelse)[0] or found
        elif isinstance(st, (ast.With, ast.Try, ast.Match, ast.AsyncWith, ast.AsyncFor)):
          raise AnalysisError(f"{h.name}: with/try/match in a helper is not modelled")
      return found, True

    res.possible, res.falls = block(h.body)
    ptyper._assumed.clear()
    # helpers called for their value only (`x = self._strip(..)`) count as well
    for c in sorted(calls_in(h), key=lambda c: (c.lineno, c.col_offset)):
      if id(c) not in ptyper.dead:
        helper_result(c)
    for i, (c, subj, names) in enumerate(all_tests):
      if id(c) not in tests:
        continue
      text = f"isinstance({src(subj)}, {'/'.join(names)})"
      if id(c) in ptyper.dead:
        res.tests.append((i, text, c.lineno, "<unreachable for these argument types>", False))
        continue
      t = ptyper.type_of(subj, ptyper.narrow_at(c))
      res.tests.append((i, text, c.lineno, show(t), any(model.can_be(t, k) for k in names)))
    return res


class _ClassAnalysis:
  """The callbacks of one visitor/transformer class, typed, and the helper
  methods they reach (transitively), analysed per call site."""

  def __init__(self, ctx, m, cname):
    mod, model = m.mod, _cst(ctx)
    self.methods = _methods(mod, cname)
    kind = m.kinds[cname]
    self.inter = inter = _Inter(model, mod, cname, self.methods, kind)
    self.callbacks = []     # (method name, def, parameter types, Typer)
    self.sites = []         # (callback name, call, helper def, bound, penv, _Res)
    for mname, fn in sorted(self.methods.items()):
      env = _method_env(model, mod, fn, kind)
      if env is None:
        continue
      typer = Typer(model, mod, env, fn, inter=inter)
      self.callbacks.append((mname, fn, env, typer))
      inter.site = mname
      for call in sorted(calls_in(fn), key=lambda c: (c.lineno, c.col_offset)):
        h = inter.helper_of(call, fn)
        if h is None:
          continue
        bound, penv = inter.arg_types(typer, call, h, typer.narrow_at(call))
        self.sites.append((mname, call, h, bound, penv, inter.analyse(h, penv)))


def _class_analysis(ctx, cname):
  return ctx.memo(("c20", "class-analysis", cname),
                  lambda: _ClassAnalysis(ctx, _model(ctx), cname))


@rule("R20.3", "C20", floor=5)
def r20_3(ctx):
  """Predicates are applied to values that can have the tested type."""
  m = _model(ctx)
  mod, model = m.mod, _cst(ctx)
  n = 0
  for cname in sorted(m.classes):
    an = _class_analysis(ctx, cname)
    keys_of = {}
    # isinstance tests written directly in a callback
    for mname, fn, env, typer in an.callbacks:
      keys = keys_of.setdefault(mname, {})
      for c, subj, names in _isinstance_tests(typer, fn):
        if not _typeable(typer, fn, subj, env):
          continue
        t = typer.type_of(subj, typer.narrow_at(c))
        n += 1
        ctx.check(any(model.can_be(t, k) for k in names),
                  _nth(keys, f"{cname}.{mname}:isinstance({src(subj)},{'|'.join(names)})"),
                  MP, c.lineno,
                  f"{src(subj)} has static type {show(t)} and can never be a "
                  f"{'/'.join(names)}: the test is always false",
                  {"static_type": show(t), "tested": names})
    # call sites of helper predicates: self.<pred>(..) inside callbacks
    for mname, call, pred, bound, penv, res in an.sites:
      if not res.total_tests():
        continue
      keys = keys_of.setdefault(mname, {})
      n += 1
      arg = ", ".join(f"{p_}={src(a_)}" for p_, a_ in sorted(bound.items()))
      ctx.check(res.possible, _nth(keys, f"{cname}.{pred.name}@{mname}:can-be-true"),
                MP, call.lineno,
                f"{mname} calls {pred.name}({arg}) with static argument types "
                f"{ {p_: show(t_) for p_, t_ in sorted(penv.items())} } (from the libcst "
                f"field declarations): no path of {pred.name} can return a true "
                f"value ({'; '.join(sorted(set(res.dead))) or 'every returned value is false'}), "
                "so the filter never fires and the annotation is merged",
                {"arguments": arg, "dead_tests": sorted(set(res.dead))})
    # a test of a shared helper that no caller can ever satisfy is dead code:
    # the arm it guards (a disjunct of the filter) never applies
    for (pname, i), rec in sorted(an.inter.liveness.items()):
      n += 1
      ctx.check(rec["alive"], f"{cname}.{pname}:test#{i}:live-for-some-caller", MP, rec["line"],
                f"{rec['test']} in {pname} can never be true for any caller "
                f"({'; '.join(rec['sites'])}): the arm of the filter it guards never applies",
                {"test": rec["test"], "callers": rec["sites"]})
  if not n:
    raise AnalysisError("no isinstance test on a libcst class found in the filters")


# -- R20.4 ---------------------------------------------------------------------------

_REWRITERS = {"visit", "transform_module", "transform_module_impl", "deep_replace",
              "deep_remove", "with_deep_changes"}


@rule("R20.4", "C20", floor=3)
def r20_4(ctx):
  """Who may transform: local transformers run on the stub chain only."""
  m = _model(ctx)
  mod = m.mod
  p = _pipeline(ctx)
  it = p.it
  # the visits that made the tree handed to _merge_csts(pyi_tree=) out of the
  # parsed stub (model run of merge_sources, see _Pipeline)
  chain = it.chain_of(p.pyi) if p.tree(p.pyi) and it.root_of(p.pyi) == "pyi" else []
  on_chain = {id(ev) for ev in chain}
  by_obj, by_call = {}, {}
  for ev in it.events:
    by_obj.setdefault(id(ev["obj"]), []).append(ev)
    by_call.setdefault(ev["call"], []).append(ev)
  by_ctor = {}
  for o in it.created:
    by_ctor.setdefault(o.ctor, []).append(o)
  rds = {}

  def rd_of(node):
    fn = mod.enclosing_function(node)
    if fn is None or isinstance(fn, ast.Lambda):
      return None
    if fn not in rds:
      rds[fn] = ReachingDefs(mod, fn)
    return rds[fn]

  def instance_on_chain(ctor):
    """Every instance this `K(..)` made in the model run visited the stub on
    its way to _merge_csts, and nothing else."""
    objs = by_ctor.get(ctor)
    if not objs:
      return False      # not executed by merge_sources at all
    for o in objs:
      evs = by_obj.get(id(o), [])
      if not evs or not all(id(ev) in on_chain for ev in evs):
        return False
    return True

  # `.visit(v)` with v an instance of a read-only visitor class returns the
  # receiver unchanged whatever the receiver is: not a rewrite
  read_only_visits, chain_visits = {}, set()
  for c in ast.walk(mod.tree):
    if not (isinstance(c, ast.Call) and isinstance(c.func, ast.Attribute)
            and c.func.attr == "visit"):
      continue
    evs = by_call.get(c)
    if evs:
      if all(ev["kind"] == "visitor" for ev in evs):
        read_only_visits[c] = sorted({ev["obj"].cname for ev in evs})[0]
      elif all(ev["kind"] == "visitor" or id(ev) in on_chain for ev in evs):
        chain_visits.add(c)
      continue
    try:      # not executed by merge_sources: judged where it stands
      vs = _visit_step(m, rd_of(c), ("visit", c))
    except AnalysisError:
      vs = None
    if vs is not None and m.kinds[vs[0]] == "visitor":
      read_only_visits[c] = vs[0]
  for cname in sorted(m.classes):
    made = [c for c in ast.walk(mod.tree) if isinstance(c, ast.Call)
            and isinstance(c.func, ast.Name) and c.func.id == cname]
    other_refs = [n for n in ast.walk(mod.tree) if isinstance(n, ast.Name)
                  and n.id == cname and isinstance(n.ctx, ast.Load)
                  and not (isinstance(mod.parent.get(n), ast.Call)
                           and mod.parent[n].func is n)
                  and not (isinstance(mod.parent.get(n), ast.ClassDef)
                           and n in mod.parent[n].bases)]
    if other_refs:
      raise AnalysisError(
          f"{cname} is referenced without being called (line "
          f"{other_refs[0].lineno}): aliasing is not tracked")
    if m.kinds[cname] == "visitor":
      # cannot rewrite any tree: where it is instantiated does not matter
      ref = _visitor_reference(ctx)
      ctx.ok(f"{cname}:read-only-visitor", MP, mod.cls(cname).lineno,
             {"instantiations": len(made),
              "passed_to_visit": len([c for c in made if any(
                  by_obj.get(id(o)) for o in by_ctor.get(c, ()))]),
              "libcst": ref})
      continue
    stray = [c for c in made if not instance_on_chain(c)]
    if not made and cname in REQUIRED_FILTERS:
      stray = [mod.cls(cname)]
    ctx.check(not stray, f"{cname}:instantiated-on-stub-chain-only", MP,
              stray[0].lineno if stray else mod.cls(cname).lineno,
              f"{cname} is instantiated outside the .visit chain of the parsed "
              "stub in merge_sources (or not at all): it would rewrite "
              "statements of a tree that is not the stub",
              {"instantiations": len(made), "on_stub_chain": len(made) - len(stray)})
  # no other tree rewriting call in the module
  known = chain_visits | {m.trans_call}
  extra = []
  # a helper function of the pipeline holds visits that were judged by what
  # the run of merge_sources did with them: it may not be entered from
  # anywhere else
  def read_only_where_it_stands(c):
    try:
      vs = _visit_step(m, rd_of(c), ("visit", c))
    except AnalysisError:
      return False
    return vs is not None and m.kinds[vs[0]] == "visitor"
  judged = {c for c in by_call if c is not None and not read_only_where_it_stands(c)} | {
      o.ctor for o in it.created if o.ctor is not None and m.kinds.get(o.cname) == "transformer"}
  sensitive = set()
  grew = True
  while grew:
    grew = False
    for fn in it.entered:
      if fn not in sensitive and any(
          n in judged or (isinstance(n, ast.Call) and isinstance(n.func, ast.Name)
                          and mod.functions.get(n.func.id) in sensitive)
          for n in ast.walk(fn)):
        sensitive.add(fn)
        grew = True
  for fn in it.entered:
    if fn not in sensitive:
      continue      # holds no visit and makes no transformer: harmless anywhere
    for n in ast.walk(mod.tree):
      if isinstance(n, ast.Name) and n.id == fn.name and isinstance(n.ctx, ast.Load):
        par = mod.parent.get(n)
        if not (isinstance(par, ast.Call) and par.func is n and par in it.called):
          where = mod.enclosing_function(n)
          extra.append(f"{fn.name}@{where.name if where else '<module>'}")
  for c in ast.walk(mod.tree):
    if isinstance(c, ast.Call) and isinstance(c.func, ast.Attribute) \
        and c.func.attr in _REWRITERS and c not in known \
        and c not in read_only_visits:
      extra.append(f"{src(c.func)}@{mod.enclosing_function(c).name if mod.enclosing_function(c) else '<module>'}")
  ctx.check(not extra, "merge_pyi:no-other-tree-rewrite", MP,
            0, f"further tree-rewriting calls {extra}: only the stub filters and "
            "the single transform_module(py_tree) of _merge_csts may rewrite a tree",
            {"known": len(known), "extra": extra,
             "read_only_visits": sorted(
                 f"{src(c.func.value)}.visit({k})"
                 for c, k in read_only_visits.items())})
  if ctx.tier == "thorough":
    hits = []
    for rel in all_py_files(ctx):
      if rel == MP or rel.endswith("_test.py"):
        continue
      text = ctx.read(rel)
      helpers = {fn.name for fn in it.entered}
      if not any(c in text for c in set(m.classes) | helpers):
        continue
      om = get_module(ctx, rel)
      merge_mods = {a for a, v in om.imports.items() if v.split(".")[-1] == "merge_pyi"}
      for n in ast.walk(om.tree):
        if isinstance(n, (ast.Name, ast.Attribute)) and (
            getattr(n, "id", None) in m.classes or getattr(n, "attr", None) in m.classes):
          hits.append(f"{rel}:{n.lineno}")
        elif isinstance(n, ast.Attribute) and n.attr in helpers and \
            isinstance(n.value, ast.Name) and n.value.id in merge_mods:
          hits.append(f"{rel}:{n.lineno}")
        elif isinstance(n, ast.ImportFrom) and (n.module or "").split(".")[-1] == "merge_pyi" \
            and any(a.name in helpers for a in n.names):
          hits.append(f"{rel}:{n.lineno}")
    ctx.check(not hits, "package:filters-not-used-elsewhere", MP, 0,
              f"the stub filters (or the helper functions of merge_sources that apply "
              f"them) are referenced outside merge_pyi.py: {hits[:5]}",
              {"references": hits[:10]})


# -- R20.5 ---------------------------------------------------------------------------

@rule("R20.5", "C20", floor=3)
def r20_5(ctx):
  """merge_files_src writes the merged text, to the file it read, on request."""
  m = _model(ctx)
  mod = m.mod
  fn = mod.func("merge_files_src")
  rd = ReachingDefs(mod, fn)
  if len(rd.positional) < 2:
    raise AnalysisError("merge_files_src: signature changed")
  p_path, p_pyi = rd.params[rd.positional[0]], rd.params[rd.positional[1]]
  call = _one(calls_in(fn, name="merge_sources"), "call of merge_sources")
  bound = bind_args(call, m.ms)

  def file_read_of(expr, param):
    os_ = rd.origins(expr)
    if len(os_) != 1 or os_[0].kind != "expr":
      return False
    e = os_[0].expr
    if not (isinstance(e, ast.Call) and isinstance(e.func, ast.Attribute)
            and e.func.attr == "read" and not e.args
            and isinstance(e.func.value, ast.Name)):
      return False
    d = rd.single_def(e.func.value, "file handle")
    o = d.value
    return d.kind == "with" and isinstance(o, ast.Call) and dotted(o.func) == "open" \
        and len(o.args) == 1 and not o.keywords and isinstance(o.args[0], ast.Name) \
        and rd.defs_of(o.args[0]) == {param}
  src_ok = "py" in bound and "pyi" in bound and file_read_of(bound["py"], p_path) \
      and isinstance(bound["pyi"], ast.Name) and rd.defs_of(bound["pyi"]) == {p_pyi}
  ctx.check(src_ok, "merge_files_src:merges-text-of-py_path-with-stub", MP,
            call.lineno,
            f"merge_sources must get py=<text read from {p_path.name}> and "
            f"pyi={p_pyi.name}; found py={src(bound.get('py')) if 'py' in bound else None}, "
            f"pyi={src(bound.get('pyi')) if 'pyi' in bound else None}",
            {"py": src(bound["py"]) if "py" in bound else None,
             "pyi": src(bound["pyi"]) if "pyi" in bound else None})
  # every write to a file: in merge_files_src itself or in a function of the
  # module it calls (followed two levels; a site = the function + the chain of
  # calls that leads to it)
  def callees(f):
    out = []
    for c in calls_in(f):
      if isinstance(c.func, ast.Name):
        h = mod.functions.get(c.func.id)
        if h is not None and h is not fn and h is not f and not any(
            isinstance(n, ast.Name) and n.id == c.func.id and not isinstance(n.ctx, ast.Load)
            for n in ast.walk(f)) and not any(
                x.arg == c.func.id for x in ast.walk(f.args) if isinstance(x, ast.arg)):
          out.append((c, h))
    return out
  sites = [(fn, [])]
  for c1, h1 in callees(fn):
    sites.append((h1, [c1]))
    for c2, h2 in callees(h1):
      sites.append((h2, [c1, c2]))
  writers = []
  for f, chain in sites:
    for c in calls_in(f, name="open"):
      mode = try_fold(c.args[1]) if len(c.args) > 1 else try_fold(
          next((k.value for k in c.keywords if k.arg == "mode"), ast.Constant("r")))
      if not isinstance(mode, str):
        raise AnalysisError(f"{f.name}: open() mode is not a constant")
      if set(mode) & set("wax+"):
        writers.append((c, f, chain))
  if len({id(c) for c, _, _ in writers}) == 1 and len(writers) > 1:
    raise AnalysisError("merge_files_src: the writing helper is reached by several calls")
  w, wf, chain = _one(writers, "open-for-writing in merge_files_src")
  funcs = [fn] + [mod.functions[c.func.id] for c in chain]
  rds = [rd] + [ReachingDefs(mod, f) for f in funcs[1:]]
  for h in funcs[1:]:
    # the guard of the one call is the guard of the write only when nothing
    # else can run the helper
    refs = [n for n in ast.walk(mod.tree) if isinstance(n, ast.Name) and n.id == h.name]
    if len(refs) != 1 or h.decorator_list or h.args.vararg or h.args.kwarg or len(
        [n for n in ast.walk(mod.tree) if isinstance(
            n, (ast.FunctionDef, ast.AsyncFunctionDef, ast.ClassDef)) and n.name == h.name]) != 1:
      raise AnalysisError(
          f"merge_files_src: helper {h.name} is referenced {len(refs)} times / redefined")
  if chain and not isinstance(mod.parent.get(chain[0]), ast.Expr):
    raise AnalysisError("merge_files_src: the writing helper is not called as a statement")

  def up(expr, level=None):
    """The expression of merge_files_src that `expr` of the writing function
    denotes (a parameter stands for the argument of the call), or None."""
    level = len(chain) if level is None else level
    if level == 0:
      return expr
    r = rds[level]
    if not isinstance(expr, ast.Name) or expr.id not in r.params or \
        r.defs_of(expr) != {r.params[expr.id]}:
      return None
    bound_h = bind_args(chain[level - 1], funcs[level])
    if expr.id not in bound_h:
      return None
    return up(bound_h[expr.id], level - 1)
  wrd = rds[-1]
  w_mode = try_fold(w.args[1]) if len(w.args) > 1 else try_fold(
      next((k.value for k in w.keywords if k.arg == "mode"), ast.Constant("r")))
  # only "w" replaces the text of the file by what is written
  truncates = "w" in w_mode and not set(w_mode) & set("ax+")
  w_target = up(w.args[0]) if w.args else None
  target_ok = isinstance(w_target, ast.Name) and rd.defs_of(w_target) == {p_path}
  wi = mod.parent.get(w)
  writes = []
  if isinstance(wi, ast.withitem) and isinstance(wi.optional_vars, ast.Name):
    for c in calls_in(mod.parent[wi]):
      if isinstance(c.func, ast.Attribute) and isinstance(c.func.value, ast.Name) \
          and c.func.value.id == wi.optional_vars.id:
        writes.append(c)
  else:
    raise AnalysisError("merge_files_src: writer is not `with open(..) as f`")
  content_ok = bool(writes) and all(
      c.func.attr == "write" and len(c.args) == 1 and up(c.args[0]) is not None and [
          o.expr for o in rd.origins(up(c.args[0]))] == [call] for c in writes)
  # the mode test must guard the write in merge_files_src itself: the `with`,
  # or the statement that calls the writing helper
  raw = flow.guards(mod.parent, mod.enclosing_stmt(chain[0]) if chain else mod.parent[wi])
  g = [(src(t), p) for t, p in raw]
  for lvl in range(1, len(chain) + 1):
    inner = mod.enclosing_stmt(chain[lvl]) if lvl < len(chain) else mod.parent[wi]
    g += [(f"{funcs[lvl].name}: {src(t)}", p) for t, p in flow.guards(mod.parent, inner)]
  conj = []
  for t, p in raw:
    if p:
      conj.extend(t.values if isinstance(t, ast.BoolOp) and isinstance(t.op, ast.And)
                  else [t])
  p_mode = rd.params[rd.positional[2]] if len(rd.positional) > 2 else None
  guard_ok = False
  for t in conj:
    if isinstance(t, ast.Compare) and len(t.ops) == 1 and isinstance(
        t.ops[0], (ast.Eq, ast.Is)):
      for a, b in ((t.left, t.comparators[0]), (t.comparators[0], t.left)):
        if isinstance(a, ast.Name) and rd.defs_of(a) == {p_mode} \
            and dotted(b) == "Mode.OVERWRITE":
          guard_ok = True
  ctx.check(target_ok and content_ok and guard_ok and truncates,
            "merge_files_src:writes-merged-text-to-py_path-on-overwrite", MP,
            w.lineno,
            f"the only file written must be {p_path.name}, opened with mode \"w\" (the "
            "merged text replaces the old one), with exactly the "
            "merge_sources result, under mode == Mode.OVERWRITE; found target "
            f"{src(w.args[0])} opened {w_mode!r}, content "
            f"{[src(c.args[0]) for c in writes if c.args]}, guards {g}",
            {"target": src(w.args[0]), "open_mode": w_mode, "guards": g})
  # backup copies the original before it is overwritten
  copies = []
  for f, ch in sites:
    for c in calls_in(f):
      if (dotted(c.func) or "").startswith("shutil.") and c not in copies:
        if f is not wf:
          raise AnalysisError(
              f"merge_files_src: {f.name} copies a file but {wf.name} writes: order not decided")
        copies.append(c)
  ok = True
  for c in copies:
    st = mod.enclosing_stmt(c)
    c_src = up(c.args[0]) if c.args else None
    ok = ok and len(c.args) >= 2 and isinstance(c_src, ast.Name) \
        and rd.defs_of(c_src) == {p_path} and st.lineno < mod.parent[wi].lineno \
        and dotted(c.func) in ("shutil.copyfile", "shutil.copy", "shutil.copy2")
    from rules.provenance import executes_before
    ok = ok and not executes_before(mod, wf, lambda u: u is wi, st)
  ctx.check(ok, "merge_files_src:backup-copies-original-first", MP,
            copies[0].lineno if copies else fn.lineno,
            "a backup must copy py_path before it is overwritten (and nothing "
            "else may be copied or moved)", {"copies": [src(c) for c in copies]})


# -- R20.6 ---------------------------------------------------------------------------

@rule("R20.6", "C20", floor=5)
def r20_6(ctx):
  """Nodes rebuilt by the filters get values of the declared field types."""
  m = _model(ctx)
  mod, model = m.mod, _cst(ctx)
  found = {}     # construct -> [(holds, line, reason, facts)], one entry per typing
  for cname in sorted(m.classes):
    an = _class_analysis(ctx, cname)
    # the callbacks, and the helper methods they reach - a helper once per
    # assignment of static types to its parameters (all of them must hold)
    units = [(mname, fn, typer) for mname, fn, _, typer in an.callbacks]
    units += [(res.fn.name, res.fn, res.typer) for _, res in sorted(
        an.inter.memo.items(), key=lambda kv: (kv[0][0], kv[0][1], repr(kv[0][2])))]
    for mname, fn, typer in units:
      keys = {}

      def note(construct, holds, line, reason="", facts=None):
        found.setdefault(_nth(keys, construct), []).append((holds, line, reason, facts or {}))

      for call in sorted(calls_in(fn), key=lambda c: (c.lineno, c.col_offset)):
        if id(call) in typer.dead:
          continue       # unreachable for these argument types
        built = typer.node_class(call.func)
        recv_types = None
        if built is None and isinstance(call.func, ast.Attribute) \
            and call.func.attr == "with_changes":
          recv_types = typer.type_of(call.func.value, typer.narrow_at(call))
        if built is None and recv_types is None:
          continue
        if any(isinstance(a, ast.Starred) for a in call.args) or \
            any(k.arg is None for k in call.keywords):
          raise AnalysisError(f"{cname}.{mname}: node built with */** arguments")
        if call.args and built is None:
          raise AnalysisError(f"{cname}.{mname}: with_changes(<positional>)")
        narrow = typer.narrow_at(call)
        owners = [built] if built else sorted(
            a for a in recv_types if a in model.classes)
        label = built or "with_changes"
        # positional arguments bind to the dataclass fields in declaration
        # order (read from the libcst class); they are judged like keywords
        given = []
        if call.args:
          order = model.init_order(built)
          for i, a in enumerate(call.args):
            if i >= len(order):
              note(f"{cname}.{mname}:{label}(*{i})", False, a.lineno,
                   f"{built} takes {len(order)} positional arguments "
                   f"({', '.join(order)}); argument {i + 1} `{src(a)[:40]}` is "
                   "one too many: TypeError when the filter runs",
                   {"init_order": order})
              continue
            given.append((order[i], a, "positional"))
        for k in call.keywords:
          if any(k.arg == f for f, _, _ in given):
            note(f"{cname}.{mname}:{label}({k.arg}=)", False, k.value.lineno,
                 f"{built} gets {k.arg} both positionally and by keyword: "
                 "TypeError when the filter runs")
            continue
          given.append((k.arg, k.value, "keyword"))
        for fname, value, how in given:
          accept = None
          for o in owners:
            ft = model.field_type(o, fname)
            if ft is None:
              accept = None
              break
            accept = ft if accept is None else (accept & ft)
          construct = f"{cname}.{mname}:{label}({fname}=)"
          if accept is None:
            note(construct, False, value.lineno,
                 f"{'/'.join(owners)} declares no field {fname!r}")
            continue
          t = typer.type_of(value, narrow)
          note(construct, model.assignable(t, accept), value.lineno,
               f"{fname}={src(value)} has static type {show(t)} but "
               f"{'/'.join(owners)}.{fname} is declared {show(accept)} "
               "(e.g. an annotated name without value would become an "
               "Assign without value: invalid code)",
               {"value_type": show(t), "field_type": show(accept),
                "passed": how})
  if not found:
    raise AnalysisError("no node construction found in the filters")
  for construct, entries in found.items():
    bad = [e for e in entries if not e[0]]
    holds, line, reason, facts = (bad or entries)[0]
    if len(entries) > 1:
      facts = dict(facts, typings=len(entries))
    ctx.check(holds, construct, MP, line, reason, facts)


# -- once-bound locals ----------------------------------------------------------------

def _subst(node, repl):
  """Copy of an ast expression with `repl(node)` (when not None) in place of a node."""
  if isinstance(node, ast.AST):
    r = repl(node)
    if r is not None:
      return r
    new = type(node)()
    for f, v in ast.iter_fields(node):
      setattr(new, f, _subst(v, repl))
    return new
  if isinstance(node, list):
    return [_subst(x, repl) for x in node]
  return node


class _Locals:
  """Hoisted temporaries: `resolve(expr)` is expr with every local that has
  exactly one reaching definition `x = <value>` replaced by that value,
  provided the value reads nothing but parameters that are never re-bound in
  the function, names of the module and (recursively) such locals - it then
  denotes the same object wherever it is evaluated (libcst nodes are frozen
  dataclasses).  Anything else is left as written."""

  def __init__(self, mod, fn, rd=None):
    self.mod, self.fn = mod, fn
    self.rd = rd or ReachingDefs(mod, fn)
    bound = {n.id for n in ast.walk(fn) if isinstance(n, ast.Name)
             and not isinstance(n.ctx, ast.Load)}
    bound |= {n.target.id for n in ast.walk(fn) if isinstance(n, ast.NamedExpr)}
    self.stable = {p for p in self.rd.params if p not in bound
                   and p not in self.rd.unsupported}

  def _value(self, name, depth):
    if name not in self.mod.parent or depth > 8 or name.id in self.stable:
      return None
    try:
      ds = self.rd.defs_of(name)
    except AnalysisError:
      return None
    if len(ds) != 1:
      return None
    d = next(iter(ds))
    if d.kind not in ("assign", "walrus") or d.path or d.value is None:
      return None
    ok = [True]

    def repl(n):
      if isinstance(n, ast.Name) and isinstance(n.ctx, ast.Load):
        if n.id in self.stable:
          return None
        try:
          if not self.rd.defs_of(n):
            return None       # a name of the module / a builtin
        except AnalysisError:
          ok[0] = False
          return None
        v = self._value(n, depth + 1)
        if v is None:
          ok[0] = False
        return v
      if isinstance(n, (ast.Lambda, ast.ListComp, ast.SetComp, ast.DictComp,
                        ast.GeneratorExp, ast.NamedExpr, ast.Await, ast.Yield,
                        ast.YieldFrom)):
        ok[0] = False
      return None
    out = _subst(d.value, repl)
    return out if ok[0] else None

  def resolve(self, expr):
    return _subst(expr, lambda n: self._value(n, 0)
                  if isinstance(n, ast.Name) and isinstance(n.ctx, ast.Load) else None)

  def text(self, expr):
    return src(self.resolve(expr))


# -- R20.7 ---------------------------------------------------------------------------

# node classes whose own annotation the property speaks about (return and
# variable annotations) -> the field that holds it; checked against libcst
_ANNOTATED_FIELD = {"AnnAssign": "annotation", "FunctionDef": "returns"}
_ANY_FILTER = "RemoveAnyNeverTransformer"


def _k3_not(v):
  return None if v is None else not v


def _k3(t, atom):
  """Kleene evaluation (True / False / None=unknown) of a test over atoms."""
  if isinstance(t, ast.UnaryOp) and isinstance(t.op, ast.Not):
    return _k3_not(_k3(t.operand, atom))
  if isinstance(t, ast.BoolOp):
    vals = [_k3(v, atom) for v in t.values]
    if isinstance(t.op, ast.And):
      if any(v is False for v in vals):
        return False
      return True if all(v is True for v in vals) else None
    if any(v is True for v in vals):
      return True
    return False if all(v is False for v in vals) else None
  return atom(t)


def _ifexp_leaves(value):
  if isinstance(value, ast.IfExp):
    return [(l, [(value.test, True)] + c) for l, c in _ifexp_leaves(value.body)] + \
        [(l, [(value.test, False)] + c) for l, c in _ifexp_leaves(value.orelse)]
  return [(value, [])]


def _elif_fallthrough(mod, stmt):
  """`not T` for every terminating arm of an earlier if/elif chain (sa.flow
  negates only the first test of such a chain)."""
  out = []
  node = stmt
  while node in mod.parent:
    par = mod.parent[node]
    for fld in ("body", "orelse", "finalbody"):
      blk = getattr(par, fld, None)
      if isinstance(blk, list) and node in blk:
        for prev in blk[:blk.index(node)]:
          arm = prev
          while isinstance(arm, ast.If) and flow.terminates(arm.body):
            out.append((arm.test, False))
            if len(arm.orelse) == 1 and isinstance(arm.orelse[0], ast.If):
              arm = arm.orelse[0]
            else:
              break
        break
    if isinstance(par, (ast.FunctionDef, ast.AsyncFunctionDef, ast.Lambda)):
      break
    node = par
  return out


_BOOLISH = (ast.Compare, ast.BoolOp)


def _inlined_returns(mod, inter, call, caller, stable, depth=0):
  """`call` (written in `caller`) to a helper method of the class / function of
  the module, read as if its body stood in place of the call: [(returned
  expression, [(test, polarity), ..])] per return of the helper, the caller's
  argument substituted for each parameter.  None when `call` is no such helper
  call.  AnalysisError when the helper is defined more than once, takes
  anything but never re-bound parameters of the caller (or fields of them), or
  its body is more than if / return over its parameters."""
  if not isinstance(call, ast.Call):
    return None
  h = inter.helper_of(call, caller)
  if h is None:
    return None
  if depth:
    raise AnalysisError(f"{caller.name}: helper {h.name} returns the result of another helper")
  if isinstance(call.func, ast.Name):
    defs = [n for n in ast.walk(mod.tree) if isinstance(
        n, (ast.FunctionDef, ast.AsyncFunctionDef, ast.ClassDef)) and n.name == h.name]
  else:
    defs = [n for k in _local_mro(mod, inter.cname) for n in ast.walk(mod.cls(k))
            if isinstance(n, (ast.FunctionDef, ast.AsyncFunctionDef)) and n.name == h.name]
  if len(defs) != 1 or defs[0] is not h:
    raise AnalysisError(f"{caller.name}: helper {h.name} has {len(defs)} definitions")
  static = _is_static(h, mod) or isinstance(call.func, ast.Name)
  if [d for d in h.decorator_list if dotted(d) != "staticmethod"] or \
      isinstance(h, ast.AsyncFunctionDef) or h.args.vararg or h.args.kwarg:
    raise AnalysisError(f"{caller.name}: helper {h.name}: decorators / signature not understood")
  bound = bind_args(call, h, skip_self=not static)
  hp = [a.arg for a in h.args.posonlyargs + h.args.args + h.args.kwonlyargs]
  if not static:
    cp = caller.args.posonlyargs + caller.args.args
    if not cp or hp[0] != cp[0].arg:
      raise AnalysisError(f"{caller.name}: helper {h.name}: receiver is not {hp[0]}")
    hp = hp[1:]
  if set(bound) != set(hp):
    raise AnalysisError(f"{caller.name}: helper {h.name}: defaulted parameters")
  for a in bound.values():
    root = a
    while isinstance(root, ast.Attribute):
      root = root.value
    if not (isinstance(root, ast.Name) and root.id in stable):
      raise AnalysisError(
          f"{caller.name}: argument `{src(a)[:40]}` of helper {h.name} is not a parameter")

  def check_body(body):
    for i, st in enumerate(body):
      if isinstance(st, ast.Expr) and isinstance(st.value, ast.Constant):
        continue
      if isinstance(st, ast.If):
        check_body(st.body)
        check_body(st.orelse)
      elif not (isinstance(st, ast.Return) and st.value is not None):
        raise AnalysisError(
            f"{caller.name}: body of helper {h.name} not understood (line {st.lineno})")
  check_body(h.body)
  for n in ast.walk(h):
    if isinstance(n, (ast.NamedExpr, ast.Lambda, ast.ListComp, ast.SetComp, ast.DictComp,
                      ast.GeneratorExp, ast.Await, ast.Yield, ast.YieldFrom)) or (
                          isinstance(n, ast.Name) and not isinstance(n.ctx, ast.Load)):
      raise AnalysisError(f"{caller.name}: body of helper {h.name} not understood")
  if flow.flow(h, lambda u: ()).exits[-1][0] == "end":
    raise AnalysisError(f"{h.name}: a path falls off the end (returns None)")

  def sub(e):
    return _subst(e, lambda n: _subst(bound[n.id], lambda _: None) if isinstance(
        n, ast.Name) and n.id in bound else None)
  out = []
  for r in walk_no_nested(h):
    if not isinstance(r, ast.Return):
      continue
    conds, seen = [], set()
    for t, pol in list(flow.guards(mod.parent, r)) + _elif_fallthrough(mod, r):
      if (id(t), pol) not in seen:
        seen.add((id(t), pol))
        conds.append((sub(t), pol))
    for leaf, extra in _ifexp_leaves(sub(r.value)):
      out.append((leaf, conds + extra))
  return h, out


@rule("R20.7", "C20", floor=7)
def r20_7(ctx):
  """Where the Any/Never predicate holds, the returned node has no annotation."""
  m = _model(ctx)
  mod, model = m.mod, _cst(ctx)
  methods = _methods(mod, _ANY_FILTER)
  for X, annfield in sorted(_ANNOTATED_FIELD.items()):
    ft = model.field_type(X, annfield)
    if ft is None or "Annotation" not in ft:
      raise AnalysisError(f"libcst reference: {X}.{annfield} is not an Annotation")
    fn = methods.get(f"leave_{X}")
    construct = f"{_ANY_FILTER}:handles:{X}"
    if fn is None:
      ctx.bad(construct, MP, mod.cls(_ANY_FILTER).lineno,
              f"{_ANY_FILTER} defines no leave_{X}: libcst's default keeps the "
              f"node, so a stub {X} annotated Any/Never reaches the merge "
              "unfiltered", {"callbacks": sorted(k for k in methods if k.startswith("leave_"))})
      continue
    ctx.ok(construct, MP, fn.lineno, {"callback": fn.name})
    env = _method_env(model, mod, fn)
    params = list(env)
    typer = Typer(model, mod, env)
    chains = {f"{p}.{annfield}.annotation" for p in params}
    holders = {f"{p}.{annfield}" for p in params} | chains
    rd = ReachingDefs(mod, fn)
    # hoisted temporaries (`returns = original_node.returns`) are read as the
    # expression they hold
    loc = _Locals(mod, fn, rd)
    inter = _Inter(model, mod, _ANY_FILTER, methods, m.kinds[_ANY_FILTER])
    pcalls = []
    for c in calls_in(fn):
      pred = inter.helper_of(c, fn)
      if pred is None:
        continue
      bound = bind_args(c, pred, skip_self=not _is_static(pred, mod))
      if len(bound) == 1 and loc.text(next(iter(bound.values()))) in chains:
        pcalls.append(c)
      # (any other helper call is a test of unknown outcome: a return that
      # depends on it is not decided, see `opaque` below)
    preds = {dotted(c.func) for c in pcalls}
    if len(preds) > 1:
      raise AnalysisError(f"{fn.name}: several predicates {sorted(preds)}")
    pcall_src = {loc.text(c) for c in pcalls}
    opaque = []

    def atom(t):
      if isinstance(t, ast.Name) and t.id not in params and t in mod.parent:
        ds = rd.defs_of(t)     # a local holding the predicate's (or a test's) value
        if len(ds) == 1:
          d = next(iter(ds))
          if d.kind == "assign" and not d.path:
            return _k3(d.value, atom)
      t = loc.resolve(t)
      s = src(t)
      if s in pcall_src:
        return True            # world: the annotation is a bare Any/Never
      if s in holders:
        return True            # ... so the annotation exists
      if isinstance(t, (ast.BoolOp, ast.UnaryOp)):
        return _k3(t, atom)    # a local that held a compound test
      if isinstance(t, ast.Compare) and len(t.ops) == 1 and isinstance(
          t.comparators[0], ast.Constant) and t.comparators[0].value is None \
          and isinstance(t.ops[0], (ast.Is, ast.IsNot)):
        if src(t.left) in holders:
          return isinstance(t.ops[0], ast.IsNot)
        subject = t.left
      else:
        subject = t
      # a test on another field of the node that can go either way
      if isinstance(subject, ast.Attribute) and isinstance(subject.value, ast.Name) \
          and subject.value.id in params and subject.attr != annfield:
        sft = model.field_type(X, subject.attr)
        if sft is not None and "None" in sft and len(sft) > 1:
          return None
      opaque.append(s)
      return None

    def classify(leaf):
      leaf = loc.resolve(leaf)
      d = dotted(leaf) or ""
      if d.endswith("RemovalSentinel.REMOVE") and \
          mod.imports.get(d.split(".")[0], "").split(".")[0] == "libcst":
        return "removed", "stripped"
      if isinstance(leaf, ast.Name) and leaf.id in params:
        return f"unchanged:{leaf.id}", "annotated"
      if isinstance(leaf, ast.Call):
        fd = dotted(leaf.func) or ""
        if fd.endswith(".RemoveFromParent") and not leaf.args and \
            mod.imports.get(fd.split(".")[0], "").split(".")[0] == "libcst":
          return "removed", "stripped"
        built = typer.node_class(leaf.func)
        if built is not None:
          ann = [f for c in model.mro_names(built)
                 for f, a in model.classes[c]["fields"].items()
                 if "Annotation" in model.typeset(a)]
          given = [k for k in leaf.keywords if k.arg in ann]
          if leaf.args or any(k.arg is None for k in leaf.keywords):
            raise AnalysisError(f"{fn.name}: node built with positional/** arguments")
          if not given:
            return f"rebuilt:{built}", "stripped"
          if all(isinstance(k.value, ast.Constant) and k.value.value is None
                 for k in given):
            return f"rebuilt:{built}", "stripped"
          if all(src(k.value) in holders for k in given):
            return f"rebuilt:{built}", "annotated"
          raise AnalysisError(
              f"{fn.name}: `{src(leaf)[:60]}` builds a node with a new annotation")
        if isinstance(leaf.func, ast.Attribute) and leaf.func.attr == "with_changes" \
            and isinstance(leaf.func.value, ast.Name) and leaf.func.value.id in params:
          if leaf.args or any(k.arg is None for k in leaf.keywords):
            raise AnalysisError(f"{fn.name}: with_changes(*args)")
          given = [k for k in leaf.keywords if k.arg == annfield]
          if not given:
            return f"with_changes:{leaf.func.value.id}", "annotated"
          v = given[0].value
          if isinstance(v, ast.Constant) and v.value is None:
            return f"with_changes:{annfield}=None", "stripped"
          if src(v) in holders:
            return f"with_changes:{annfield}={src(v)}", "annotated"
          raise AnalysisError(
              f"{fn.name}: `{src(leaf)[:60]}` installs a new annotation")
      raise AnalysisError(f"{fn.name}: return value `{src(leaf)[:60]}` not understood")

    rets = [r for r in walk_no_nested(fn) if isinstance(r, ast.Return)]
    if not rets or flow.flow(fn, lambda u: ()).exits[-1][0] == "end":
      raise AnalysisError(f"{fn.name}: a path falls off the end (returns None)")
    for r in rets:
      if r.value is None:
        raise AnalysisError(f"{fn.name}: bare return")
      base, seen = [], set()
      for tp in list(flow.guards(mod.parent, r)) + _elif_fallthrough(mod, r):
        if (id(tp[0]), tp[1]) not in seen:
          seen.add((id(tp[0]), tp[1]))
          base.append(tp)
      leaves = []
      for leaf, extra in _ifexp_leaves(loc.resolve(r.value)):
        # `return self._helper(node)`: the helper's own returns, as if inline
        inl = _inlined_returns(mod, inter, leaf, fn, loc.stable)
        if inl is None:
          leaves.append((leaf, extra))
        else:
          leaves.extend((l2, extra + c2) for l2, c2 in inl[1])
      for leaf, extra in leaves:
        if _inlined_returns(mod, inter, leaf, fn, loc.stable, depth=1) is not None:
          raise AnalysisError(f"{fn.name}: nested helper call")
        label, kind = classify(leaf)
        del opaque[:]
        vals = [(_k3(t, atom), pol) for t, pol in base + extra]
        unreachable = any(v is not None and v != pol for v, pol in vals)
        undecided = [1 for v, _ in vals if v is None]
        facts = {"returns": label, "kind": kind,
                 "path_condition": [(src(t)[:70], pol) for t, pol in base + extra],
                 "reachable_when_any_or_never": not unreachable}
        construct = f"{_ANY_FILTER}.leave_{X}:return:{label}"
        if kind == "stripped" or unreachable:
          ctx.ok(construct, MP, r.lineno, facts)
          continue
        if undecided and opaque:
          raise AnalysisError(
              f"{fn.name}: cannot tell whether `return {src(leaf)[:40]}` is "
              f"excluded when the annotation is Any/Never (tests {opaque[:3]})")
        ctx.bad(construct, MP, r.lineno,
                f"leave_{X} can return the still annotated node "
                f"(`{src(leaf)[:50]}`) although the predicate "
                f"{sorted(preds)[0] if preds else '<none applied>'} holds for "
                f"its annotation (path condition "
                f"{[(src(t)[:50], pol) for t, pol in base + extra]}): the bare "
                "Any/Never stays in the stub and is merged into the source",
                facts)


# -- R20.8 ---------------------------------------------------------------------------

PR = "pytype/pytd/printer.py"


def _any_predicate(ctx):
  """The helper method of RemoveAnyNeverTransformer its callbacks decide with."""
  m = _model(ctx)
  mod, model = m.mod, _cst(ctx)
  methods = _methods(mod, _ANY_FILTER)
  inter = _Inter(model, mod, _ANY_FILTER, methods, m.kinds[_ANY_FILTER])
  preds, found = set(), []
  for name, fn in methods.items():
    if name not in {f"leave_{X}" for X in _ANNOTATED_FIELD} or \
        _method_env(model, mod, fn) is None:
      continue      # only the callbacks that see a return / variable annotation
    loc = _Locals(mod, fn)
    for c in calls_in(fn):
      h = inter.helper_of(c, fn)
      if h is None:
        continue
      # role of the call: the value the callback returns (a helper that builds
      # the replacement node, read inline by R20.7) or anything else (a test)
      child, par = c, mod.parent.get(c)
      while isinstance(par, ast.IfExp) and child is not par.test:
        child, par = par, mod.parent.get(par)
      if isinstance(par, ast.Return) and par.value is child:
        _, rets = _inlined_returns(mod, inter, c, fn, loc.stable)
        for leaf, _conds in rets:
          if isinstance(leaf, _BOOLISH) or (isinstance(leaf, ast.UnaryOp) and isinstance(
              leaf.op, ast.Not)) or (isinstance(leaf, ast.Constant) and isinstance(
                  leaf.value, bool)) or (isinstance(leaf, ast.Call) and (dotted(
                      leaf.func) in ("isinstance", "bool", "any", "all")
                                                                 or inter.helper_of(leaf, fn) is not None)):
            raise AnalysisError(
                f"{fn.name}: returns the truth value of helper {h.name}")
        continue
      preds.add(h.name)
      found.append(h)
  if len(preds) != 1:
    raise AnalysisError(f"{_ANY_FILTER}: predicates {sorted(preds)}")
  pred = preds.pop()
  pred = next(h for h in found if h.name == pred)
  if len(pred.args.args) - (0 if _is_static(pred, mod) else 1) != 1 or pred.args.kwonlyargs:
    raise AnalysisError(f"{pred.name}: parameters {[a.arg for a in pred.args.args]}")
  return pred


def _recognised_spellings(ctx, asked):
  """What RemoveAnyNeverTransformer's predicate recognises, decided by
  evaluating it (model execution, rules/_util_c20.py) on the node an
  annotation text parses to - `Name(X)` for a bare name, an Attribute chain
  for a dotted one - for every X among the string constants of merge_pyi.py
  and the names the printer asks for:
  {'bare': names, 'qualified': names recognised as typing.X, 'holds': text -> bool}."""
  from rules import _util_c20 as mx
  m = _model(ctx)
  pred = _any_predicate(ctx)
  it = mx._Interp(ctx)
  obj = None
  try:        # the instance merge_sources itself makes (constructor arguments and all)
    obj = next((o for o in _pipeline(ctx).it.created if o.cname == _ANY_FILTER), None)
  except AnalysisError:
    pass
  if obj is None:
    obj = it.new(_ANY_FILTER, [], {})
  memo = {}

  def holds(text):
    if text not in memo:
      parts = text.split(".")
      if not all(x.isidentifier() for x in parts):
        raise AnalysisError(f"printer: `{text}` is not a (dotted) name")
      node = mx._dotted(*parts)
      if isinstance(m.mod.parent.get(pred), ast.ClassDef):
        v = it.call_method(_ANY_FILTER, pred.name, obj, [node], {}, pred)
      else:
        v = it.call(pred, None, [node])
      if isinstance(v, mx._Opaque):
        raise AnalysisError(
            f"{pred.name}: whether it holds for the annotation `{text}` depends on {v!r}")
      memo[text] = bool(v) if not isinstance(v, (mx._N, mx._Obj)) else True
    return memo[text]

  cands = set(asked)
  for n in ast.walk(m.mod.tree):
    if isinstance(n, ast.Constant) and isinstance(n.value, str) and n.value.isidentifier():
      cands.add(n.value)
  return {"bare": frozenset(c for c in cands if holds(c)),
          "qualified": frozenset(c for c in cands if holds(f"typing.{c}")),
          "holds": holds, "pred": pred}


def _spelling_texts(rd, expr, name_param, member, depth=0):
  """The texts an expression of _FromTyping can evaluate to when its
  parameter is `member`, or None when that is not a matter of constants."""
  if depth > 8:
    return None
  if isinstance(expr, ast.Constant) and isinstance(expr.value, str):
    return {expr.value}
  if isinstance(expr, ast.Name):
    ds = rd.defs_of(expr)
    out = set()
    for d in ds:
      if d.kind == "param" and d.name == name_param:
        out.add(member)
      elif d.kind in ("assign", "walrus") and not d.path:
        t = _spelling_texts(rd, d.value, name_param, member, depth + 1)
        if t is None:
          return None
        out |= t
      else:
        return None
    return out or None
  if isinstance(expr, (ast.IfExp, ast.BoolOp)):
    out = set()
    for v in ([expr.body, expr.orelse] if isinstance(expr, ast.IfExp) else expr.values):
      t = _spelling_texts(rd, v, name_param, member, depth + 1)
      if t is None:
        return None
      out |= t
    return out
  parts = None
  if isinstance(expr, ast.JoinedStr):
    parts = []
    for v in expr.values:
      if isinstance(v, ast.FormattedValue):
        if v.format_spec is not None or v.conversion != -1:
          return None
        v = v.value
      parts.append(v)
  elif isinstance(expr, ast.BinOp) and isinstance(expr.op, ast.Add):
    parts = [expr.left, expr.right]
  if parts is not None:
    out = {""}
    for v in parts:
      t = _spelling_texts(rd, v, name_param, member, depth + 1)
      if t is None or len(out) * len(t) > 64:
        return None
      out = {a + b for a in out for b in t}
    return out
  return None


def _spelling_kinds(mod, rd, expr, name_param, depth=0):
  """Forms of identifier text an expression of _FromTyping can evaluate to."""
  if depth > 8:
    raise AnalysisError("_FromTyping: provenance too deep")
  if isinstance(expr, ast.BoolOp):
    out = set()
    for v in expr.values:
      out |= _spelling_kinds(mod, rd, v, name_param, depth + 1)
    return out
  if isinstance(expr, ast.IfExp):
    return _spelling_kinds(mod, rd, expr.body, name_param, depth + 1) | \
        _spelling_kinds(mod, rd, expr.orelse, name_param, depth + 1)
  if isinstance(expr, ast.Name):
    ds = rd.defs_of(expr)
    if not ds:
      raise AnalysisError(f"_FromTyping returns the global `{expr.id}`")
    out = set()
    for d in ds:
      if d.kind == "param":
        if d.name != name_param:
          raise AnalysisError(f"_FromTyping returns parameter {d.name}")
        out.add("member-name")
      elif d.kind in ("assign", "walrus") and not d.path:
        out |= _spelling_kinds(mod, rd, d.value, name_param, depth + 1)
      else:
        raise AnalysisError(f"_FromTyping: {expr.id} bound by {d.describe()}")
    return out
  if isinstance(expr, ast.Constant) and isinstance(expr.value, str):
    return {"qualified" if "." in expr.value else "member-name"}
  if isinstance(expr, ast.JoinedStr):
    out = set()
    dotted_const = False
    for v in expr.values:
      if isinstance(v, ast.Constant):
        if "." in str(v.value):
          dotted_const = True
        elif not str(v.value).isidentifier():
          raise AnalysisError(f"_FromTyping builds `{src(expr)}`")
      elif isinstance(v, ast.FormattedValue) and v.format_spec is None:
        out |= _spelling_kinds(mod, rd, v.value, name_param, depth + 1)
      else:
        raise AnalysisError(f"_FromTyping builds `{src(expr)}`")
    if dotted_const or len(expr.values) > 1:
      return {"qualified"} if dotted_const else out
    return out
  if isinstance(expr, ast.BinOp) and isinstance(expr.op, ast.Add):
    parts = [expr.left, expr.right]
    if any(isinstance(x, ast.Constant) and "." in str(x.value) for x in parts):
      return {"qualified"}
  if isinstance(expr, ast.Call) and isinstance(expr.func, ast.Attribute) and \
      expr.func.attr == "get_alias" and src(expr.func.value) == "self._imports":
    return {"import-alias"}
  if isinstance(expr, ast.Constant) and expr.value is None:
    return set()
  raise AnalysisError(f"_FromTyping: spelling of `{src(expr)[:60]}` not understood")


@rule("R20.8", "C20", floor=5)
def r20_8(ctx):
  """The stub printer's spellings of Any/Never are ones the merge filter knows."""
  pm = get_module(ctx, PR)
  # (a) the member names the printer asks for
  asked = []
  for qual in ("PrintVisitor.VisitAnythingType", "PrintVisitor.VisitNothingType",
               "PrintVisitor.VisitSignature"):
    fn = pm.func(qual)
    for c in calls_in(fn, name="self._FromTyping"):
      if len(c.args) != 1 or c.keywords:
        raise AnalysisError(f"{qual}: `{src(c)}`")
      if qual.endswith("VisitSignature"):
        g = flow.guards_txt(pm.parent, pm.enclosing_stmt(c))
        if not any("nothing" in t and pol for t, pol in g):
          continue           # not the spelling of a `nothing` return type
      k = try_fold(c.args[0], mod=pm)
      if not isinstance(k, str):
        raise AnalysisError(f"{qual}: `{src(c)}` is not a constant member name")
      asked.append((qual, c, k))
  if not asked:
    raise AnalysisError("printer: no Any/Never spelling found")
  names = {k for _, _, k in asked}
  rec = _recognised_spellings(ctx, names)
  for qual, c, k in asked:
    ctx.check(k in rec["bare"], f"{qual}:spells:{k}", PR, c.lineno,
              f"the stub printer writes the type as typing member {k!r}, which "
              f"{_ANY_FILTER}.{rec['pred'].name} does not recognise "
              f"(it knows {sorted(rec['bare'])}): the annotation passes the "
              "pre-filter and is merged",
              {"member": k, "filter_recognises": sorted(rec["bare"])})
  # (b) the forms _FromTyping can give such a member
  fn = pm.func("PrintVisitor._FromTyping")
  ps = [a.arg for a in fn.args.args]
  if len(ps) != 2:
    raise AnalysisError(f"_FromTyping parameters {ps}")
  name_param = ps[1]
  rd = ReachingDefs(pm, fn)
  rets = [r for r in walk_no_nested(fn) if isinstance(r, ast.Return)]
  if not rets:
    raise AnalysisError("_FromTyping has no return")
  for r in rets:
    if r.value is None:
      raise AnalysisError("_FromTyping: bare return")
    kinds = _spelling_kinds(pm, rd, r.value, name_param)
    g = flow.guards_txt(pm.parent, r)
    # the qualified texts themselves, where they are a matter of constants
    # (`f"typing.{name}"`); `typing.<member>` otherwise
    spelled, assumed = set(), False
    if "qualified" in kinds:
      for k in sorted(names):
        texts = _spelling_texts(rd, r.value, name_param, k)
        texts = {t for t in texts if "." in t} if texts else None
        if not texts:
          texts, assumed = {f"typing.{k}"}, True
        spelled |= texts
    missed = sorted(t for t in spelled if not rec["holds"](t))
    qualified_ok = not missed
    facts = {"forms": sorted(kinds), "guards": [list(x) for x in g],
             "filter_recognises_qualified": qualified_ok if spelled else
             names <= rec["qualified"]}
    if spelled:
      facts["qualified_spellings"] = sorted(spelled) + (["(assumed)"] if assumed else [])
    construct = "PrintVisitor._FromTyping:spelling:" + "|".join(sorted(kinds))
    ctx.check(qualified_ok, construct, PR, r.lineno,
              f"_FromTyping can spell a typing member as a qualified name "
              f"(`{src(r.value)}`, under {g}: {missed}); "
              f"{_ANY_FILTER}.{rec['pred'].name} does not hold for that spelling (it "
              f"recognises the bare names {sorted(rec['bare'])} and, as typing.X, "
              f"{sorted(rec['qualified'])}), so `typing.Any` / `typing.Never` pass "
              "the merge pre-filter and are inserted", facts)


# -- sensitivity suite ---------------------------------------------------------------

_PYI_OLD = """    pyi_cst = (
        pyi_cst.visit(RemoveAnyNeverTransformer())
        .visit(RemoveTrivialTypesTransformer())
        .visit(RemoveUndefinedClassesTransformer(class_collector.class_names))
        .visit(QuoteNestedClassesTransformer(stub_class_collector.class_names))
    )
"""
_PYI_DISCARDED = """    (
        pyi_cst.visit(RemoveAnyNeverTransformer())
        .visit(RemoveTrivialTypesTransformer())
        .visit(RemoveUndefinedClassesTransformer(class_collector.class_names))
        .visit(QuoteNestedClassesTransformer(stub_class_collector.class_names))
    )
"""
_PYI_STEPWISE = """    stub = pyi_cst.visit(RemoveAnyNeverTransformer())
    stub = stub.visit(RemoveTrivialTypesTransformer())
    stub = stub.visit(RemoveUndefinedClassesTransformer(class_collector.class_names))
    pyi_cst = stub.visit(QuoteNestedClassesTransformer(stub_class_collector.class_names))
"""
_PYI_LOOP = """    for stub_filter in (
        RemoveAnyNeverTransformer(),
        RemoveTrivialTypesTransformer(),
        RemoveUndefinedClassesTransformer(class_collector.class_names),
        QuoteNestedClassesTransformer(stub_class_collector.class_names),
    ):
      pyi_cst = pyi_cst.visit(stub_filter)
"""
_ANY_TAIL = """    return (
        annotation
        and isinstance(annotation, expression.Name)
        and annotation.value in ("Any", "Never")
    )
"""
_ANY_TAIL_REWRITTEN = """    if not annotation or not isinstance(annotation, cst.Name):
      return False
    return annotation.value in ("Any", "Never")
"""
_REBUILD_OLD = """      if updated_node.value is None:
        return cst.RemovalSentinel.REMOVE
      return cst.Assign(
          targets=[cst.AssignTarget(target=updated_node.target)],
          value=updated_node.value,
          semicolon=updated_node.semicolon,
      )
"""
_REBUILD_TWIN = """      if updated_node.value is not None:
        return cst.Assign(
            targets=[cst.AssignTarget(target=updated_node.target)],
            value=updated_node.value,
            semicolon=updated_node.semicolon,
        )
      return cst.RemovalSentinel.REMOVE
"""
_REBUILD_UNGUARDED = """      return cst.Assign(
          targets=[cst.AssignTarget(target=updated_node.target)],
          value=updated_node.value,
          semicolon=updated_node.semicolon,
      )
"""
_WRITE_OLD = """    if backup:
      shutil.copyfile(py_path, f"{py_path}.{backup}")
    with open(py_path, "w") as f:
      f.write(annotated_src)
"""
_WRITE_BACKUP_LATE = """    with open(py_path, "w") as f:
      f.write(annotated_src)
    if backup:
      shutil.copyfile(py_path, f"{py_path}.{backup}")
"""


_LEAVE_FUNCDEF = """  def leave_FunctionDef(
      self, original_node: cst.FunctionDef, updated_node: cst.FunctionDef
  ) -> cst.CSTNode:
    if original_node.returns and self._is_any_or_never(
        original_node.returns.annotation
    ):
      return updated_node.with_changes(returns=None)
    return original_node

"""
_LEAVE_ANN_OLD = """    if self._is_any_or_never(original_node.annotation.annotation):
      if updated_node.value is None:
        return cst.RemovalSentinel.REMOVE
      return cst.Assign(
          targets=[cst.AssignTarget(target=updated_node.target)],
          value=updated_node.value,
          semicolon=updated_node.semicolon,
      )
    return original_node
"""
_LEAVE_ANN_EARLY = """    if not self._is_any_or_never(updated_node.annotation.annotation):
      return updated_node
    elif updated_node.value is None:
      return cst.RemovalSentinel.REMOVE
    return cst.Assign(
        targets=[cst.AssignTarget(target=updated_node.target)],
        value=updated_node.value,
        semicolon=updated_node.semicolon,
    )
"""
_LEAVE_ANN_TERNARY = """    is_any = self._is_any_or_never(original_node.annotation.annotation)
    if is_any and updated_node.value is not None:
      return cst.Assign(
          targets=[cst.AssignTarget(target=updated_node.target)],
          value=updated_node.value,
          semicolon=updated_node.semicolon,
      )
    return cst.RemovalSentinel.REMOVE if is_any else original_node
"""
_ANY_QUALIFIED = """    if isinstance(annotation, expression.Attribute):
      return annotation.attr.value in ("Any", "Never")
"""


_MS_DEF = "def merge_sources(*, py: str, pyi: str) -> str:\n"
_PY_PARSE = "    py_cst = cst.parse_module(py)\n"
_NAMES_VISITOR = """class _DefinedNames(cst.CSTVisitor):
  \"\"\"Collects the names of the functions of a module (read-only).\"\"\"

  def __init__(self):
    super().__init__()
    self.names = set()

  def visit_FunctionDef(self, node: cst.FunctionDef) -> None:
    self.names.add(node.name.value)


"""
_D44_IF = """    if (
        isinstance(annotation, expression.Attribute)
        and isinstance(annotation.value, expression.Name)
        and annotation.value.value == "typing"
    ):
"""


def _v(name, rid, old, new, expect="fire"):
  return {"name": name, "rule": rid, "file": MP, "old": old, "new": new,
          "expect": expect}


VARIANTS = [
    # R20.1
    _v("any-never-filter-skipped", "R20.1",
       "        pyi_cst.visit(RemoveAnyNeverTransformer())\n"
       "        .visit(RemoveTrivialTypesTransformer())\n",
       "        pyi_cst.visit(RemoveTrivialTypesTransformer())\n"),
    _v("trivial-types-filter-skipped", "R20.1",
       "        .visit(RemoveTrivialTypesTransformer())\n", ""),
    _v("filtered-stub-discarded", "R20.1", _PYI_OLD, _PYI_DISCARDED),
    _v("extra-transformer-on-py-tree", "R20.1",
       "    py_cst = cst.parse_module(py)\n",
       "    py_cst = cst.parse_module(py).visit(RemoveTrivialTypesTransformer())\n"),
    _v("trees-swapped-at-call", "R20.1",
       "_merge_csts(py_tree=py_cst, pyi_tree=pyi_cst)",
       "_merge_csts(py_tree=pyi_cst, pyi_tree=py_cst)"),
    _v("returns-stub-code", "R20.1", "    return merged_cst.code",
       "    return pyi_cst.code"),
    _v("returns-original-code", "R20.1", "    return merged_cst.code",
       "    return py_cst.code"),
    _v("stub-and-target-swapped-in-merge", "R20.1",
       "  vis.store_stub_in_context(context, pyi_tree)",
       "  vis.store_stub_in_context(context, py_tree)"),
    _v("stub-transformed-instead-of-source", "R20.1",
       "  ).transform_module(py_tree)", "  ).transform_module(pyi_tree)"),
    _v("twin-stub-filtered-stepwise", "R20.1", _PYI_OLD, _PYI_STEPWISE, "silent"),
    _v("twin-merged-code-inline", "R20.1",
       "    merged_cst = _merge_csts(py_tree=py_cst, pyi_tree=pyi_cst)\n"
       "    return merged_cst.code",
       "    return _merge_csts(pyi_tree=pyi_cst, py_tree=py_cst).code", "silent"),
    {"name": "twin-filter-instance-held-in-a-local", "rule": "R20.1", "expect": "silent",
     "edits": [(MP, _PY_PARSE, _PY_PARSE + "    any_filter = RemoveAnyNeverTransformer()\n"),
               (MP, "        pyi_cst.visit(RemoveAnyNeverTransformer())\n",
                "        pyi_cst.visit(any_filter)\n")]},
    _v("twin-stub-filters-applied-in-a-loop", "R20.1", _PYI_OLD, _PYI_LOOP, "silent"),
    _v("loop-over-the-filters-leaves-one-out", "R20.1", _PYI_OLD,
       _PYI_LOOP.replace("        RemoveTrivialTypesTransformer(),\n", "")),
    _v("loop-over-the-filters-discards-the-result", "R20.1", _PYI_OLD,
       _PYI_LOOP.replace("      pyi_cst = pyi_cst.visit(", "      pyi_cst.visit(")),
    {"name": "twin-source-read-by-a-read-only-visitor-inline", "rule": "R20.1",
     "expect": "silent",
     "edits": [(MP, _MS_DEF, _NAMES_VISITOR + _MS_DEF),
               (MP, _PY_PARSE, "    names = _DefinedNames()\n"
                "    py_cst = cst.parse_module(py).visit(names)\n")]},
    {"name": "source-passed-through-a-transformer-named-like-a-visitor", "rule": "R20.1",
     "expect": "fire",
     "edits": [(MP, _MS_DEF, _NAMES_VISITOR.replace("cst.CSTVisitor", "cst.CSTTransformer")
                + _MS_DEF),
               (MP, _PY_PARSE, "    names = _DefinedNames()\n"
                "    py_cst = cst.parse_module(py).visit(names)\n")]},
    # R20.2
    _v("overwrite-existing-annotations", "R20.2",
       "      overwrite_existing_annotations=False,",
       "      overwrite_existing_annotations=True,"),
    _v("overwrite-through-stub-context", "R20.2",
       "  vis.store_stub_in_context(context, pyi_tree)",
       "  vis.store_stub_in_context(context, pyi_tree, True)"),
    _v("overwrite-through-stub-context-keyword", "R20.2",
       "  vis.store_stub_in_context(context, pyi_tree)",
       "  vis.store_stub_in_context(\n"
       "      context, pyi_tree, overwrite_existing_annotations=True)"),
    _v("twin-overwrite-left-to-libcst-default", "R20.2",
       "      overwrite_existing_annotations=False,\n", "", "silent"),
    # R20.3
    _v("d4-annassign-passes-annotation-wrapper", "R20.3",
       "self._is_any_or_never(original_node.annotation.annotation)",
       "self._is_any_or_never(original_node.annotation)"),
    _v("functiondef-passes-annotation-wrapper", "R20.3",
       "        original_node.returns.annotation\n    ):",
       "        original_node.returns\n    ):"),
    _v("trivial-type-tests-wrapper", "R20.3",
       "            isinstance(annotation.annotation, expression.Name)\n"
       "            and annotation.annotation.value\n",
       "            isinstance(annotation, expression.Name)\n"
       "            and annotation.annotation.value\n"),
    _v("literal-test-on-slice", "R20.3",
       "            and isinstance(annotation.annotation.value, expression.Name)",
       "            and isinstance(annotation.annotation.slice, expression.Name)"),
    _v("twin-predicate-rewritten", "R20.3", _ANY_TAIL, _ANY_TAIL_REWRITTEN, "silent"),
    _v("twin-qualified-any-unwrapped-in-a-loop", "R20.3", _D44_IF,
       _D44_IF.replace("    if (\n", "    while (\n"), "silent"),
    _v("qualified-any-loop-tests-the-wrapper", "R20.3",
       "      annotation = annotation.attr\n",
       "      annotation = annotation.attr\n"
       "      if isinstance(annotation, expression.Annotation):\n"
       "        annotation = annotation.annotation\n"),
    # R20.4
    {"name": "twin-source-scanned-by-a-read-only-visitor", "rule": "R20.4",
     "expect": "silent",
     "edits": [(MP, _MS_DEF, _NAMES_VISITOR + _MS_DEF),
               (MP, _PY_PARSE, _PY_PARSE + "    names = _DefinedNames()\n"
                "    py_cst.visit(names)\n")]},
    {"name": "source-scanned-by-a-transformer", "rule": "R20.4", "expect": "fire",
     "edits": [(MP, _MS_DEF, _NAMES_VISITOR.replace("cst.CSTVisitor", "cst.CSTTransformer")
                + _MS_DEF),
               (MP, _PY_PARSE, _PY_PARSE + "    names = _DefinedNames()\n"
                "    py_cst.visit(names)\n")]},
    {"name": "source-scanned-by-a-visitor-with-a-foreign-mixin", "rule": "R20.4",
     "expect": "fire",
     "edits": [(MP, _MS_DEF, _NAMES_VISITOR.replace(
                   "(cst.CSTVisitor)", "(cst.CSTVisitor, codemod.ContextAwareTransformer)")
                + _MS_DEF),
               (MP, _PY_PARSE, _PY_PARSE + "    names = _DefinedNames()\n"
                "    py_cst.visit(names)\n")]},
    _v("filter-applied-to-merged-source", "R20.4",
       "  annotated_src = merge_sources(py=py_src, pyi=pyi_src)\n",
       "  annotated_src = merge_sources(py=py_src, pyi=pyi_src)\n"
       "  annotated_src = cst.parse_module(annotated_src).visit(\n"
       "      RemoveTrivialTypesTransformer()).code\n"),
    _v("second-apply-pass-in-merge_sources", "R20.4",
       "    return merged_cst.code",
       "    merged_cst = merged_cst.visit(visitors.RemoveImportsVisitor(\n"
       "        codemod.CodemodContext()))\n    return merged_cst.code"),
    # R20.5
    _v("file-written-in-every-mode", "R20.5",
       "  elif mode == Mode.OVERWRITE and changed:", "  elif changed:"),
    _v("stub-text-written-back", "R20.5", "      f.write(annotated_src)",
       "      f.write(pyi_src)"),
    _v("texts-swapped", "R20.5", "merge_sources(py=py_src, pyi=pyi_src)",
       "merge_sources(py=pyi_src, pyi=py_src)"),
    _v("backup-after-overwrite", "R20.5", _WRITE_OLD, _WRITE_BACKUP_LATE),
    _v("merged-text-appended-to-the-old-text", "R20.5",
       '    with open(py_path, "w") as f:', '    with open(py_path, "a") as f:'),
    _v("twin-file-opened-in-text-mode-by-keyword", "R20.5",
       '    with open(py_path, "w") as f:', '    with open(py_path, mode="wt") as f:', "silent"),
    _v("twin-guard-operands-reordered", "R20.5",
       "  elif mode == Mode.OVERWRITE and changed:",
       "  elif changed and Mode.OVERWRITE == mode:", "silent"),
    # R20.6
    _v("assign-built-without-value", "R20.6", _REBUILD_OLD, _REBUILD_UNGUARDED),
    _v("assign-value-from-annotation", "R20.6",
       "          value=updated_node.value,", "          value=updated_node.annotation,"),
    _v("assign-target-not-wrapped", "R20.6",
       "          targets=[cst.AssignTarget(target=updated_node.target)],",
       "          targets=[updated_node.target],"),
    _v("with_changes-unknown-field", "R20.6",
       "updated_node.with_changes(returns=None)",
       "updated_node.with_changes(annotation=None)"),
    _v("twin-rebuild-guard-inverted", "R20.6", _REBUILD_OLD, _REBUILD_TWIN, "silent"),
    _v("twin-assign-target-built-positionally", "R20.6",
       "cst.AssignTarget(target=updated_node.target)",
       "cst.AssignTarget(updated_node.target)", "silent"),
    _v("assign-target-second-positional-is-the-value", "R20.6",
       "cst.AssignTarget(target=updated_node.target)",
       "cst.AssignTarget(updated_node.target, updated_node.value)"),
    _v("assign-built-positionally-without-wrapping-the-target", "R20.6",
       "          targets=[cst.AssignTarget(target=updated_node.target)],\n"
       "          value=updated_node.value,\n",
       "          [updated_node.target],\n"
       "          updated_node.value,\n"),
    # R20.7
    {"name": "seeded-C20-m1", "rule": "R20.7", "patch": "seeded/C20-m1/patch.diff",
     "expect": "fire"},
    _v("functiondef-filter-test-inverted", "R20.7",
       "    if original_node.returns and self._is_any_or_never(\n"
       "        original_node.returns.annotation\n    ):",
       "    if original_node.returns and not self._is_any_or_never(\n"
       "        original_node.returns.annotation\n    ):"),
    _v("annassign-any-kept-when-target-is-attribute", "R20.7",
       "    if self._is_any_or_never(original_node.annotation.annotation):\n"
       "      if updated_node.value is None:",
       "    if self._is_any_or_never(original_node.annotation.annotation):\n"
       "      if updated_node.equal is not cst.MaybeSentinel.DEFAULT:\n"
       "        return updated_node\n"
       "      if updated_node.value is None:", "error"),
    _v("functiondef-returns-put-back", "R20.7",
       "      return updated_node.with_changes(returns=None)",
       "      return updated_node.with_changes(returns=original_node.returns)"),
    _v("functiondef-callback-removed", "R20.7", _LEAVE_FUNCDEF, ""),
    _v("twin-annassign-early-exit", "R20.7", _LEAVE_ANN_OLD, _LEAVE_ANN_EARLY, "silent"),
    _v("twin-annassign-conditional-expression", "R20.7", _LEAVE_ANN_OLD,
       _LEAVE_ANN_TERNARY, "silent"),
    _v("twin-functiondef-returns-updated-node", "R20.7",
       "      return updated_node.with_changes(returns=None)\n    return original_node",
       "      return updated_node.with_changes(returns=None)\n    return updated_node",
       "silent"),
    # R20.8
    # Since fix 87d75f5 (D44) the filter recognises `typing.Any`/`typing.Never`,
    # so a printer that qualifies typing members no longer breaks the property:
    # the seeded change C20-m2 is neutralised (its demo passes) and must be silent.
    {"name": "twin-seeded-C20-m2-neutralised-by-D44", "rule": "R20.8",
     "patch": "seeded/C20-m2/patch.diff", "expect": "silent"},
    {"name": "twin-printer-always-qualifies-typing-members", "rule": "R20.8", "file": PR,
     "expect": "silent",
     "old": "    alias = self._imports.get_alias(full_name) or name\n"
            "    self._imports.add(full_name, alias)\n    return alias\n",
     "new": "    alias = self._imports.get_alias(full_name)\n"
            "    if alias:\n      return alias\n"
            "    self._imports.add(\"typing\")\n    return \"typing.\" + name\n"},
    _v("filter-forgets-never", "R20.8",
       '        and annotation.value in ("Any", "Never")\n',
       '        and annotation.value in ("Any",)\n'),
    {"name": "printer-spells-nothing-as-NoReturn", "rule": "R20.8", "file": PR,
     "expect": "fire",
     "old": '      return_type = self._FromTyping("Never")',
     "new": '      return_type = self._FromTyping("NoReturn")'},
    {"name": "twin-printer-alias-lookup-unfolded", "rule": "R20.8", "file": PR,
     "expect": "silent",
     "old": "    alias = self._imports.get_alias(full_name) or name\n",
     "new": "    alias = self._imports.get_alias(full_name)\n"
            "    if not alias:\n      alias = name\n"},
    {"name": "twin-printer-collision-arm-inlined", "rule": "R20.8", "file": PR,
     "expect": "silent",
     "old": "    full_name = f\"typing.{name}\"\n"
            "    if self._NameCollision(name):\n"
            "      self._imports.add(\"typing\")\n      return full_name\n",
     "new": "    full_name = \"typing.\" + name\n"
            "    if not self._NameCollision(name):\n"
            "      pass\n"
            "    else:\n"
            "      self._imports.add(\"typing\")\n      return f\"typing.{name}\"\n"},
    {"name": "twin-qualified-spelling-with-filter-support", "rule": "R20.8",
     "expect": "silent", "edits": [
         (PR, "    alias = self._imports.get_alias(full_name) or name\n",
          "    alias = self._imports.get_alias(full_name)\n"
          "    if not alias and self._imports.get_alias(\"typing\"):\n"
          "      return \"typing.\" + name\n"
          "    alias = alias or name\n"),
         (MP, _D44_IF + "      # The stub printer writes `typing.Any` when the module defines its own\n"
          "      # `Any`.\n      annotation = annotation.attr\n", _ANY_QUALIFIED)]},
    {"name": "revert-D44-with-qualifying-printer", "rule": "R20.8", "expect": "fire",
     "edits": [(MP, "    if (\n        isinstance(annotation, expression.Attribute)\n        and isinstance(annotation.value, expression.Name)\n        and annotation.value.value == \"typing\"\n    ):\n      # The stub printer writes `typing.Any` when the module defines its own\n      # `Any`.\n      annotation = annotation.attr\n", "")]},
]


def _p(name, rid, patch, expect="fire"):
  return {"name": name, "rule": rid, "patch": f"benign/{patch}.diff", "expect": expect}


# The behaviour-preserving refactorings benign/C20-r1..r4 (helper extraction,
# guard clauses, hoisted locals, class/module constants, a shared base class, a
# @staticmethod, the pipeline of merge_sources split into helper functions with
# a loop over a tuple of filters) must stay silent - and each defect the rules
# are there for must still be found when it is seeded into the refactored text
# (benign/<id>/defect_*.diff = the refactoring plus one defect).
VARIANTS += [
    _p("twin-refactoring-C20-r1", "R20.7", "C20-r1/patch", "silent"),
    _p("twin-refactoring-C20-r2", "R20.1", "C20-r2/patch", "silent"),
    _p("twin-refactoring-C20-r3", "R20.3", "C20-r3/patch", "silent"),
    _p("twin-refactoring-C20-r4", "R20.8", "C20-r4/patch", "silent"),
    _p("twin-all-four-refactorings-at-once", "R20.1", "C20-r3/twin_all_c20_refactorings",
       "silent"),
    # r1: predicate split into a @staticmethod unwrapping helper + early returns
    _p("r1-d4-annassign-passes-annotation-wrapper", "R20.3",
       "C20-r1/defect_annassign_passes_wrapper"),
    _p("r1-functiondef-passes-annotation-wrapper-through-a-local", "R20.3",
       "C20-r1/defect_functiondef_passes_wrapper"),
    _p("r1-unwrapping-helper-tests-an-unrelated-class", "R20.3",
       "C20-r1/defect_strip_tests_unrelated_class"),
    _p("r1-functiondef-guard-clause-inverted", "R20.7",
       "C20-r1/defect_functiondef_guard_inverted"),
    _p("r1-annassign-guard-clause-inverted", "R20.7",
       "C20-r1/defect_annassign_guard_inverted"),
    _p("r1-hoisted-local-holds-another-field", "R20.7",
       "C20-r1/defect_hoisted_local_is_another_field", "error"),
    _p("r1-class-constant-forgets-never", "R20.8", "C20-r1/defect_dropped_names_forget_never"),
    _p("r1-unwrapping-helper-misspells-typing", "R20.8",
       "C20-r1/defect_typing_prefix_misspelt"),
    _p("r1-class-constant-is-a-list-mutated-elsewhere", "R20.8",
       "C20-r1/defect_dropped_names_mutated_elsewhere", "error"),
    _p("r1-assign-rebuilt-from-a-local-without-value-guard", "R20.6",
       "C20-r1/defect_assign_rebuilt_without_value_guard"),
    # r2: merge_sources split into _defined_class_names / _prefilter_stub, loop
    # over a tuple of filter instances, _merge_csts without the class alias
    _p("r2-any-never-filter-left-out-of-the-tuple", "R20.1",
       "C20-r2/defect_any_never_filter_left_out"),
    _p("r2-loop-discards-the-filtered-tree", "R20.1", "C20-r2/defect_loop_result_discarded"),
    _p("r2-prefilter-helper-given-the-source-text", "R20.1",
       "C20-r2/defect_prefilter_given_the_source"),
    _p("r2-source-tree-prefiltered-too", "R20.1", "C20-r2/defect_source_prefiltered_too"),
    _p("r2-returns-the-code-of-the-stub", "R20.1", "C20-r2/defect_returns_stub_code"),
    _p("r2-trees-swapped-at-the-inline-call", "R20.1", "C20-r2/defect_trees_swapped"),
    _p("r2-stub-and-target-swapped-in-merge", "R20.1",
       "C20-r2/defect_stub_and_target_swapped_in_merge"),
    _p("r2-prefilter-only-when-the-source-has-classes", "R20.1",
       "C20-r2/defect_prefilter_only_when_the_source_has_classes", "error"),
    _p("r2-overwrite-switch-on", "R20.2", "C20-r2/defect_overwrite_switch_on"),
    _p("r2-collector-helper-uses-a-transformer", "R20.4",
       "C20-r2/defect_collector_is_a_transformer"),
    _p("r2-prefilter-helper-applied-to-the-merged-text", "R20.4",
       "C20-r2/defect_prefilter_applied_to_merged_text"),
    # r3: isinstance dispatch over a hoisted local, module constant, _quoted()
    # @staticmethod, shared base class, comprehension -> loop
    _p("r3-trivial-type-dispatch-tests-the-wrapper", "R20.3",
       "C20-r3/defect_trivial_type_tests_wrapper"),
    _p("r3-literal-test-on-the-slice", "R20.3", "C20-r3/defect_literal_test_on_slice"),
    _p("r3-nested-class-test-given-the-base-wrapper", "R20.3",
       "C20-r3/defect_nested_class_test_given_the_base_wrapper"),
    _p("r3-static-helper-gives-the-node-as-second-field", "R20.6",
       "C20-r3/defect_quoted_gives_the_node_as_second_field"),
    _p("r3-loop-collects-bare-expressions-as-bases", "R20.6",
       "C20-r3/defect_kept_bases_hold_bare_expressions"),
    # further shapes of the same kinds (written for this suite)
    _p("twin-predicate-as-a-module-level-function", "R20.3",
       "C20-r1/twin_predicate_as_module_function", "silent"),
    _p("module-level-predicate-given-the-annotation-wrapper", "R20.3",
       "C20-r1/defect_module_function_predicate_given_the_wrapper"),
    _p("module-level-predicate-with-a-frozenset-constant-forgets-never", "R20.8",
       "C20-r1/defect_module_function_predicate_forgets_never"),
    _p("twin-callback-inherited-from-a-mixin", "R20.7", "C20-r1/twin_callback_in_a_mixin",
       "silent"),
    _p("twin-filters-collected-in-a-list-grown-in-place", "R20.1",
       "C20-r2/twin_filters_collected_in_a_list", "silent"),
    _p("list-of-filters-grown-under-a-run-time-test", "R20.1",
       "C20-r2/defect_list_of_filters_grown_conditionally", "error"),
    _p("twin-read-only-helper-of-the-pipeline-also-used-elsewhere", "R20.4",
       "C20-r2/twin_class_names_helper_also_used_for_a_report", "silent"),
    _p("twin-merge-sources-delegates-to-a-helper", "R20.1",
       "C20-r2/twin_merge_sources_delegates", "silent"),
]


# benign/C20-b3r1 (the drop-the-annotation tail of leave_AnnAssign extracted
# into a @staticmethod of the class: R20.7 reads the helper's returns inline,
# R20.8 does not take it for the predicate) and benign/C20-b3r2 (the
# write-with-backup body of merge_files_src extracted into _overwrite(): R20.5
# follows the call) - and the defects, seeded into these shapes.
_LEAVE_ANN_HELPER = """    if self._is_any_or_never(original_node.annotation.annotation):
      return self._without_annotation(updated_node)
    return original_node

  @staticmethod
  def _without_annotation(node):
    if node.value is None:
      return cst.RemovalSentinel.REMOVE
    return cst.Assign(
        targets=[cst.AssignTarget(target=node.target)],
        value=node.value,
        semicolon=node.semicolon,
    )
"""
_OVERWRITE_CALL = "    _overwrite(py_path, annotated_src, backup)\n"
_OVERWRITE_DEF = """def _overwrite(py_path, annotated_src, backup):
  if backup:
    shutil.copyfile(py_path, f"{py_path}.{backup}")
  with open(py_path, "w") as f:
    f.write(annotated_src)


"""
_MERGE_TREE = "def merge_tree(\n"


def _ow(name, call=_OVERWRITE_CALL, helper=_OVERWRITE_DEF, expect="fire"):
  return {"name": name, "rule": "R20.5", "expect": expect,
          "edits": [(MP, _WRITE_OLD, call), (MP, _MERGE_TREE, helper + _MERGE_TREE)]}


VARIANTS += [
    _p("twin-refactoring-C20-b3r1", "R20.7", "C20-b3r1/patch", "silent"),
    _p("twin-refactoring-C20-b3r1-predicate", "R20.8", "C20-b3r1/patch", "silent"),
    _v("twin-annassign-tail-in-a-static-helper", "R20.7", _LEAVE_ANN_OLD,
       _LEAVE_ANN_HELPER, "silent"),
    _v("twin-annassign-tail-in-a-static-helper-predicate", "R20.8", _LEAVE_ANN_OLD,
       _LEAVE_ANN_HELPER, "silent"),
    _v("annassign-helper-keeps-bare-declarations", "R20.7", _LEAVE_ANN_OLD,
       _LEAVE_ANN_HELPER.replace("      return cst.RemovalSentinel.REMOVE\n",
                                 "      return node\n")),
    _v("annassign-helper-rebuilds-the-annotated-node", "R20.7", _LEAVE_ANN_OLD,
       _LEAVE_ANN_HELPER.replace("    return cst.Assign(\n", "    return node.with_changes(\n")
       .replace("        targets=[cst.AssignTarget(target=node.target)],\n", "")),
    _v("annassign-helper-with-a-statement-not-understood", "R20.7", _LEAVE_ANN_OLD,
       _LEAVE_ANN_HELPER.replace("    if node.value is None:\n",
                                 "    assert node is not None\n    if node.value is None:\n"),
       "error"),
    {"name": "annassign-helper-and-filter-forgets-never", "rule": "R20.8", "expect": "fire",
     "edits": [(MP, _LEAVE_ANN_OLD, _LEAVE_ANN_HELPER),
               (MP, '        and annotation.value in ("Any", "Never")\n',
                '        and annotation.value in ("Any",)\n')]},
    _p("twin-refactoring-C20-b3r2", "R20.5", "C20-b3r2/patch", "silent"),
    _ow("twin-write-with-backup-in-a-helper", expect="silent"),
    _ow("helper-backup-after-overwrite", helper=_OVERWRITE_DEF.replace(
        '  if backup:\n    shutil.copyfile(py_path, f"{py_path}.{backup}")\n', "").replace(
            "    f.write(annotated_src)\n", "    f.write(annotated_src)\n  if backup:\n"
            '    shutil.copyfile(py_path, f"{py_path}.{backup}")\n')),
    _ow("helper-given-the-old-text",
        call="    _overwrite(py_path, py_src, backup)\n"),
    _ow("helper-given-swapped-arguments",
        call="    _overwrite(annotated_src, py_path, backup)\n"),
    _ow("helper-appends", helper=_OVERWRITE_DEF.replace('"w"', '"a"')),
    {"name": "helper-called-in-every-mode", "rule": "R20.5", "expect": "fire",
     "edits": _ow("")["edits"] + [
         (MP, "  elif mode == Mode.OVERWRITE and changed:", "  elif changed:")]},
    _ow("helper-called-twice", expect="error",
        call=_OVERWRITE_CALL + "  if mode == Mode.PRINT:\n    pass\n"
        "  else:\n" + _OVERWRITE_CALL),
    _ow("helper-also-called-from-elsewhere", expect="error",
        helper=_OVERWRITE_DEF + "def _force(py_path, text):\n"
        "  _overwrite(py_path, text, None)\n\n\n"),
]
