"""C15 extension (R15.27): producer and consumers of the `push_exc_block` flag agree.

For 3.11+ bytecode `opcodes._add_setup_except` re-creates block markers from
the exception table: a synthetic SETUP_EXCEPT_311 in front of every range and a
POP_BLOCK behind it.  A jump from outside *into* a range skips the SETUP op, so
the jump is flagged `push_exc_block` and every consumer of the flag has to push
the block the skipped SETUP op would have pushed:

  blocks.add_pop_block_targets   pushes the range's SETUP op onto its
                                 block-stack tuple (ordering pass);
  VirtualMachine.store_jump      pushes a "setup-except" block on the state.

If a flagged jump pushes nothing, the walk reaches the range's POP_BLOCK with
an empty stack: `AssertionError: POP_BLOCK without block.` leaves
blocks.process_code, before the VM even starts.

Producer premise (re-derived each run): the flag is set when
`(1 << <jump target offset>) & mask` is non-zero, and the mask function is
*evaluated* (rules/_minieval.py) on a sample range {start: end}: it marks the
interior offsets of the range too, i.e. a flagged jump may land anywhere in
start <= target <= end, not only on the first opcode.

Consumer obligations:
  A. in the arm guarded by the flag the block stack is extended on every path
     (no conditional push, no assert/raise inside the arm);
  B. when what is pushed is an opcode (the blocks.py tuple), it is proven to be
     the range's setup op for *every* position the producer can flag: it is
     found by a backward scan from the jump target (`while not isinstance(v,
     <setup classes>): v = v.prev`, inline or in a module-local helper) whose
     class tuple contains SETUP_EXCEPT_311.  Looking only at the op adjacent to
     the target covers just the jumps onto the first opcode of a range.
"""
import ast

from sa.core import rule, AnalysisError
from sa.pyindex import get_module, dotted, src, all_py_files
from sa import flow
from rules import _minieval as ME

OPC = "pytype/pyc/opcodes.py"
FLAG = "push_exc_block"
CONSUMER_FILES = ("pytype/vm.py", "pytype/blocks/")
SETUP_311 = "SETUP_EXCEPT_311"


class _Interp(ME.Interp):
  def binop(self, op, a, b):
    if isinstance(a, int) and isinstance(b, int):
      if isinstance(op, ast.LShift) and 0 <= b < 256:
        return a << b
      if isinstance(op, ast.RShift) and 0 <= b < 256:
        return a >> b
    return super().binop(op, a, b)

  def sub(self, fn):
    return _Interp(fn, self.globals, self.max_steps, self.resolver)


def _single_def(mod, fn, name):
  defs = [mod.parent.get(n) for n in ast.walk(fn) if isinstance(n, ast.Name) and n.id == name
          and isinstance(n.ctx, ast.Store)]
  if len(defs) == 1 and isinstance(defs[0], ast.Assign) and len(defs[0].targets) == 1:
    return defs[0].value
  return None


def _conjuncts(test, pol=True):
  """Atomic expressions asserted true by test==pol."""
  while isinstance(test, ast.UnaryOp) and isinstance(test.op, ast.Not):
    test, pol = test.operand, not pol
  if isinstance(test, ast.BoolOp):
    if (isinstance(test.op, ast.And) and pol) or (isinstance(test.op, ast.Or) and not pol):
      return [c for v in test.values for c in _conjuncts(v, pol)]
    return []
  return [test] if pol else []


def producer_premise(ctx):
  """Where the flag is set, and whether a flagged jump can land inside a range."""
  mod = get_module(ctx, OPC)
  sets = [n for n in ast.walk(mod.tree) if isinstance(n, ast.Attribute) and n.attr == FLAG
          and isinstance(n.ctx, ast.Store)]
  sets = [s for s in sets if not (isinstance(mod.parent.get(s), ast.Assign)
                                  and isinstance(mod.parent[s].value, ast.Constant)
                                  and mod.parent[s].value.value is False)]
  if len(sets) != 1:
    raise AnalysisError(f"{OPC}: expected one place that sets {FLAG}, found {len(sets)}")
  st = mod.parent[sets[0]]
  if not (isinstance(st, ast.Assign) and isinstance(st.value, ast.Constant) and st.value.value is True):
    raise AnalysisError(f"{OPC}:{st.lineno}: {FLAG} is set to something other than True")
  fn = mod.enclosing_function(st)
  if fn is None:
    raise AnalysisError(f"{OPC}: {FLAG} is set at module level")
  mask_fn = None
  target_expr = None
  asserted = []
  for t, p in flow.guards(mod.parent, st, stop=fn):
    asserted += _conjuncts(t, p)
  for t in asserted:
    if not isinstance(t, ast.Name):
      continue
    v = _single_def(mod, fn, t.id)
    if isinstance(v, ast.BinOp) and isinstance(v.op, ast.BitAnd):
      sides = [v.left, v.right]
      shift = [s for s in sides if isinstance(s, ast.BinOp) and isinstance(s.op, ast.LShift)
               and isinstance(s.left, ast.Constant) and s.left.value == 1]
      mask = [s for s in sides if isinstance(s, ast.Name)]
      if len(shift) == 1 and len(mask) == 1:
        mv = _single_def(mod, fn, mask[0].id)
        if isinstance(mv, ast.Call) and isinstance(mv.func, ast.Name) and mv.func.id in mod.functions:
          mask_fn, target_expr = mod.functions[mv.func.id], src(shift[0].right)
  if mask_fn is None:
    raise AnalysisError(f"{fn.name}: the condition under which {FLAG} is set is not a test of "
                        "`(1 << <target>) & <mask built by a module function>`; the premise of the "
                        "rule has to be re-derived")
  if not target_expr.endswith((".argval", ".arg")):
    raise AnalysisError(f"{fn.name}: the tested offset `{target_expr}` is not the jump's target")
  params = [a.arg for a in mask_fn.args.args]
  if len(params) != 2:
    raise AnalysisError(f"{mask_fn.name}: expected (offset_to_op, exception_ranges)")
  start, end, top = 4, 8, 12
  try:
    mask = _Interp(mask_fn).call({params[0]: {i: None for i in range(0, top + 1, 2)},
                                  params[1]: {start: end}})
  except (ME.Outside, ME.Raised, ME.Diverged) as e:
    raise AnalysisError(f"{mask_fn.name}: cannot be evaluated on a sample range: {e}") from e
  if not isinstance(mask, int):
    raise AnalysisError(f"{mask_fn.name}: does not return a bitmask")
  marked = [i for i in range(top + 1) if mask >> i & 1]
  if start not in marked or any(i < start or i > end for i in marked):
    raise AnalysisError(f"{mask_fn.name}: for the range {start}..{end} marks {marked}")
  interior = [i for i in marked if i != start]
  return {"set_in": fn.name, "mask_function": mask_fn.name, "line": st.lineno,
          "sample_range": [start, end], "marked_offsets": marked, "interior": bool(interior)}


def _last_name(e):
  d = dotted(e)
  return d.split(".")[-1] if d else None


def _setup_classes(mod, fn, e):
  """Class names denoted by the second argument of isinstance."""
  if isinstance(e, ast.Tuple):
    out = []
    for x in e.elts:
      out += _setup_classes(mod, fn, x)
    return out
  if isinstance(e, ast.Name):
    v = _single_def(mod, fn, e.id) if fn is not None else None
    if v is None and e.id in mod.assigns:
      v = mod.assigns[e.id]
    if v is not None and isinstance(v, ast.Tuple):
      return _setup_classes(mod, fn, v)
    return [e.id]
  n = _last_name(e)
  if n is None:
    raise AnalysisError(f"isinstance class `{src(e)}` not understood")
  return [n]


def _isinstance_of(test, var):
  """class expr if test is `isinstance(var, K)`."""
  if isinstance(test, ast.Call) and isinstance(test.func, ast.Name) and test.func.id == "isinstance" \
      and len(test.args) == 2 and isinstance(test.args[0], ast.Name) and test.args[0].id == var:
    return test.args[1]
  return None


def _scan_loop(mod, fn, loop, var):
  """Does `loop` leave only with isinstance(var, K) true, stepping var = var.prev?
  Returns (classes, problem)."""
  if not isinstance(loop, ast.While) or loop.orelse:
    return None, "not a plain while loop"
  k = None
  t = loop.test
  body = list(loop.body)
  if isinstance(t, ast.UnaryOp) and isinstance(t.op, ast.Not) and _isinstance_of(t.operand, var) is not None:
    k = _isinstance_of(t.operand, var)
    if any(isinstance(n, ast.Break) for s in body for n in ast.walk(s)):
      return None, "the scan can be left by `break` before a setup op is found"
  elif isinstance(t, ast.Constant) and t.value is True and body and isinstance(body[0], ast.If) \
      and _isinstance_of(body[0].test, var) is not None and len(body[0].body) == 1 \
      and isinstance(body[0].body[0], ast.Break) and not body[0].orelse:
    k = _isinstance_of(body[0].test, var)
    body = body[1:]
    if any(isinstance(n, ast.Break) for s in body for n in ast.walk(s)):
      return None, "the scan has a second `break`"
  else:
    conj = t.values if isinstance(t, ast.BoolOp) and isinstance(t.op, ast.And) else []
    if any(isinstance(c, ast.UnaryOp) and isinstance(c.op, ast.Not)
           and _isinstance_of(c.operand, var) is not None for c in conj):
      return None, ("the scan also stops for another reason "
                    f"(`{src(t)}`), so what it ends on need not be a setup op")
    return None, f"the loop test `{src(t)}` does not establish isinstance({var}, ..) on exit"
  if any(isinstance(n, (ast.Return, ast.Raise, ast.Assert)) for s in body for n in ast.walk(s)):
    return None, "the scan can be left by return/raise"
  steps = [s for s in body if not (isinstance(s, ast.Expr) and isinstance(s.value, ast.Constant))]
  if not (len(steps) == 1 and isinstance(steps[0], ast.Assign) and len(steps[0].targets) == 1
          and isinstance(steps[0].targets[0], ast.Name) and steps[0].targets[0].id == var
          and src(steps[0].value) == f"{var}.prev"):
    return None, f"the loop body is not `{var} = {var}.prev`"
  return _setup_classes(mod, fn, k), None


def _proven_setup(mod, fn, arm_body, push_stmt, elt, jump_target_names, depth=0):
  """Is the pushed element `elt` the result of a backward scan from the jump target?
  Returns (ok, why, facts)."""
  if not isinstance(elt, ast.Name):
    return False, f"`{src(elt)}` is pushed without establishing that it is a setup op", {}
  var = elt.id
  # statements of the arm before the push, in order
  before = []
  for s in arm_body:
    if s is push_stmt:
      break
    before.append(s)
  else:
    raise AnalysisError(f"{fn.name}: the push is nested inside the flag arm in a way that is "
                        "not understood")
  init = None
  scan = None
  for s in before:
    if isinstance(s, ast.Assign) and len(s.targets) == 1 and isinstance(s.targets[0], ast.Name) \
        and s.targets[0].id == var:
      init, scan = s.value, None
    elif any(isinstance(n, ast.Name) and n.id == var and isinstance(n.ctx, ast.Store)
             for n in ast.walk(s)):
      if isinstance(s, ast.While) and scan is None:
        scan = s
      else:
        raise AnalysisError(f"{fn.name}: `{var}` is re-bound in `{type(s).__name__}` before the push")
  if init is None:
    raise AnalysisError(f"{fn.name}: the pushed `{var}` is not assigned in the flag arm")
  if scan is None:
    # a module-local helper that does the scan?
    if isinstance(init, ast.Call) and isinstance(init.func, ast.Name) and init.func.id in mod.functions \
        and depth == 0:
      h = mod.functions[init.func.id]
      hp = [a.arg for a in h.args.args]
      starts = [p for p, a in zip(hp, init.args) if src(a) in jump_target_names]
      rets = [r for r in ast.walk(h) if isinstance(r, ast.Return)]
      loops = [s for s in h.body if isinstance(s, ast.While)]
      if len(starts) == 1 and len(rets) == 1 and isinstance(rets[0].value, ast.Name) and len(loops) == 1 \
          and h.body[-1] is rets[0]:
        rv = rets[0].value.id
        pre = [s for s in h.body if isinstance(s, ast.Assign) and len(s.targets) == 1
               and isinstance(s.targets[0], ast.Name) and s.targets[0].id == rv]
        if rv == starts[0] and not pre or (len(pre) == 1 and src(pre[0].value) == starts[0]):
          # classes may be passed as an argument
          ks, prob = _scan_loop(mod, h, loops[0], rv)
          if prob:
            return False, f"{h.name}: {prob}", {}
          amap = dict(zip(hp, init.args))
          ks2 = []
          for k in ks:
            ks2 += _setup_classes(mod, fn, amap[k]) if k in amap else [k]
          if SETUP_311 not in ks2:
            return False, f"{h.name} scans for {ks2}, which lacks {SETUP_311}", {}
          return True, None, {"scan": f"helper {h.name}", "classes": ks2}
      raise AnalysisError(f"{fn.name}: helper {h.name} that finds the setup op is not understood")
    return False, (f"`{var} = {src(init)}` is pushed without a backward scan: only that one "
                   "position is looked at, but a flagged jump may land anywhere inside the range"), {}
  if src(init) not in jump_target_names:
    return False, f"the scan starts at `{src(init)}`, not at the jump target", {}
  ks, prob = _scan_loop(mod, fn, scan, var)
  if prob:
    return False, prob, {}
  if SETUP_311 not in ks:
    return False, f"the scan looks for {ks}, which lacks {SETUP_311}", {}
  return True, None, {"scan": "inline while loop", "classes": ks}


def _arm_paths(body, is_push, problems):
  """True if every path through `body` executes a push statement."""
  for s in body:
    if is_push(s):
      return True
    if isinstance(s, (ast.Assert, ast.Raise)):
      problems.append(f"`{src(s)[:50]}` inside the arm: on that path nothing is pushed and the "
                      "exception leaves the analysis")
      continue
    if isinstance(s, ast.If):
      a = _arm_paths(s.body, is_push, problems)
      b = _arm_paths(s.orelse, is_push, problems)
      if a and b:
        return True
      if a or b:
        problems.append(f"the push happens only when `{src(s.test)[:60]}` is "
                        f"{'true' if a else 'false'}")
      continue
    if isinstance(s, (ast.For, ast.While)):
      if any(is_push(n) for n in ast.walk(s) if isinstance(n, ast.stmt)):
        problems.append("the push sits inside a loop that may run zero times")
      continue
    if isinstance(s, (ast.Try, ast.With, ast.Match, ast.Return, ast.Continue, ast.Break)):
      raise AnalysisError(f"`{type(s).__name__}` inside the {FLAG} arm is not understood")
  return False


def _consumers(ctx):
  out = []
  for rel in all_py_files(ctx):
    if not rel.startswith(CONSUMER_FILES) or rel.endswith("_test.py"):
      continue
    if FLAG not in ctx.read(rel):
      continue
    mod = get_module(ctx, rel)
    for n in ast.walk(mod.tree):
      if isinstance(n, ast.Attribute) and n.attr == FLAG and isinstance(n.ctx, ast.Load):
        out.append((rel, mod, n))
  return out


def _qual(mod, fn):
  for cname in mod.classes:
    for mname, f in mod.methods(cname).items():
      if f is fn:
        return f"{cname}.{mname}"
  return fn.name


@rule("R15.27", "C15", floor=3)
def r15_27(ctx):
  """Every consumer of push_exc_block pushes a block for every flagged jump."""
  prem = producer_premise(ctx)
  ctx.ok(f"producer:{FLAG}", OPC, prem["line"], prem)
  if not prem["interior"]:
    raise AnalysisError(f"{prem['mask_function']}: only the first offset of a range is marked now; "
                        "the consumers' obligation has to be re-derived")
  cons = _consumers(ctx)
  if len(cons) < 2:
    raise AnalysisError(f"expected consumers of {FLAG} in blocks/ and vm.py, found "
                        f"{[(r, n.lineno) for r, _, n in cons]}")
  for rel, mod, node in cons:
    fn = mod.enclosing_function(node)
    par = mod.parent.get(node)
    if fn is None or not (isinstance(par, ast.If) and par.test is node):
      raise AnalysisError(f"{rel}:{node.lineno}: {FLAG} is read outside a plain `if <op>.{FLAG}:` test")
    qual = _qual(mod, fn)
    opname = src(node.value)
    # the block stack: the name whose top is read in this function (`N[-1]`)
    tops = {n.value.id for n in ast.walk(fn) if isinstance(n, ast.Subscript)
            and isinstance(n.value, ast.Name) and isinstance(n.slice, ast.UnaryOp)
            and isinstance(n.slice.op, ast.USub) and isinstance(n.slice.operand, ast.Constant)
            and n.slice.operand.value == 1}

    def pushed_elt(s):
      """element pushed by `N += (x,)` / `N = N + (x,)` for a block-stack name N."""
      if isinstance(s, ast.AugAssign) and isinstance(s.op, ast.Add) and isinstance(s.target, ast.Name) \
          and s.target.id in tops and isinstance(s.value, (ast.Tuple, ast.List)) and len(s.value.elts) == 1:
        return s.value.elts[0]
      if isinstance(s, ast.Assign) and len(s.targets) == 1 and isinstance(s.targets[0], ast.Name) \
          and s.targets[0].id in tops and isinstance(s.value, ast.BinOp) and isinstance(s.value.op, ast.Add) \
          and src(s.value.left) == s.targets[0].id and isinstance(s.value.right, (ast.Tuple, ast.List)) \
          and len(s.value.right.elts) == 1:
        return s.value.right.elts[0]
      return None

    def call_push(s):
      if isinstance(s, (ast.Assign, ast.Expr)):
        for c in ast.walk(s.value):
          if isinstance(c, ast.Call) and _last_name(c.func) == "push_block":
            return True
      return False

    def is_push(s):
      return pushed_elt(s) is not None or call_push(s)

    problems = []
    every = _arm_paths(par.body, is_push, problems)
    pushes = [s for y in par.body for s in ast.walk(y) if isinstance(s, ast.stmt) and is_push(s)]
    facts = {"function": qual, "pushes": [src(s)[:60] for s in pushes]}
    if not pushes:
      problems.append("no push of a block in the arm")
    elif not every and not problems:
      problems.append("a path through the arm pushes nothing")
    for s in pushes:
      elt = pushed_elt(s)
      if elt is None:
        continue
      if s not in par.body:
        continue   # conditional push: already reported by A
      ok, why, f2 = _proven_setup(mod, fn, par.body, s, elt,
                                  {f"{opname}.target"})
      facts.update(f2)
      if not ok:
        problems.append(why)
    ctx.check(not problems, f"consumer:{qual}", rel, node.lineno,
              f"a jump flagged {FLAG} may land anywhere inside an exception range "
              f"({prem['mask_function']} marks offsets {prem['marked_offsets']} for the range "
              f"{prem['sample_range']}); this consumer must push the range's block for every such "
              "jump, else the range's POP_BLOCK finds an empty stack (`POP_BLOCK without block.` "
              "escapes process_code): " + "; ".join(problems), facts)


BLK = "pytype/blocks/blocks.py"
_ARM = ("        setup_op = op.target\n"
        "        while not isinstance(setup_op, setup_except_op):\n"
        "          setup_op = setup_op.prev\n"
        "        block_stack += (setup_op,)\n")

VARIANTS = [
    {"name": "seeded-C15-r3m2", "rule": "R15.27", "patch": "seeded/C15-r3m2/patch.diff",
     "expect": "fire"},
    # the adjacent op is pushed without looking at it
    {"name": "push-adjacent-op-unchecked", "rule": "R15.27", "file": BLK, "expect": "fire",
     "old": _ARM,
     "new": "        setup_op = op.target.prev\n        block_stack += (setup_op,)\n"},
    # asserted instead of searched
    {"name": "push-adjacent-op-asserted", "rule": "R15.27", "file": BLK, "expect": "fire",
     "old": _ARM,
     "new": ("        setup_op = op.target.prev\n"
             "        assert isinstance(setup_op, setup_except_op)\n"
             "        block_stack += (setup_op,)\n")},
    # bounded scan
    {"name": "scan-gives-up-after-line-change", "rule": "R15.27", "file": BLK, "expect": "fire",
     "old": "        while not isinstance(setup_op, setup_except_op):\n",
     "new": ("        while not isinstance(setup_op, setup_except_op) and "
             "setup_op.line == op.target.line:\n")},
    # scan looks for the pre-3.11 setup op only
    {"name": "scan-for-setup-finally-only", "rule": "R15.27", "file": BLK, "expect": "fire",
     "old": "        while not isinstance(setup_op, setup_except_op):\n",
     "new": "        while not isinstance(setup_op, opcodes.SETUP_FINALLY):\n"},
    # the VM consumer pushes only when a block is already open
    {"name": "vm-store-jump-conditional-push", "rule": "R15.27", "file": "pytype/vm.py",
     "expect": "fire",
     "old": ("    if current_opcode.push_exc_block:\n"
             "      state = vm_utils.push_block(\n"
             "          state, \"setup-except\", index=current_opcode.index\n"
             "      )\n"),
     "new": ("    if current_opcode.push_exc_block:\n"
             "      if state.block_stack:\n"
             "        state = vm_utils.push_block(\n"
             "            state, \"setup-except\", index=current_opcode.index\n"
             "        )\n")},
    # twins
    {"name": "twin-scan-while-true-break", "rule": "R15.27", "file": BLK, "expect": "silent",
     "old": _ARM,
     "new": ("        found = op.target\n"
             "        while True:\n"
             "          if isinstance(found, setup_except_op):\n"
             "            break\n"
             "          found = found.prev\n"
             "        block_stack = block_stack + (found,)\n")},
    {"name": "twin-scan-in-helper", "rule": "R15.27", "expect": "silent",
     "edits": [(BLK, "def add_pop_block_targets(bytecode: list[opcodes.Opcode]) -> None:",
                "def _enclosing_setup(start, setup_classes):\n"
                "  cur = start\n"
                "  while not isinstance(cur, setup_classes):\n"
                "    cur = cur.prev\n"
                "  return cur\n\n\n"
                "def add_pop_block_targets(bytecode: list[opcodes.Opcode]) -> None:"),
               (BLK, _ARM,
                "        setup_op = _enclosing_setup(op.target, setup_except_op)\n"
                "        block_stack += (setup_op,)\n")]},
    {"name": "twin-benign-C16-r4-arm-in-helper", "rule": "R15.27",
     "patch": "benign/C16-r4/patch.diff", "expect": "silent"},
    {"name": "twin-benign-C16-r2-producer-split", "rule": "R15.27",
     "patch": "benign/C16-r2/patch.diff", "expect": "silent"},
    # the producer changed what it flags: premise gone
    {"name": "producer-flags-by-membership-test", "rule": "R15.27", "file": OPC, "expect": "error",
     "old": "    ends_in_exception = (1 << op.argval) & in_exception\n",
     "new": "    ends_in_exception = op.argval in exception_ranges\n"},
]
