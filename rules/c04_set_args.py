"""C04 extension (R4.10): a set must not cross a module / receiver boundary
into a parameter whose iteration order the callee passes on.

R4.6 decides walks over definite sets inside one module (plus calls it can
resolve inside that module).  Two sites that are each fine on their own are
invisible to it: a caller that builds a set (nothing walks it there) and hands
it to a function of ANOTHER module or to a method of another object, and a
callee that is "order preserving" (dedupes with dict.fromkeys, lists, joins
its argument as given).  The obligation is interprocedural:

  a function whose result follows the iteration order of a parameter must not
  receive a definite set for that parameter from any caller in the package -
  or it must canonicalise first (sorted(..), set(..) followed by a sorted
  walk), which makes the walk provably order-insensitive.

Decided per call site: every call in the scope files that passes a definite
set (rules/c04.py `_SetInference`) and that R4.6 cannot resolve inside the
module is resolved by name: `alias.f(..)` / `alias.Cls(..)` through the
module's imports to the function / the class's __init__ in that package
module, `Cls(..)` of a class of the same module to its __init__, and
`<anything>.m(..)` to EVERY method named `m` of every class of the package
(receiver types are not inferred; names that are also methods of the builtin
containers / str are left to R4.6's consumer table).  For each candidate the
receiving parameter's entry value is followed (reaching definitions, further
module-local calls: `_param_walks` of rules/c04.py) to order-observing
consumers that are not provably order-insensitive.  A site with such a walk is
a violation unless the (callee, parameter) pair is in the frozen triage table
below.
"""
import ast
import collections

from sa.core import rule, AnalysisError
from sa.pyindex import get_module, dotted, src
from rules import c04 as _c04

_FUNC = (ast.FunctionDef, ast.AsyncFunctionDef)

# names that are methods of the builtin containers / str: `x.update(s)`,
# `", ".join(s)` on an unknown receiver are far more likely those than a
# package method of the same name (R4.6 lists the order-observing ones as
# consumers itself)
_BUILTIN_METHODS = frozenset(
    m for ty in (set, frozenset, dict, list, tuple, str, bytes,
                 collections.deque, collections.Counter)
    for m in dir(ty) if not m.startswith("__"))

# (callee file, callee qualified name, parameter) -> (allowed walk kinds, reason)
_TRIAGED_CALLEES = {
    ("pytype/errors/error_types.py", "WrongKeywordArgs.__init__",
     "extra_keywords"): (
         ("tuple()",),
         "the tuple is stored as .extra_keywords and read three ways: "
         "errors.wrong_keyword_args prints the single element or "
         "sorted(extra_keywords); function.match_all_args deletes every "
         "listed keyword by name (commutative) and keeps [0] only as the "
         "`name` column of its error triples, which its two consumers "
         "(vm_utils._check_defaults, attr_overlay._match_and_discard_args) "
         "either ignore or compare with 'default' / 'factory' - names that "
         "are parameters of attr.ib and therefore never extra keywords"),
}


def _method_index(ctx):
  """method name -> [(file, line)] over every class of the package (tests
  excluded), built on plain parses (no parent maps)."""
  def build():
    index = {}
    modfile = {}
    for rel in _c04._scope_files(ctx, True):
      modfile[rel[:-3].replace("/", ".")] = rel
      if rel.endswith("/__init__.py"):
        modfile[rel[:-len("/__init__.py")].replace("/", ".")] = rel
      tree = _c04._plain_tree(ctx, rel)
      for cls in ast.walk(tree):
        if isinstance(cls, ast.ClassDef):
          for st in cls.body:
            if isinstance(st, _FUNC):
              index.setdefault(st.name, []).append((rel, st.lineno))
    return index, modfile
  return ctx.memo(("c04-method-index",), build)


def _inference(ctx, rel):
  return ctx.memo(("c04-setinf", rel),
                  lambda: _c04._SetInference(get_module(ctx, rel)))


def _def_at(ctx, rel, line, name):
  def build():
    return {(n.lineno, n.name): n for n in ast.walk(get_module(ctx, rel).tree)
            if isinstance(n, _FUNC)}
  table = ctx.memo(("c04-defs-by-line", rel), build)
  return table.get((line, name))


def _skip_of(fn):
  """Number of implicit leading parameters of a method reached through an
  instance / class; None when it is not a plain callable (property, wrapped)."""
  decs = {(dotted(d) or "").split(".")[-1] for d in fn.decorator_list}
  if "staticmethod" in decs:
    return 0
  if decs - {"classmethod", "abstractmethod", "override", "final"}:
    return None
  return 1


def _init_of(ctx, rel, cls):
  inf = _inference(ctx, rel)
  for c in inf._class_and_bases(cls):
    for st in c.body:
      if isinstance(st, _FUNC) and st.name == "__init__":
        return st
  return None


def _candidates(ctx, mod, call):
  """[(file, def, implicit leading parameters)] the call may reach outside what
  R4.6's module-local resolution covers."""
  index, modfile = _method_index(ctx)
  f = call.func
  if isinstance(f, ast.Name):
    if f.id in mod.classes:
      init = _init_of(ctx, mod.rel, mod.classes[f.id])
      return [(mod.rel, init, 1)] if init is not None else []
    return []
  if not isinstance(f, ast.Attribute):
    return []
  d = dotted(f.value)
  if d and d in mod.imports:
    rel = modfile.get(mod.imports[d])
    if rel is None:
      return []           # not a module of the package (stdlib, third party)
    m2 = get_module(ctx, rel)
    if f.attr in m2.functions:
      return [(rel, m2.functions[f.attr], 0)]
    if f.attr in m2.classes:
      init = _init_of(ctx, rel, m2.classes[f.attr])
      return [(rel, init, 1)] if init is not None else []
    return []
  if f.attr in _BUILTIN_METHODS or (f.attr.startswith("__") and f.attr.endswith("__")):
    return []             # `super().__init__(..)`, operators: receiver class unknown
  out = []
  for rel, line in index.get(f.attr, []):
    fn = _def_at(ctx, rel, line, f.attr)
    if fn is None:
      raise AnalysisError(f"{rel}:{line}: method {f.attr} indexed but not found")
    skip = _skip_of(fn)
    if skip is not None:
      out.append((rel, fn, skip))
  return out


def _run(ctx, files):
  for rel in files:
    mod = get_module(ctx, rel)
    inf = _inference(ctx, rel)
    counter = {}
    calls = sorted((n for n in ast.walk(mod.tree) if isinstance(n, ast.Call)),
                   key=lambda n: (n.lineno, n.col_offset))
    for call in calls:
      args = [a for a in list(call.args) + [k.value for k in call.keywords]
              if not isinstance(a, ast.Starred)]
      if not args or inf.resolve_callee(call, call) is not None:
        continue
      set_args = [a for a in args if inf.is_set(a, call)]
      # `f(sorted(S))`: the same site, canonicalised by the caller
      sorted_args = [a for a in args if isinstance(a, ast.Call)
                     and dotted(a.func) == "sorted" and a.args
                     and inf.is_set(a.args[0], call)]
      if not set_args and not sorted_args:
        continue
      cands = _candidates(ctx, mod, call)
      if not cands:
        continue
      qual = _c04._qualname(mod, call)
      callee_txt = src(call.func)
      for a in sorted_args:
        base = f"{rel.removeprefix('pytype/')}:{qual}|{callee_txt}({src(a.args[0])})"
        k = counter[base] = counter.get(base, 0) + 1
        ctx.ok(base if k == 1 else f"{base}#{k}", rel, call.lineno,
               {"argument": src(a), "canonicalised": "sorted at the call site"})
      for a in set_args:
        base = f"{rel.removeprefix('pytype/')}:{qual}|{callee_txt}({src(a)})"
        k = counter[base] = counter.get(base, 0) + 1
        construct = base if k == 1 else f"{base}#{k}"
        walked, triaged, receivers = [], [], []
        for crel, fn, skip in cands:
          param = inf.param_of_arg(call, fn, skip, a)
          if param is None:
            continue
          cmod = get_module(ctx, crel)
          cq = _c04._def_qual(cmod, fn)
          receivers.append(f"{crel.removeprefix('pytype/')}:{cq}({param})")
          walks = _c04._param_walks(cmod, _inference(ctx, crel), fn, param)
          if not walks:
            continue
          entry = _TRIAGED_CALLEES.get((crel, cq, param))
          kinds = sorted({k_ for k_, _ in walks})
          if entry is not None and set(kinds) <= set(entry[0]):
            triaged.append((cq, entry[1]))
          else:
            walked.append((crel, cq, param, kinds, walks[0][1]))
        facts = {"argument": src(a), "receivers": receivers[:6]}
        if walked:
          crel, cq, param, kinds, line = walked[0]
          ctx.bad(construct, rel, call.lineno,
                  f"`{src(a)}` is definitely a set and is handed to "
                  f"{cq}({param}) [{crel}:{line}], which walks that parameter "
                  f"in iteration order ({', '.join(kinds)}) without "
                  "canonicalising it first: the set's hash order (PYTHONHASHSEED) "
                  "becomes the order of the callee's result.  Sort at the call "
                  "site or in the callee",
                  facts | {"walks": kinds})
        else:
          if triaged:
            facts["triaged"] = triaged[0][1]
          ctx.ok(construct, rel, call.lineno, facts)


@rule("R4.10", "C04", floor=1)
def r4_10(ctx):
  """Definite sets handed across a module / receiver boundary: callers in the
  output-path modules (the scope of R4.6)."""
  _run(ctx, _c04._scope_files(ctx, whole=False))


@rule("R4.10w", "C04", floor=25, tier="thorough")
def r4_10_whole(ctx):
  """Definite sets handed across a module / receiver boundary: callers in the
  rest of the package."""
  quick = set(_c04._scope_files(ctx, whole=False))
  _run(ctx, [f for f in _c04._scope_files(ctx, whole=True) if f not in quick])


PPB = "pytype/pretty_printer_base.py"
ERRORS = "pytype/errors/errors.py"
_PRINT_TYPES = ("      print_types = {\n"
                "          self._pp.print_type(v, literal=literal) for v in binding.variable.data\n"
                "      }\n")

VARIANTS = [
    {"name": "seeded-C04-r3m1", "rule": "R4.10", "patch": "seeded/C04-r3m1/patch.diff",
     "expect": "fire"},
    # other callers / callees, same obligation
    {"name": "typevar-constraints-deduped-through-a-set-before-jointypes", "rule": "R4.10",
     "file": "pytype/output.py", "expect": "fire",
     "old": "      return pytd_utils.JoinTypes(\n          self.value_instance_to_pytd_type(node, p, None, seen, view)\n          for p in v.param.constraints\n      )",
     "new": "      return pytd_utils.JoinTypes({\n          self.value_instance_to_pytd_type(node, p, None, seen, view)\n          for p in v.param.constraints\n      })"},
    {"name": "call-trace-argument-types-through-a-set", "rule": "R4.10",
     "file": "pytype/tracer_vm.py", "expect": "fire",
     "old": "      return pytd_utils.JoinTypes(a.to_pytd_type(node) for a in arg.data)",
     "new": "      return pytd_utils.JoinTypes({a.to_pytd_type(node) for a in arg.data})"},
    {"name": "join-printed-types-dedupes-by-first-occurrence-loop", "rule": "R4.10", "expect": "fire",
     "edits": [(PPB, "    typs = set(typs)  # dedup\n",
                "    first = []\n    for t in typs:\n      if t not in first:\n        first.append(t)\n    typs = first\n"),
               (PPB, "      literal_contents = set()\n", "      literal_contents = []\n"),
               (PPB, "          literal_contents.update(t[len(\"Literal[\") : -1].split(\", \"))",
                "          literal_contents.extend(t[len(\"Literal[\") : -1].split(\", \"))"),
               (PPB, "', '.join(sorted(literal_contents))", "', '.join(literal_contents)")]},
    # behaviour-preserving twins
    {"name": "twin-print-types-built-by-set-call", "rule": "R4.10", "file": ERRORS, "expect": "silent",
     "old": _PRINT_TYPES,
     "new": "      print_types = set(\n          self._pp.print_type(v, literal=literal) for v in binding.variable.data\n      )\n"},
    {"name": "twin-join-printed-types-dedupes-into-frozenset", "rule": "R4.10", "file": PPB, "expect": "silent",
     "old": "    typs = set(typs)  # dedup\n", "new": "    typs = frozenset(typs)  # dedup\n"},
    {"name": "twin-join-printed-types-sorts-the-deduped-types", "rule": "R4.10", "file": PPB, "expect": "silent",
     "old": "    typs = set(typs)  # dedup\n", "new": "    typs = sorted(set(typs))  # dedup\n"},
    {"name": "twin-caller-sorts-before-the-call", "rule": "R4.10", "file": ERRORS, "expect": "silent",
     "old": "            f\"{self._pp.join_printed_types(print_types)}\"",
     "new": "            f\"{self._pp.join_printed_types(sorted(print_types))}\""},
    {"name": "twin-print-types-renamed-and-joined-outside-the-f-string", "rule": "R4.10", "expect": "silent",
     "edits": [(ERRORS, _PRINT_TYPES,
                "      shown = {\n          self._pp.print_type(v, literal=literal) for v in binding.variable.data\n      }\n"),
               (ERRORS, "      if len(print_types) > 1:\n        details += (\n            \"\\nIn assignment of type: \"\n            f\"{self._pp.join_printed_types(print_types)}\"\n        )",
                "      if len(shown) > 1:\n        joined = self._pp.join_printed_types(shown)\n        details += \"\\nIn assignment of type: \" + joined")]},
]
