"""C11 / R11.50 - a union visitor accounts for EVERY member of the union.

A `VisitUnionType(self, u)` of pytd/optimize.py replaces a union by another
type.  Nothing is narrowed only if every member of `u.type_list` is accounted
for in every returned value: the member itself is handed on, or something that
admits it is (the top type, the input union, a common superclass computed from
*its* closure), or it is dropped by the absorption filter whose justification
R11.6 decides.  A member that is in no part of the result is silently lost:
`Union[B, C, Literal[1]] -> A`.

R11.50 computes, for every `return` of such a method, a LOWER BOUND of the set
of pytd type classes (the module-local subclasses of pytd.Type, read from
pytd/pytd.py) whose instances among the members are accounted for:

  u | top type (AnythingType(), NamedType/ClassType('builtins.object'),
      a self attribute bound once, in __init__, to one)     -> all classes
  JoinTypes(X) | UnionType(X) | u.Replace(type_list=X)      -> cover(X)
  u.type_list                                                -> all classes
  tuple/list/set/sorted/..(X)                                -> cover(X)
  X + Y | (*X, *Y) | chain(X, Y)                             -> cover(X) | cover(Y)
  X[a:b] other than X[:]                                     -> nothing (exact)
  [t for t in X if P..]                                      -> cover(X) & true(P)..
      P over isinstance(t, <pytd classes / constant tuples of pytd.py>),
      not / and / or; the `COUNT[key(t)] <= 1` absorption filter of a hierarchy
      consumer counts as "accounted for" (R11.6/R1.6 decide why)
  [f(n) for n in ACC ..] in a hierarchy consumer, where ACC only receives
      hierarchy closures by assignment / intersection      -> the members whose
      closure is intersected in: `X[0]` + loop over `X[1:]`, or loop over X
      (restricted by isinstance guards inside the loop) -> cover(X) & guards;
      and only where the join is known to be non-empty (a truthiness guard on
      the list dominates the return) - an empty join is NothingType
  once-bound locals, one-return helpers of the class, `a if c else b` (both arms).

cover == all classes: holds.  cover smaller and every step above exact: a
member of a missing class is lost -> VIOLATION.  A step that is not understood
makes the bound inexact -> analysis error.

Scope: the visitors `Optimize` constructs with the class hierarchy (always),
and every other VisitUnionType of the module whose result is not built up
member by member in a loop (CombineContainers: R11.3/R11.4).
"""
import ast
import copy

from sa.core import rule, AnalysisError
from sa.pyindex import get_module, dotted, src, walk_no_nested
from sa import flow
from rules import c11 as C

OPT = C.OPT
PYTD = "pytype/pytd/pytd.py"
_WRAP = ("tuple", "list", "set", "frozenset", "sorted", "reversed")
_TOP_NAMES = ("builtins.object", "object")


def _universe(ctx):
  """(concrete subclasses of pytd.Type, class -> set of ancestors incl. itself,
  pytd module)."""
  pm = get_module(ctx, PYTD)
  if "Type" not in pm.classes:
    raise AnalysisError(f"{PYTD}: class Type not found")
  bases = {}
  for name in pm.classes:
    bases[name] = [dotted(b).split(".")[-1] for b in pm.cls(name).bases
                   if dotted(b)]
  anc = {}

  def up(n, seen=()):
    if n in anc:
      return anc[n]
    out = {n}
    for b in bases.get(n, []):
      if b in bases and b not in seen:
        out |= up(b, seen + (n,))
    anc[n] = out
    return out
  for n in bases:
    up(n)
  uni = frozenset(n for n in bases
                  if "Type" in anc[n] and n != "Type" and not n.startswith("_"))
  if len(uni) < 8:
    raise AnalysisError(f"{PYTD}: only {sorted(uni)} derive from Type")
  return uni, anc, pm


class _Lost(Exception):
  pass


class _Acct:
  """Member accounting of one VisitUnionType."""

  def __init__(self, ctx, mod, cls, m, u, attr, uni, anc, pm):
    self.ctx, self.mod, self.cls, self.m, self.u = ctx, mod, cls, m, u
    self.attr = attr          # hierarchy attribute (None: not a consumer)
    self.U, self.anc, self.pm = uni, anc, pm
    self.selfname = m.args.args[0].arg
    self.inexact = []         # steps not understood
    self.lost = []            # exact reasons why members are not covered
    self.notes = []
    self.ret = None

  # -- predicates over one member ---------------------------------------------
  def _class_names(self, node, depth=0):
    if depth > 4:
      return None
    if isinstance(node, ast.Tuple):
      out = set()
      for e in node.elts:
        r = self._class_names(e, depth + 1)
        if r is None:
          return None
        out |= r
      return out
    d = dotted(node)
    if not d:
      return None
    parts = d.split(".")
    if len(parts) > 2 or (len(parts) == 2 and parts[0] != "pytd"):
      return None
    if len(parts) == 1 and parts[0] not in self.pm.classes and \
        parts[0] not in self.pm.assigns:
      return None
    if len(parts) == 1:
      # a bare name must be imported from / defined like pytd's: only accept
      # what optimize.py does not define itself
      if parts[0] in self.mod.classes or parts[0] in self.mod.assigns:
        return None
    n = parts[-1]
    if n in self.pm.classes:
      return {n}
    if n in self.pm.assigns and isinstance(self.pm.assigns[n], ast.Tuple):
      return self._class_names(self.pm.assigns[n], depth + 1)
    return None

  def pred(self, cond, t):
    """(classes for which cond is certainly true, certainly false, exact)."""
    if self.attr is not None and C._count_threshold(cond, t) is not None:
      self.notes.append(f"`{src(cond)}`: drop justified by absorption (R11.6)")
      return self.U, frozenset(), True
    if isinstance(cond, ast.UnaryOp) and isinstance(cond.op, ast.Not):
      T, F, e = self.pred(cond.operand, t)
      return F, T, e
    if isinstance(cond, ast.BoolOp):
      parts = [self.pred(v, t) for v in cond.values]
      e = all(p[2] for p in parts)
      Ts, Fs = [p[0] for p in parts], [p[1] for p in parts]
      if isinstance(cond.op, ast.And):
        return (frozenset.intersection(*Ts), frozenset.union(*Fs), e)
      return (frozenset.union(*Ts), frozenset.intersection(*Fs), e)
    if isinstance(cond, ast.Call) and dotted(cond.func) == "isinstance" and \
        len(cond.args) == 2 and not cond.keywords and \
        isinstance(cond.args[0], ast.Name) and cond.args[0].id == t:
      names = self._class_names(cond.args[1])
      if names is not None:
        T = frozenset(c for c in self.U if self.anc[c] & names)
        return T, self.U - T, True
    return frozenset(), frozenset(), False

  def _filter(self, conds, t, what):
    out = self.U
    for cond in conds:
      T, _, e = self.pred(cond, t)
      if not e:
        self.inexact.append(f"{what} `{src(cond)[:80]}`")
      out &= T
    return out

  # -- helpers -----------------------------------------------------------------
  def _binding(self, name):
    vals = C._local_values(self.m, name)
    if vals is None or len(vals) != 1:
      return None
    return vals[0]

  def _inline(self, call):
    """`self.H(a, ..)` with H a one-return method of the class -> its returned
    expression with the parameters substituted; None otherwise."""
    f = call.func
    if not (isinstance(f, ast.Attribute) and isinstance(f.value, ast.Name)
            and f.value.id == self.selfname and not call.keywords):
      return None
    h = C._methods(self.mod, self.cls).get(f.attr)
    if h is None or h.args.vararg or h.args.kwarg or h.args.kwonlyargs:
      return None
    body = [s for s in h.body
            if not (isinstance(s, ast.Expr) and isinstance(s.value, ast.Constant))]
    if len(body) != 1 or not isinstance(body[0], ast.Return) or \
        body[0].value is None:
      return None
    params = [a.arg for a in h.args.posonlyargs + h.args.args][1:]
    if len(params) != len(call.args) or \
        any(isinstance(a, ast.Starred) for a in call.args):
      return None
    env = dict(zip(params, call.args))
    bound = {n.id for n in ast.walk(body[0].value)
             if isinstance(n, ast.Name) and isinstance(n.ctx, ast.Store)}
    if bound & set(env):
      return None

    class T(ast.NodeTransformer):
      def visit_Name(self, node):
        return copy.deepcopy(env[node.id]) if node.id in env else node
    return T().visit(copy.deepcopy(body[0].value))

  def _is_members(self, x):
    return isinstance(x, ast.Attribute) and x.attr == "type_list" and \
        isinstance(x.value, ast.Name) and x.value.id == self.u

  def _is_top(self, x):
    if C._is_anything(x):
      return True
    if isinstance(x, ast.Call) and C._last(x.func) in ("NamedType", "ClassType") \
        and len(x.args) == 1 and not x.keywords and \
        isinstance(x.args[0], ast.Constant) and x.args[0].value in _TOP_NAMES:
      return True
    return False

  def _self_attr(self, name):
    """Value of self.<name> if it is bound exactly once in the class, in
    __init__."""
    vals, where = [], set()
    for mname, fn in C._methods(self.mod, self.cls).items():
      for n in ast.walk(fn):
        tg = []
        if isinstance(n, ast.Assign):
          tg = n.targets
        elif isinstance(n, (ast.AugAssign, ast.AnnAssign)):
          tg = [n.target]
        for t in tg:
          for a in ast.walk(t):
            if isinstance(a, ast.Attribute) and a.attr == name and \
                isinstance(a.value, ast.Name) and \
                isinstance(a.ctx, ast.Store):
              vals.append(n.value if isinstance(n, ast.Assign)
                          and len(n.targets) == 1 and n.targets[0] is a else None)
              where.add(mname)
    if len(vals) == 1 and vals[0] is not None and where == {"__init__"}:
      return vals[0]
    return None

  # -- collections of members ---------------------------------------------------
  def coll(self, x, holder=None, depth=0):
    if depth > 14:
      self.inexact.append("nesting too deep")
      return frozenset()
    if self._is_members(x):
      return self.U
    if isinstance(x, ast.Name):
      if x.id == self.u:
        return self.U   # the union itself as an element: joins flatten it
      v = self._binding(x.id)
      if v is None:
        self.inexact.append(f"local `{x.id}` is not bound exactly once")
        return frozenset()
      return self.coll(v, x.id, depth + 1)
    if isinstance(x, ast.Call):
      name = C._last(x.func)
      if name in _WRAP and len(x.args) == 1 and dotted(x.func) == name:
        return self.coll(x.args[0], holder, depth + 1)
      if name in ("chain",) and not x.keywords:
        out = frozenset()
        for a in x.args:
          if isinstance(a, ast.Starred):
            self.inexact.append(f"`{src(x)[:60]}`")
            return frozenset()
          out |= self.coll(a, None, depth + 1)
        return out
      inl = self._inline(x)
      if inl is not None:
        return self.coll(inl, holder, depth + 1)
      self.inexact.append(f"collection `{src(x)[:80]}`")
      return frozenset()
    if isinstance(x, ast.BinOp) and isinstance(x.op, ast.Add):
      return self.coll(x.left, None, depth + 1) | \
          self.coll(x.right, None, depth + 1)
    if isinstance(x, (ast.Tuple, ast.List, ast.Set)):
      out = frozenset()
      for e in x.elts:
        if isinstance(e, ast.Starred):
          out |= self.coll(e.value, None, depth + 1)
        elif isinstance(e, ast.Name) and e.id == self.u:
          out = self.U
        # any other single element only adds to the result
      return out
    if isinstance(x, ast.Subscript):
      s = x.slice
      if isinstance(s, ast.Slice) and s.step is None and s.upper is None and (
          s.lower is None or (isinstance(s.lower, ast.Constant)
                              and s.lower.value == 0)):
        return self.coll(x.value, holder, depth + 1)
      inner = self.coll(x.value, None, depth + 1)
      if inner:
        self.lost.append(f"only `{src(x)}` of the members is handed on")
      return frozenset()
    if isinstance(x, ast.IfExp):
      return self.coll(x.body, holder, depth + 1) & \
          self.coll(x.orelse, holder, depth + 1)
    if isinstance(x, (ast.ListComp, ast.GeneratorExp, ast.SetComp)):
      return self.comp(x, holder, depth)
    self.inexact.append(f"collection `{src(x)[:80]}`")
    return frozenset()

  def comp(self, x, holder, depth):
    if len(x.generators) != 1 or x.generators[0].is_async or \
        not isinstance(x.generators[0].target, ast.Name):
      self.inexact.append(f"comprehension `{src(x)[:80]}`")
      return frozenset()
    g = x.generators[0]
    t = g.target.id
    if isinstance(x.elt, ast.Name) and x.elt.id == t:
      base = self.coll(g.iter, None, depth + 1)
      return base & self._filter(g.ifs, t, "member filter")
    if self.attr is not None and isinstance(g.iter, ast.Name) and \
        self._is_accumulator(g.iter.id):
      return self.common(x, g.iter.id, holder, depth)
    self.inexact.append(f"comprehension `{src(x)[:80]}` does not hand on its "
                        "elements unchanged")
    return frozenset()

  # -- join of names common to the members' closures ------------------------------
  def _is_accumulator(self, acc):
    qs = {id(c) for c, _ in C._hierarchy_queries(self.mod, self.m, self.attr)}
    for n in walk_no_nested(self.m):
      if isinstance(n, ast.Assign) and len(n.targets) == 1 and \
          isinstance(n.targets[0], ast.Name) and n.targets[0].id == acc and \
          any(id(c) in qs for c in ast.walk(n.value)):
        return True
    return False

  def _feeds(self, acc):
    """[(statement, hierarchy query call)] for everything that changes acc."""
    qs = {id(c): c for c, _ in C._hierarchy_queries(self.mod, self.m, self.attr)}
    what = f"{self.cls}.{self.m.name}"
    out = []

    def query(v):
      if id(v) in qs:
        return v
      raise AnalysisError(
          f"{what}: candidate set `{acc}` receives `{src(v)[:80]}`, which is "
          "not a closure taken from the hierarchy")

    def is_acc(n):
      return isinstance(n, ast.Name) and n.id == acc
    for n in walk_no_nested(self.m):
      if isinstance(n, ast.Assign) and any(
          is_acc(a) for t in n.targets for a in ast.walk(t)):
        if len(n.targets) != 1 or not is_acc(n.targets[0]):
          raise AnalysisError(f"{what}: `{src(n)[:80]}` binds `{acc}` in an "
                              "unknown way")
        v = n.value
        if isinstance(v, ast.BinOp) and isinstance(v.op, ast.BitAnd) and \
            (is_acc(v.left) or is_acc(v.right)):
          out.append((n, query(v.right if is_acc(v.left) else v.left)))
        elif isinstance(v, ast.Call) and isinstance(v.func, ast.Attribute) and \
            v.func.attr == "intersection" and is_acc(v.func.value) and v.args:
          out.extend((n, query(a)) for a in v.args)
        else:
          out.append((n, query(v)))
      elif isinstance(n, ast.AugAssign) and is_acc(n.target):
        if not isinstance(n.op, ast.BitAnd):
          raise AnalysisError(f"{what}: candidate set `{acc}` is changed by "
                              f"`{src(n)[:80]}`")
        out.append((n, query(n.value)))
      elif isinstance(n, (ast.AnnAssign, ast.NamedExpr)) and is_acc(n.target):
        raise AnalysisError(f"{what}: `{src(n)[:80]}` binds `{acc}` in an "
                            "unknown way")
      elif isinstance(n, (ast.For, ast.comprehension)) and any(
          is_acc(a) for a in ast.walk(n.target)):
        raise AnalysisError(f"{what}: `{acc}` is also a loop variable")
      elif isinstance(n, ast.Call) and isinstance(n.func, ast.Attribute) and \
          is_acc(n.func.value):
        if n.func.attr == "intersection_update":
          st = self.mod.enclosing_stmt(n)
          if not (isinstance(st, ast.Expr) and st.value is n and n.args
                  and not n.keywords):
            raise AnalysisError(f"{what}: `{src(n)[:80]}` not understood")
          out.extend((st, query(a)) for a in n.args)
        elif n.func.attr in ("update", "add", "union", "clear", "pop", "remove",
                             "discard", "difference_update",
                             "symmetric_difference_update"):
          raise AnalysisError(f"{what}: candidate set `{acc}` is changed by "
                              f"`{src(n)[:80]}`")
    return out

  def _unwrap(self, x):
    for _ in range(4):
      if isinstance(x, ast.Call) and dotted(x.func) in _WRAP and \
          len(x.args) == 1 and not x.keywords:
        x = x.args[0]
    return x

  def _dominates(self, st):
    """Every path condition of statement st also holds at the return under
    consideration (st is not skipped on a path that reaches the return)."""
    mine = set(flow.guards_txt(self.mod.parent, st, stop=self.m))
    return mine <= set(flow.guards_txt(self.mod.parent, self.ret, stop=self.m))

  def common(self, comp, acc, holder, depth):
    what = f"{self.cls}.{self.m.name}"
    parent = self.mod.parent
    groups = {}   # src(S) -> [S expr, {part: classes of the members fed}]
    for st, q in self._feeds(acc):
      if len(q.args) != 1 or q.keywords:
        raise AnalysisError(f"{what}: closure `{src(q)[:80]}` of what?")
      a = q.args[0]
      if isinstance(a, ast.Call) and dotted(a.func) == "str" and len(a.args) == 1:
        a = a.args[0]
      for _ in range(3):
        if isinstance(a, ast.Name):
          v = self._binding(a.id)
          if v is None:
            break
          a = v
      restrict = self.U
      if isinstance(a, ast.Name):
        loop = parent.get(st)
        while loop is not None and loop is not self.m and not (
            isinstance(loop, ast.For) and isinstance(loop.target, ast.Name)
            and loop.target.id == a.id):
          loop = parent.get(loop)
        if not isinstance(loop, ast.For) or loop.orelse:
          raise AnalysisError(
              f"{what}: `{src(q)[:80]}`: `{a.id}` is not the variable of an "
              "enclosing loop over union members")
        if not self._dominates(loop):
          self.inexact.append(f"the loop feeding `{acc}` runs conditionally")
        for test, pol in flow.guards(parent, st, stop=loop):
          T, F, e = self.pred(test, a.id)
          if not e:
            self.inexact.append(f"guard `{src(test)[:80]}` of `{src(q)[:60]}`")
          restrict &= T if pol else F
        for n in ast.walk(loop):
          if isinstance(n, ast.Break):
            self.inexact.append(f"the loop feeding `{acc}` can break")
        it = self._unwrap(loop.iter)
        part = "all"
        if isinstance(it, ast.Subscript):
          s = it.slice
          if isinstance(s, ast.Slice) and s.step is None and s.upper is None:
            lo = s.lower.value if isinstance(s.lower, ast.Constant) else (
                0 if s.lower is None else None)
            part = {0: "all", 1: "rest"}.get(lo, f"[{src(s)}]")
            it = it.value
          else:
            part = f"[{src(s)}]"
            it = it.value
        S = it
      elif isinstance(a, ast.Subscript) and isinstance(a.slice, ast.Constant) \
          and isinstance(a.slice.value, int):
        if not self._dominates(st):
          self.inexact.append(f"`{src(st)[:60]}` runs conditionally")
        part = "first" if a.slice.value == 0 else f"[{a.slice.value}]"
        S = a.value
      else:
        raise AnalysisError(
            f"{what}: closure `{src(q)[:80]}` is not taken of a union member "
            "(loop variable or indexed member)")
      S = self._unwrap(S)
      g = groups.setdefault(src(S), [S, {}])
      g[1][part] = g[1].get(part, frozenset()) | restrict
    if not groups:
      raise AnalysisError(f"{what}: nothing feeds the candidate set `{acc}`")
    out = frozenset()
    for key, (S, parts) in sorted(groups.items()):
      # members fed on several arms of a test are covered on each arm
      restrict = parts.get("all", frozenset())
      if {"first", "rest"} <= set(parts):
        restrict |= parts["first"] & parts["rest"]
      if "all" in parts or {"first", "rest"} <= set(parts):
        out |= self.coll(S, None, depth + 1) & restrict
      else:
        self.lost.append(
            f"the common names in `{acc}` are computed from the closures of "
            f"{sorted(parts)} of `{key}` only: a member outside is not below them")
    # an empty join is NothingType: it admits no member at all
    if not self._nonempty(comp, acc, holder):
      self.lost.append(
          "the join of the common names can be empty (no common name): it is "
          "returned without a dominating non-emptiness test")
      return frozenset()
    return out

  def _nonempty(self, comp, acc, holder):
    names = [holder] if holder else []
    if not comp.generators[0].ifs:
      names.append(acc)
    seen_other = False
    for text, pol in flow.guards_txt(self.mod.parent, self.ret, stop=self.m):
      for nm in ([holder] if holder else []) + [acc]:
        truthy = {(nm, True), (f"len({nm})", True), (f"len({nm}) > 0", True),
                  (f"len({nm}) >= 1", True), (f"len({nm}) != 0", True),
                  (f"len({nm}) == 0", False), (f"len({nm}) < 1", False)}
        if (text, pol) in truthy:
          if nm in names:
            return True
          seen_other = True
        elif nm in {n.id for n in ast.walk(ast.parse(text, mode="eval"))
                    if isinstance(n, ast.Name)}:
          seen_other = True
    if seen_other:
      self.inexact.append("a guard mentions the candidate names but is not a "
                          "plain non-emptiness test of the joined list")
    return False

  # -- returned values --------------------------------------------------------------
  def value(self, v, depth=0):
    if depth > 8 or v is None:
      self.inexact.append("return value not understood")
      return frozenset()
    if isinstance(v, ast.Name):
      if v.id == self.u:
        return self.U
      b = self._binding(v.id)
      if b is None:
        self.inexact.append(f"returned local `{v.id}` is not bound exactly once")
        return frozenset()
      return self.value(b, depth + 1)
    if self._is_top(v):
      return self.U
    if isinstance(v, ast.Attribute) and isinstance(v.value, ast.Name) and \
        v.value.id == self.selfname:
      b = self._self_attr(v.attr)
      if b is not None and self._is_top(b):
        return self.U
      self.inexact.append(f"`{src(v)}` is not bound once, in __init__, to a "
                          "top type")
      return frozenset()
    if isinstance(v, ast.IfExp):
      return self.value(v.body, depth + 1) & self.value(v.orelse, depth + 1)
    if isinstance(v, ast.Call):
      name = C._last(v.func)
      if name == "JoinTypes" and len(v.args) == 1 and not v.keywords:
        return self.coll(v.args[0])
      if name == "UnionType" and len(v.args) + len(v.keywords) == 1:
        a = v.args[0] if v.args else (
            v.keywords[0].value if v.keywords[0].arg == "type_list" else None)
        if a is not None:
          return self.coll(a)
      if name == "Replace" and isinstance(v.func, ast.Attribute) and \
          isinstance(v.func.value, ast.Name) and v.func.value.id == self.u and \
          not v.args and [k.arg for k in v.keywords] == ["type_list"]:
        return self.coll(v.keywords[0].value)
      inl = self._inline(v)
      if inl is not None:
        return self.value(inl, depth + 1)
    self.inexact.append(f"return value `{src(v)[:80]}`")
    return frozenset()


def _loop_built(mod, m, u):
  """True if a returned value depends on a local that is (re)bound, or grown
  by a method call, inside a loop body - the result is accumulated member by
  member - or if the union parameter itself is rebound."""
  in_loop = set()
  for loop in walk_no_nested(m):
    if not isinstance(loop, (ast.For, ast.While)):
      continue
    for n in ast.walk(loop):
      if isinstance(n, ast.Assign):
        for t in n.targets:
          in_loop |= {a.id for a in ast.walk(t) if isinstance(a, ast.Name)
                      and isinstance(a.ctx, ast.Store)}
      elif isinstance(n, ast.AugAssign) and isinstance(n.target, ast.Name):
        in_loop.add(n.target.id)
      elif isinstance(n, ast.Call) and isinstance(n.func, ast.Attribute) and \
          isinstance(n.func.value, ast.Name) and \
          n.func.attr in ("append", "extend", "add", "update", "insert"):
        in_loop.add(n.func.value.id)
  for n in walk_no_nested(m):
    if isinstance(n, ast.Assign) and any(
        isinstance(t, ast.Name) and t.id == u for t in n.targets):
      return True
  deps, todo = set(), []
  for r in C._returns(m):
    if r.value is not None:
      todo.append(r.value)
  while todo:
    e = todo.pop()
    for a in ast.walk(e):
      if isinstance(a, ast.Name) and a.id not in deps and a.id != u:
        deps.add(a.id)
        for v in C._local_values(m, a.id) or []:
          todo.append(v)
  return bool(deps & in_loop)


@rule("R11.50", "C11", floor=5)
def r11_50(ctx):
  """Every return of a union visitor accounts for every member of the input
  union (handed on, admitted by a top type / a common superclass of its own
  closure, or dropped by the absorption filter): no member is silently lost."""
  mod = C._opt(ctx)
  fn = mod.func("Optimize")
  uni, anc, pm = _universe(ctx)
  consumers = []
  for cls, _ in C._hierarchy_consumers(mod, fn):
    if cls not in consumers:
      consumers.append(cls)
  if not consumers:
    raise AnalysisError("Optimize: no visitor is constructed with the hierarchy")
  visitors = [c for c in sorted(mod.classes)
              if "VisitUnionType" in mod.methods(c) or c in consumers]
  decided = 0
  for cls in visitors:
    m = C._methods(mod, cls).get("VisitUnionType")
    if m is None or len(m.args.args) != 2 or m.args.vararg or m.args.kwarg:
      raise AnalysisError(f"{cls}: VisitUnionType(self, union) not found")
    u = m.args.args[1].arg
    attr = C._hierarchy_attr(mod, cls) if cls in consumers else None
    if attr is None and _loop_built(mod, m, u):
      ctx.note(f"R11.50: {cls}.VisitUnionType builds its result member by "
               "member in a loop: not in the scope of R11.50")
      continue
    rets = sorted(C._returns(m), key=lambda r: (r.lineno, r.col_offset))
    if not rets:
      raise AnalysisError(f"{cls}.VisitUnionType has no return (removes the type)")
    construct = f"{cls}.VisitUnionType:every-member-accounted-for"
    acct = _Acct(ctx, mod, cls, m, u, attr, uni, anc, pm)
    missing, kinds = set(), []
    for r in rets:
      acct.ret = r
      if r.value is None:
        raise AnalysisError(f"{cls}.VisitUnionType returns None")
      cov = acct.value(r.value)
      kinds.append(src(r.value)[:60])
      missing |= uni - cov
    decided += 1
    facts = {"returns": kinds, "member_classes": len(uni),
             "hierarchy_consumer": attr is not None}
    if acct.notes:
      facts["notes"] = sorted(set(acct.notes))
    if not missing:
      ctx.ok(construct, OPT, m.lineno, facts)
    elif acct.inexact:
      raise AnalysisError(
          f"{construct}: cannot see that members of class {sorted(missing)} are "
          f"accounted for; not understood: {sorted(set(acct.inexact))[:4]}")
    else:
      facts["lost"] = sorted(set(acct.lost))
      facts["missing"] = sorted(missing)
      ctx.bad(construct, OPT, m.lineno,
              f"{cls}.VisitUnionType returns a type in which union members of "
              f"class {sorted(missing)} are in no part of the result"
              + (f" ({'; '.join(sorted(set(acct.lost)))})" if acct.lost else
                 " (the parts handed on are selected by tests that are not "
                 "jointly exhaustive)")
              + ": such a member is silently dropped and the values it admits "
              "are rejected after optimisation (Union[B, C, Literal[1]] -> A)",
              facts)
  if not decided:
    raise AnalysisError("no union visitor decided")


_FC_FIRST = "    intersection = self.hierarchy.ExpandSuperClasses(str(union.type_list[0]))\n"
_FC_LOOP = ("    for t in union.type_list[1:]:\n"
            "      intersection.intersection_update(\n"
            "          self.hierarchy.ExpandSuperClasses(str(t))\n"
            "      )\n")
_FC_GUARD = "    if not new_type_list:\n      return union  # if types don't intersect, leave them alone\n"
_SUS_KEEP = "    new_type_list = [t for t in union.type_list if c[str(t)] <= 1]\n"
_CLU_JOIN = "      return pytd_utils.JoinTypes(union.type_list)\n    else:\n      return union\n"
_SU = "  def VisitUnionType(self, union):\n    return pytd_utils.JoinTypes(union.type_list)\n"

VARIANTS = [
    {"name": "seeded-C11-r5m2", "rule": "R11.50",
     "patch": "seeded/C11-r5m2/patch.diff", "expect": "fire"},
    # -- must fire: other ways of losing a member
    {"name": "common-superclass-skips-second-member", "rule": "R11.50", "file": OPT,
     "expect": "fire", "old": _FC_LOOP,
     "new": _FC_LOOP.replace("union.type_list[1:]", "union.type_list[2:]")},
    {"name": "common-superclass-of-the-classes-only-in-loop-guard", "rule": "R11.50",
     "file": OPT, "expect": "fire", "old": _FC_LOOP,
     "new": ("    for t in union.type_list[1:]:\n"
             "      if not isinstance(t, pytd.GENERIC_BASE_TYPE):\n"
             "        continue  # containers have no entry in the hierarchy\n"
             "      intersection.intersection_update(\n"
             "          self.hierarchy.ExpandSuperClasses(str(t))\n"
             "      )\n")},
    {"name": "common-superclass-empty-join-returned", "rule": "R11.50", "file": OPT,
     "expect": "fire", "old": _FC_GUARD, "new": ""},
    {"name": "absorb-keeps-only-plain-classes", "rule": "R11.50", "file": OPT,
     "expect": "fire", "old": _SUS_KEEP,
     "new": "    new_type_list = [t for t in union.type_list if isinstance(t, pytd.GENERIC_BASE_TYPE) and c[str(t)] <= 1]\n"},
    {"name": "absorb-partition-forgets-the-rest", "rule": "R11.50", "file": OPT,
     "expect": "fire", "old": _SUS_KEEP,
     "new": ("    named = [t for t in union.type_list if isinstance(t, pytd.GENERIC_BASE_TYPE) and c[str(t)] <= 1]\n"
             "    generic = [t for t in union.type_list if isinstance(t, (pytd.GenericType, pytd.Literal))]\n"
             "    new_type_list = named + generic\n")},
    {"name": "collapse-long-unions-rejoin-drops-literals", "rule": "R11.50", "file": OPT,
     "expect": "fire", "old": _CLU_JOIN,
     "new": ("      return pytd_utils.JoinTypes(\n"
             "          [t for t in union.type_list if not isinstance(t, pytd.Literal)]\n"
             "      )\n    else:\n      return union\n")},
    {"name": "simplify-unions-drops-first-member", "rule": "R11.50", "file": OPT,
     "expect": "fire", "old": _SU,
     "new": "  def VisitUnionType(self, union):\n    return pytd_utils.JoinTypes(union.type_list[1:])\n"},
    # -- behaviour-preserving twins
    {"name": "twin-common-superclass-one-loop-over-all-members", "rule": "R11.50",
     "file": OPT, "expect": "silent", "old": _FC_LOOP,
     "new": ("    for member in union.type_list:\n"
             "      intersection &= self.hierarchy.ExpandSuperClasses(str(member))\n")},
    {"name": "twin-common-superclass-renamed-locals-and-len-guard", "rule": "R11.50",
     "expect": "silent",
     "edits": [(OPT, _FC_LOOP,
                "    for other in union.type_list[1:]:\n"
                "      intersection &= self.hierarchy.ExpandSuperClasses(str(other))\n"),
               (OPT, _FC_GUARD,
                "    if len(new_type_list) == 0:\n      return union\n")]},
    {"name": "twin-common-superclass-closures-on-both-arms-of-a-class-test",
     "rule": "R11.50", "file": OPT, "expect": "silent", "old": _FC_LOOP,
     "new": ("    for t in union.type_list[1:]:\n"
             "      if isinstance(t, pytd.GENERIC_BASE_TYPE):\n"
             "        intersection.intersection_update(\n"
             "            self.hierarchy.ExpandSuperClasses(str(t))\n"
             "        )\n"
             "      else:\n"
             "        # not a key of the hierarchy: its closure is itself\n"
             "        intersection &= self.hierarchy.ExpandSuperClasses(str(t))\n")},
    {"name": "twin-collapse-long-unions-guard-clauses", "rule": "R11.50", "file": OPT,
     "expect": "silent", "old": "    elif self.generic_type in union.type_list:\n" + _CLU_JOIN,
     "new": ("    if self.generic_type not in union.type_list:\n      return union\n"
             "    return pytd_utils.JoinTypes(union.type_list)\n")},
]
