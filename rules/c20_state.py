"""C20 extension (R20.24): nothing a merge computes from its arguments survives
the call - except in a cache whose key covers every input of the value.

`merge_sources(py=, pyi=)` must be a function of its two texts: the merged
tree is "the original plus annotations" only if every filter ran on *this*
stub against *this* source.  State that outlives a call breaks that with a
history: a memo of the filtered stub keyed by the stub text alone hands the
stub filtered for an earlier source (whose class statements decided what
RemoveUndefinedClassesTransformer kept) to a later one, a collector instance
created at import time accumulates the class names of every source seen, a
shared libcst CodemodContext carries the imports scheduled for one file into
the next.  Single-shot runs and golden-file tests cannot see any of it.

Scope: every module of pytype/tools/merge_pyi/ (tests excluded).  State
holders found:

  * module-level names and class-body attributes bound to a mutable container
    (display, comprehension, dict()/list()/set()/defaultdict()/deque()/..),
  * names a function re-binds under `global`, attributes a function stores on
    a module-level class or function (`K.attr = v`),
  * mutable default values of parameters,
  * module-level instances (also inside tuples/lists) of a class of the module
    whose methods write `self.<attr>` outside __init__, or of a libcst
    dataclass with list/dict/set fields (read from the installed libcst).

Obligation per holder that some function writes: every store is keyed
(`C[k] = v`, `C.setdefault(k, v)`, `C[k].append(v)`, `S.add(k)`) and the key
depends on every parameter (and every other written state holder) the stored
value depends on - data dependence through the locals of the function, calls
that may mutate their arguments, and the tests of enclosing if/while/for.
An unkeyed store (append, `global` slot, `K.attr = v`, `+=`) of a value that
depends on a parameter is a violation as soon as anything reads the holder; so
is any read that delivers stored content regardless of a key (iteration,
values()/items(), handing the container on) once parameter-dependent values
are stored.  Size tests, clear()/pop()/del and stores of values that depend on
no parameter (counters) are harmless.  A stateful shared instance is a
violation when a function uses it.
"""
import ast
import glob
import os

from sa.core import rule, AnalysisError
from sa.pyindex import get_module, dotted, src, all_py_files

SCOPE = "pytype/tools/merge_pyi"
MP = f"{SCOPE}/merge_pyi.py"

_CONTAINER_CALLS = {"dict", "list", "set", "bytearray", "defaultdict", "OrderedDict",
                    "Counter", "deque", "ChainMap", "WeakValueDictionary",
                    "WeakKeyDictionary", "WeakSet"}
_IMMUTABLE_CALLS = {"frozenset", "tuple", "str", "int", "float", "bool", "bytes", "compile",
                    "getLogger", "namedtuple", "TypeVar", "NewType", "object", "range",
                    "partial", "Struct", "itemgetter", "attrgetter", "MappingProxyType"}
_UNKEYED_WRITES = {"append", "extend", "insert", "appendleft", "extendleft"}
_REMOVALS = {"clear", "discard", "remove", "sort", "reverse", "rotate", "move_to_end"}
_CONTENT_READS = {"values", "items", "keys", "copy", "popitem", "most_common", "elements"}
_PURE_CONTENT = {"sorted", "list", "tuple", "set", "frozenset", "dict", "iter", "enumerate",
                 "any", "all", "sum", "min", "max", "print", "str", "repr", "zip", "map",
                 "filter", "reversed", "next"}
_SIZE = {"len", "bool"}
_SELF_MUTATORS = {"add", "update", "append", "extend", "remove", "discard", "pop", "clear",
                  "insert", "sort", "reverse", "setdefault", "popitem", "appendleft",
                  "difference_update", "intersection_update",
                  "symmetric_difference_update"}


def _is_container(v):
  if isinstance(v, (ast.Dict, ast.List, ast.Set, ast.ListComp, ast.SetComp, ast.DictComp)):
    return True
  return isinstance(v, ast.Call) and (dotted(v.func) or "").split(".")[-1] in _CONTAINER_CALLS


def _is_empty_container(v):
  if isinstance(v, (ast.Dict, ast.List, ast.Set)):
    return not (v.keys if isinstance(v, ast.Dict) else v.elts)
  return isinstance(v, ast.Call) and not v.args and not v.keywords and \
      (dotted(v.func) or "").split(".")[-1] in _CONTAINER_CALLS


def _functions(mod):
  return [n for n in ast.walk(mod.tree)
          if isinstance(n, (ast.FunctionDef, ast.AsyncFunctionDef))]


def _params(fn):
  a = fn.args
  out = [p.arg for p in a.posonlyargs + a.args + a.kwonlyargs]
  if a.vararg:
    out.append(a.vararg.arg)
  if a.kwarg:
    out.append(a.kwarg.arg)
  return out


def _own_nodes(fn):
  """Nodes of `fn` without the bodies of nested defs / classes (lambdas and
  comprehensions belong to the function)."""
  todo = list(fn.body)
  while todo:
    n = todo.pop()
    yield n
    if isinstance(n, (ast.FunctionDef, ast.AsyncFunctionDef, ast.ClassDef)):
      continue
    todo.extend(ast.iter_child_nodes(n))


def _locals(fn):
  out, glob_ = set(_params(fn)), set()
  for n in _own_nodes(fn):
    if isinstance(n, (ast.Global, ast.Nonlocal)):
      glob_ |= set(n.names)
    elif isinstance(n, ast.Name) and not isinstance(n.ctx, ast.Load):
      out.add(n.id)
    elif isinstance(n, (ast.FunctionDef, ast.AsyncFunctionDef, ast.ClassDef)):
      out.add(n.name)
    elif isinstance(n, ast.ExceptHandler) and n.name:
      out.add(n.name)
    elif isinstance(n, ast.alias):
      out.add((n.asname or n.name).split(".")[0])
  return out - glob_, glob_


def _enclosing_functions(mod, node):
  out = []
  cur = mod.parent.get(node)
  while cur is not None:
    if isinstance(cur, (ast.FunctionDef, ast.AsyncFunctionDef)):
      out.append(cur)
    cur = mod.parent.get(cur)
  return out


def _qual(mod, fn):
  parts = [fn.name]
  cur = mod.parent.get(fn)
  while cur is not None:
    if isinstance(cur, (ast.FunctionDef, ast.AsyncFunctionDef, ast.ClassDef)):
      parts.append(cur.name)
    cur = mod.parent.get(cur)
  return ".".join(reversed(parts))


# -- data dependence inside one function ------------------------------------------------

class _Deps:
  """Which inputs (parameters, free names) of `fn` an expression depends on:
  flow-insensitive closure over the assignments of the function, calls made
  as statements (receiver and arguments may be mutated, so they depend on one
  another) and the tests of enclosing compound statements."""

  def __init__(self, fn):
    self.fn = fn
    self.params = set(_params(fn))
    self.locals, _ = _locals(fn)
    self.edges = {}
    self._block(fn.body, frozenset())

  @staticmethod
  def names(e):
    return {n.id for n in ast.walk(e) if isinstance(n, ast.Name)} if e is not None else set()

  def _edge(self, name, deps):
    self.edges.setdefault(name, set()).update(deps)

  def _targets(self, t):
    if isinstance(t, ast.Name):
      return {t.id}
    if isinstance(t, (ast.Tuple, ast.List)):
      out = set()
      for e in t.elts:
        out |= self._targets(e)
      return out
    if isinstance(t, ast.Starred):
      return self._targets(t.value)
    if isinstance(t, (ast.Attribute, ast.Subscript)):
      root = t
      while isinstance(root, (ast.Attribute, ast.Subscript)):
        root = root.value
      return {root.id} if isinstance(root, ast.Name) else set()
    return set()

  def _exprs(self, e, ctrl):
    """Bindings hidden in an expression: walrus, comprehension targets,
    calls that may mutate what they are given."""
    if e is None:
      return
    for n in ast.walk(e):
      if isinstance(n, ast.NamedExpr):
        for t in self._targets(n.target):
          self._edge(t, self.names(n.value) | ctrl)
      elif isinstance(n, ast.comprehension):
        for t in self._targets(n.target):
          self._edge(t, self.names(n.iter) | ctrl)
      elif isinstance(n, ast.Call):
        involved = set()
        if isinstance(n.func, ast.Attribute):
          involved |= self._targets(n.func.value) if isinstance(
              n.func.value, (ast.Name, ast.Attribute, ast.Subscript)) else set()
        for a in list(n.args) + [k.value for k in n.keywords]:
          if isinstance(a, (ast.Name, ast.Attribute, ast.Subscript, ast.Starred)):
            involved |= self._targets(a)
        involved &= self.locals
        if involved:
          allnames = self.names(n)
          for x in involved:
            self._edge(x, (allnames - {x}) | ctrl)

  def _block(self, stmts, ctrl):
    for s in stmts:
      if isinstance(s, (ast.FunctionDef, ast.AsyncFunctionDef, ast.ClassDef)):
        free = {n.id for n in ast.walk(s) if isinstance(n, ast.Name)}
        self._edge(s.name, free | ctrl)
        continue
      if isinstance(s, (ast.Assign, ast.AnnAssign, ast.AugAssign)):
        value = s.value
        self._exprs(value, ctrl)
        tg = s.targets if isinstance(s, ast.Assign) else [s.target]
        for t in tg:
          extra = set()
          if isinstance(t, (ast.Attribute, ast.Subscript)):
            extra = self.names(t) - self._targets(t)
          for x in self._targets(t):
            self._edge(x, self.names(value) | ctrl | extra)
      elif isinstance(s, (ast.For, ast.AsyncFor)):
        self._exprs(s.iter, ctrl)
        inner = ctrl | self.names(s.iter)
        for x in self._targets(s.target):
          self._edge(x, inner)
        self._block(s.body, inner)
        self._block(s.orelse, inner)
      elif isinstance(s, (ast.While, ast.If)):
        self._exprs(s.test, ctrl)
        inner = ctrl | self.names(s.test)
        self._block(s.body, inner)
        self._block(s.orelse, inner)
      elif isinstance(s, (ast.With, ast.AsyncWith)):
        for item in s.items:
          self._exprs(item.context_expr, ctrl)
          if item.optional_vars is not None:
            for x in self._targets(item.optional_vars):
              self._edge(x, self.names(item.context_expr) | ctrl)
        self._block(s.body, ctrl)
      elif isinstance(s, ast.Try):
        self._block(s.body, ctrl)
        for h in s.handlers:
          self._block(h.body, ctrl)
        self._block(s.orelse, ctrl)
        self._block(s.finalbody, ctrl)
      elif isinstance(s, ast.Match):
        inner = ctrl | self.names(s.subject)
        for c in s.cases:
          for n in ast.walk(c.pattern):
            for fld in ("name", "rest"):
              if isinstance(getattr(n, fld, None), str):
                self._edge(getattr(n, fld), inner)
          self._block(c.body, inner)
      else:
        for child in ast.iter_child_nodes(s):
          if isinstance(child, ast.expr):
            self._exprs(child, ctrl)

  def of(self, exprs, inputs_extra=frozenset(), ignore=frozenset()):
    """Inputs the expressions depend on: parameters of the function, names
    free in it that belong to an enclosing function, and `inputs_extra`."""
    seen, todo = set(), []
    for e in exprs:
      todo += list(self.names(e) if isinstance(e, ast.AST) else e)
    while todo:
      n = todo.pop()
      if n in seen or n in ignore:
        continue
      seen.add(n)
      todo += list(self.edges.get(n, ()))
    return {n for n in seen if n in self.params or n in inputs_extra}


# -- state holders --------------------------------------------------------------------

class _Holder:
  def __init__(self, kind, name, node, owner=None, what=""):
    self.kind = kind        # container | slot | default | object
    self.name = name        # Name id, or attribute name for class-level holders
    self.node = node
    self.owner = owner      # class name (class-level), function (default), None
    self.what = what
    self.uses = []          # (function, category, key exprs, value exprs, node)

  @property
  def label(self):
    if self.kind == "default":
      return f"{self.owner.name}({self.name}=..)"
    return f"{self.owner}.{self.name}" if isinstance(self.owner, str) else self.name


def _top_level_bindings(mod):
  """(name, value, stmt) for every assignment executed at import time."""
  out = []
  def walk(stmts):
    for s in stmts:
      if isinstance(s, ast.Assign):
        for t in s.targets:
          if isinstance(t, ast.Name):
            out.append((t.id, s.value, s))
          elif isinstance(t, (ast.Tuple, ast.List)) and isinstance(s.value, (ast.Tuple, ast.List)) \
              and len(t.elts) == len(s.value.elts):
            for e, v in zip(t.elts, s.value.elts):
              if isinstance(e, ast.Name):
                out.append((e.id, v, s))
          else:
            for n in ast.walk(t):
              if isinstance(n, ast.Name) and isinstance(n.ctx, ast.Store):
                out.append((n.id, s.value, s))
      elif isinstance(s, ast.AnnAssign) and s.value is not None and isinstance(s.target, ast.Name):
        out.append((s.target.id, s.value, s))
      elif isinstance(s, (ast.If, ast.Try, ast.With, ast.For, ast.While)):
        for fld in ("body", "orelse", "finalbody"):
          walk(getattr(s, fld, []) or [])
        for h in getattr(s, "handlers", []):
          walk(h.body)
  walk(mod.tree.body)
  return out


def _local_mro(mod, cname):
  out, todo = [], [cname]
  while todo:
    c = todo.pop(0)
    if c in out or c not in mod.classes:
      continue
    out.append(c)
    todo += [dotted(b) for b in mod.classes[c].bases if dotted(b) in mod.classes]
  return out


def _self_writes(mod, cname):
  """[(method, attribute)] written through `self` outside the constructor in
  `cname` or a module-local base."""
  out = []
  for k in _local_mro(mod, cname):
    for mname, fn in mod.methods(k).items():
      if mname in ("__init__", "__new__", "__post_init__") or not fn.args.args:
        continue
      me = fn.args.args[0].arg
      for n in ast.walk(fn):
        if isinstance(n, ast.Attribute) and isinstance(n.value, ast.Name) and n.value.id == me:
          par = mod.parent.get(n)
          if not isinstance(n.ctx, ast.Load):
            out.append((f"{k}.{mname}", n.attr))
          elif isinstance(par, ast.Attribute) and par.attr in _SELF_MUTATORS and \
              isinstance(mod.parent.get(par), ast.Call) and mod.parent.get(par).func is par:
            out.append((f"{k}.{mname}", n.attr))
          elif isinstance(par, ast.Subscript) and par.value is n and \
              not isinstance(par.ctx, ast.Load):
            out.append((f"{k}.{mname}", n.attr))
  return sorted(set(out))


def _foreign_bases(mod, cname):
  out = []
  for k in _local_mro(mod, cname):
    for b in mod.classes[k].bases:
      d = dotted(b)
      if d not in mod.classes and d != "object":
        out.append(d or src(b))
  return out


_libcst_classes_memo = {}


def _libcst_class(name):
  """ClassDef of the libcst class `name` (searched in the installed package,
  parsed, never imported), or None."""
  import importlib.util
  spec = importlib.util.find_spec("libcst")
  if spec is None or not spec.submodule_search_locations:
    return None
  root = list(spec.submodule_search_locations)[0]
  if root not in _libcst_classes_memo:
    table = {}
    for path in glob.glob(os.path.join(root, "**", "*.py"), recursive=True):
      if os.sep + "tests" + os.sep in path:
        continue
      try:
        with open(path, encoding="utf-8") as f:
          text = f.read()
      except OSError:
        continue
      if "class " not in text:
        continue
      try:
        tree = ast.parse(text)
      except SyntaxError:
        continue
      for st in tree.body:
        if isinstance(st, ast.ClassDef):
          table.setdefault(st.name, []).append(st)
    _libcst_classes_memo[root] = table
  hits = _libcst_classes_memo[root].get(name, [])
  return hits[0] if len(hits) == 1 else None


def _foreign_object_state(mod, call):
  """For `X = pkg.Class(..)` with a libcst dataclass: the fields that hold a
  mutable container; None when the class is not understood."""
  d = dotted(call.func) or ""
  head = d.split(".")[0]
  if mod.imports.get(head, head).split(".")[0] != "libcst":
    return None
  cdef = _libcst_class(d.split(".")[-1])
  if cdef is None or not any("dataclass" in src(x) for x in cdef.decorator_list):
    return None
  out = []
  for st in cdef.body:
    if isinstance(st, ast.AnnAssign) and isinstance(st.target, ast.Name):
      ann = src(st.annotation)
      fac = ""
      if isinstance(st.value, ast.Call):
        for k in st.value.keywords:
          if k.arg == "default_factory":
            fac = src(k.value)
      if fac in ("list", "dict", "set") or ann.split("[")[0].split(".")[-1] in (
          "List", "Dict", "Set", "list", "dict", "set", "MutableMapping", "MutableSequence",
          "MutableSet", "DefaultDict", "Deque"):
        out.append(st.target.id)
  return out


def _classify_value(mod, v, depth=0):
  """immutable | container | ("object", class names, state) | unknown."""
  if isinstance(v, (ast.Constant, ast.JoinedStr, ast.Lambda, ast.Attribute, ast.Name,
                    ast.Compare, ast.BoolOp)):
    return "immutable"
  if isinstance(v, (ast.BinOp,)):
    kinds = {_classify_value(mod, v.left, depth + 1), _classify_value(mod, v.right, depth + 1)}
    return "immutable" if kinds == {"immutable"} else "unknown"
  if isinstance(v, ast.UnaryOp):
    return _classify_value(mod, v.operand, depth + 1)
  if isinstance(v, ast.IfExp):
    kinds = {_classify_value(mod, v.body, depth + 1), _classify_value(mod, v.orelse, depth + 1)}
    return "immutable" if kinds == {"immutable"} else "unknown"
  if isinstance(v, ast.Subscript):
    return "immutable"        # a type alias / an element of a constant
  if _is_container(v):
    return "container"
  if isinstance(v, ast.Tuple):
    kinds = [_classify_value(mod, e, depth + 1) for e in v.elts]
    objs = [k for k in kinds if isinstance(k, tuple)]
    if any(k in ("container", "unknown") for k in kinds):
      return "unknown" if "unknown" in kinds else "container"
    if objs:
      return ("object", sum((o[1] for o in objs), []), sum((o[2] for o in objs), []))
    return "immutable"
  if isinstance(v, ast.Call):
    d = dotted(v.func) or ""
    last = d.split(".")[-1]
    if d in mod.classes:
      writes = _self_writes(mod, d)
      foreign = [b for b in _foreign_bases(mod, d)
                 if b.split(".")[-1] not in ("CSTVisitor", "CSTTransformer", "Exception",
                                              "Enum", "NamedTuple")]
      if foreign and not writes:
        return "unknown"
      return ("object", [d], [f"{m} writes self.{a}" for m, a in writes])
    if last in _IMMUTABLE_CALLS:
      return "immutable"
    state = _foreign_object_state(mod, v)
    if state is not None:
      return ("object", [d], [f"{d}.{f} is a mutable container" for f in state])
    return "unknown"
  return "unknown"


def _holders(mod):
  holders, unknown = [], []
  seen = {}
  for name, value, stmt in _top_level_bindings(mod):
    kind = _classify_value(mod, value)
    if kind == "container":
      h = _Holder("container", name, stmt, what=src(value)[:50])
    elif isinstance(kind, tuple):
      h = _Holder("object", name, stmt, what=src(value)[:70])
      h.classes, h.state = kind[1], kind[2]
    elif kind == "unknown":
      unknown.append((name, value, stmt))
      continue
    else:
      continue
    if name in seen:
      raise AnalysisError(f"{mod.rel}: `{name}` is bound twice at import time to mutable values")
    seen[name] = h
    holders.append(h)
  for cdef in [n for n in ast.walk(mod.tree) if isinstance(n, ast.ClassDef)]:
    for st in cdef.body:
      tg = st.targets if isinstance(st, ast.Assign) else \
          [st.target] if isinstance(st, ast.AnnAssign) and st.value is not None else []
      for t in tg:
        if isinstance(t, ast.Name):
          kind = _classify_value(mod, st.value)
          if kind == "container" or isinstance(kind, tuple):
            h = _Holder("container" if kind == "container" else "object", t.id, st,
                        owner=cdef.name, what=src(st.value)[:50])
            if isinstance(kind, tuple):
              h.classes, h.state = kind[1], kind[2]
            holders.append(h)
  for fn in _functions(mod):
    a = fn.args
    pos = a.posonlyargs + a.args
    pairs = list(zip(pos[len(pos) - len(a.defaults):], a.defaults)) + [
        (p, d) for p, d in zip(a.kwonlyargs, a.kw_defaults) if d is not None]
    for p, d in pairs:
      kind = _classify_value(mod, d)
      if kind == "container" or isinstance(kind, tuple):
        h = _Holder("default" if kind == "container" else "object", p.arg, d, owner=fn,
                    what=src(d)[:50])
        if isinstance(kind, tuple):
          h.classes, h.state = kind[1], kind[2]
          h.kind = "default-object"
        holders.append(h)
  return holders, unknown


# -- uses ---------------------------------------------------------------------------------

def _resolves_to_module(mod, name_node, cache):
  """Is this Name a reference to the module-level binding (not a local, a
  parameter or a variable of an enclosing function)?"""
  for fn in _enclosing_functions(mod, name_node):
    if fn not in cache:
      cache[fn] = _locals(fn)
    loc, glob_ = cache[fn]
    if name_node.id in glob_:
      return True
    if name_node.id in loc:
      return False
  return True


def _classify_use(mod, ref):
  """Climbs from a reference to a holder (`ref`: the Name or Attribute node
  denoting it) through subscripts and method calls.  Returns
  (category, keys, values, top node); categories: store, unkeyed-store, slot,
  remove, read, content, size, escape."""
  keys, cur = [], ref
  while True:
    par = mod.parent.get(cur)
    if isinstance(par, ast.Subscript) and par.value is cur:
      keys.append(par.slice)
      cur = par
      continue
    if isinstance(par, ast.Attribute) and par.value is cur:
      call = mod.parent.get(par)
      if not (isinstance(call, ast.Call) and call.func is par):
        if isinstance(cur, ast.Subscript) or keys:
          return ("read", keys, [], par)
        return ("escape", keys, [], par)
      m, args = par.attr, call.args
      if m in ("get", "pop") and args:
        keys = keys + [args[0]]
        if m == "get":
          cur = call
          # `C.get(k)` is a read even when the result is used further
          nxt = mod.parent.get(call)
          if isinstance(nxt, (ast.Subscript, ast.Attribute)) and nxt.value is call:
            continue
        return ("read", keys, [], call)
      if m == "setdefault" and args:
        keys = keys + [args[0]]
        if len(args) > 1 and not _is_empty_container(args[1]):
          return ("store", keys, [args[1]], call)
        cur = call
        nxt = mod.parent.get(call)
        if isinstance(nxt, (ast.Subscript, ast.Attribute)) and nxt.value is call:
          continue
        return ("store", keys, list(args[1:]), call)
      if m == "add" and len(args) == 1:
        return ("store", keys + [args[0]], [args[0]], call)
      if m == "update":
        vals = list(args) + [k.value for k in call.keywords]
        if len(args) == 1 and isinstance(args[0], ast.Dict) and None not in args[0].keys:
          return ("store", keys + list(args[0].keys), list(args[0].values), call)
        return ("store", keys + vals, vals, call)
      if m == "__setitem__" and len(args) == 2:
        return ("store", keys + [args[0]], [args[1]], call)
      if m in _UNKEYED_WRITES:
        vals = list(args[-1:])
        return ("store" if keys else "unkeyed-store", keys, vals, call)
      if m in _REMOVALS or (m == "pop" and not args):
        return ("remove" if m != "pop" else "content", keys, [], call)
      if m in _CONTENT_READS:
        return ("read" if keys else "content", keys, [], call)
      if m in ("index", "count", "__contains__") and args:
        return ("read", keys + [args[0]], [], call)
      return ("escape", keys, [], call)
    break
  par = mod.parent.get(cur)
  ctx_ = getattr(cur, "ctx", None)
  if isinstance(ctx_, ast.Del):
    return ("remove", keys, [], par)
  if isinstance(ctx_, ast.Store):
    if isinstance(par, ast.AugAssign) and par.target is cur:
      return ("store" if keys else "unkeyed-store", keys, [par.value], par)
    if isinstance(par, (ast.Assign, ast.AnnAssign)):
      value = par.value
      if not keys:
        return ("slot", keys, [value] if value is not None else [], par)
      return ("store", keys, [value] if value is not None else [], par)
    # a loop / with / unpacking target
    stmt = mod.enclosing_stmt(cur)
    vals = [getattr(stmt, "iter", None) or getattr(stmt, "value", None)]
    return ("store" if keys else "slot", keys, [v for v in vals if v is not None], stmt)
  # Load
  if keys:
    return ("read", keys, [], cur)
  if isinstance(par, ast.Compare):
    for i, (op, c) in enumerate(zip(par.ops, par.comparators)):
      if c is cur and isinstance(op, (ast.In, ast.NotIn)):
        left = par.left if i == 0 else par.comparators[i - 1]
        return ("read", [left], [], par)
    if all(isinstance(op, (ast.Is, ast.IsNot, ast.Eq, ast.NotEq)) for op in par.ops):
      return ("size", [], [], par)
  if isinstance(par, (ast.If, ast.While, ast.IfExp)) and par.test is cur:
    return ("size", [], [], par)
  if isinstance(par, ast.UnaryOp) and isinstance(par.op, ast.Not):
    return ("size", [], [], par)
  if isinstance(par, ast.BoolOp):
    return ("size", [], [], par)
  if isinstance(par, (ast.For, ast.AsyncFor, ast.comprehension)) and par.iter is cur:
    return ("content", [], [], par)
  if isinstance(par, ast.Starred) or (isinstance(par, ast.keyword) and par.arg is None):
    return ("content", [], [], par)
  if isinstance(par, ast.Call) and cur in par.args and isinstance(par.func, ast.Name):
    if par.func.id in _SIZE:
      return ("size", [], [], par)
    if par.func.id in _PURE_CONTENT:
      return ("content", [], [], par)
  if isinstance(par, ast.Call) and cur in par.args and isinstance(par.func, ast.Attribute) \
      and par.func.attr == "join":
    return ("content", [], [], par)
  return ("escape", [], [], par if par is not None else cur)


def _collect_uses(mod, holders):
  cache = {}
  by_name = {}
  for h in holders:
    if h.owner is None:
      by_name[h.name] = h
  class_attrs = {}
  for h in holders:
    if isinstance(h.owner, str):
      class_attrs.setdefault(h.name, []).append(h)
  # class-level holders shadowed by an instance attribute are per-instance state
  shadowed = set()
  for n in ast.walk(mod.tree):
    if isinstance(n, ast.Attribute) and n.attr in class_attrs and isinstance(n.ctx, ast.Store) \
        and isinstance(n.value, ast.Name):
      fns = _enclosing_functions(mod, n)
      if fns and fns[-1].args.args and fns[-1].args.args[0].arg == n.value.id \
          and isinstance(mod.parent.get(fns[-1]), ast.ClassDef):
        par = mod.parent.get(n)
        if isinstance(par, (ast.Assign, ast.AnnAssign)):
          shadowed.add(n.attr)
  for fn in _functions(mod):
    defaults = {h.name: h for h in holders
                if h.kind in ("default", "default-object") and h.owner is fn}
    for n in _own_nodes(fn):
      h = None
      if isinstance(n, ast.Name):
        if n.id in defaults:
          h = defaults[n.id]
        elif n.id in by_name and _resolves_to_module(mod, n, cache):
          h = by_name[n.id]
      elif isinstance(n, ast.Attribute) and n.attr in class_attrs and n.attr not in shadowed:
        # self.N / cls.N / K.N / anything.N: the class-level container
        h = class_attrs[n.attr][0]
        if len(class_attrs[n.attr]) > 1:
          raise AnalysisError(
              f"{mod.rel}: class-level container `{n.attr}` is declared in several classes")
      if h is None:
        continue
      cat, keys, vals, top = _classify_use(mod, n)
      h.uses.append((fn, cat, keys, vals, top))


def _slots(mod, holders):
  """`global N` re-bound in a function, `K.attr = v` on a module-level class or
  function: single-slot state."""
  known = {h.name for h in holders if h.owner is None}
  slots = {}
  cache = {}
  toplevel = {n for n, _, _ in _top_level_bindings(mod)} | set(mod.classes) | set(mod.functions)
  for fn in _functions(mod):
    loc, glob_ = _locals(fn)
    for n in _own_nodes(fn):
      if isinstance(n, ast.Name) and n.id in glob_ and not isinstance(n.ctx, ast.Load) \
          and n.id not in known:
        slots.setdefault(n.id, _Holder("slot", n.id, n, what="global"))
      elif isinstance(n, ast.Attribute) and not isinstance(n.ctx, ast.Load) and \
          isinstance(n.value, ast.Name) and n.value.id not in loc and \
          (n.value.id in mod.classes or n.value.id in mod.functions) and \
          _resolves_to_module(mod, n.value, cache):
        key = f"{n.value.id}.{n.attr}"
        slots.setdefault(key, _Holder("slot", key, n, what="attribute of a module-level object"))
  # uses of the slots
  for fn in _functions(mod):
    loc, glob_ = _locals(fn)
    for n in _own_nodes(fn):
      h = None
      if isinstance(n, ast.Name) and n.id in slots and (n.id in glob_ or (
          n.id not in loc and _resolves_to_module(mod, n, cache))):
        h = slots[n.id]
      elif isinstance(n, ast.Attribute) and isinstance(n.value, ast.Name) and \
          f"{n.value.id}.{n.attr}" in slots and n.value.id not in loc:
        h = slots[f"{n.value.id}.{n.attr}"]
      if h is not None:
        cat, keys, vals, top = _classify_use(mod, n)
        h.uses.append((fn, cat, keys, vals, top))
  del toplevel
  return list(slots.values())


def _cached_functions(mod):
  out = []
  for fn in _functions(mod):
    for d in fn.decorator_list:
      name = (dotted(d.func if isinstance(d, ast.Call) else d) or "").split(".")[-1]
      if name in ("lru_cache", "cache", "cached_property", "memoize"):
        out.append((fn, name))
  return out


# -- the rule ---------------------------------------------------------------------------

def _judge_holder(ctx, mod, rel, h, written):
  """Reports the instances of one written state holder."""
  deps_cache = {}

  def deps(fn):
    if fn not in deps_cache:
      deps_cache[fn] = _Deps(fn)
    return deps_cache[fn]

  stores = [u for u in h.uses if u[1] in ("store", "unkeyed-store", "slot")]
  reads = [u for u in h.uses if u[1] in ("read", "content", "escape")]
  param_dependent = False
  n = 0
  for fn, cat, keys, vals, top in stores:
    d = deps(fn)
    extra = frozenset(written - {h.name})
    if cat == "slot" and vals and all(_is_empty_container(v) or isinstance(v, ast.Constant)
                                      for v in vals):
      continue           # a reset
    need = d.of(vals, extra, ignore={h.name})
    have = d.of(keys, extra, ignore={h.name}) if keys else set()
    n += 1
    construct = f"{rel}:{h.label}:{_qual(mod, fn)}:store#{n}"
    facts = {"holder": h.label, "declared": h.what, "store": src(top)[:80],
             "value_depends_on": sorted(need), "key_depends_on": sorted(have)}
    if need:
      param_dependent = True
    if cat == "store":
      ctx.check(need <= have, construct, rel, top.lineno,
                f"`{src(top)[:70]}` keeps a value computed from {sorted(need)} in "
                f"`{h.label}`, which outlives the call, under a key that depends only on "
                f"{sorted(have)}: a later call with an equal key but another "
                f"{sorted(need - have)} is served the value computed for the earlier one "
                "(for merge_sources: the stub filtered against another source's class "
                "statements, so the merged tree is no longer the original plus "
                "annotations)", facts)
    else:
      ctx.check(not need or not reads, construct, rel, top.lineno,
                f"`{src(top)[:70]}` keeps a value computed from {sorted(need)} in "
                f"`{h.label}`, which outlives the call, under no key at all, and "
                f"{_qual(mod, reads[0][0]) if reads else '?'} reads it back: a later call "
                "sees what an earlier call computed from other arguments", facts)
  if param_dependent:
    for i, (fn, cat, keys, vals, top) in enumerate(
        [u for u in reads if u[1] in ("content", "escape")], 1):
      ctx.bad(f"{rel}:{h.label}:{_qual(mod, fn)}:unkeyed-read#{i}", rel, top.lineno,
              f"`{src(top)[:70]}` delivers everything stored in `{h.label}` - values "
              "earlier calls computed from their own arguments - regardless of a key",
              {"holder": h.label, "read": src(top)[:80], "kind": cat})
  elif not n:
    ctx.ok(f"{rel}:{h.label}:no-argument-dependent-state", rel, h.node.lineno
           if hasattr(h.node, "lineno") else 0, {"holder": h.label, "declared": h.what})


@rule("R20.24", "C20", floor=3)
def r20_24(ctx):
  """No state computed from the arguments of a merge survives the call,
  except in a cache keyed by every input of the value."""
  files = [f for f in all_py_files(ctx, SCOPE) if not f.endswith("_test.py")
           and os.path.basename(f) != "__init__.py"]
  if MP not in files:
    raise AnalysisError(f"{MP} not found")
  for rel in files:
    mod = get_module(ctx, rel)
    holders, unknown = _holders(mod)
    _collect_uses(mod, holders)
    holders += _slots(mod, holders)
    # module-level values of unknown mutability that a function touches
    fn_names = set()
    cache = {}
    for fn in _functions(mod):
      for n in _own_nodes(fn):
        if isinstance(n, ast.Name) and _resolves_to_module(mod, n, cache):
          fn_names.add(n.id)
    for name, value, stmt in unknown:
      if name in fn_names:
        raise AnalysisError(
            f"{rel}: module-level `{name} = {src(value)[:50]}` is used by a function and "
            "its mutability is not known: cannot tell whether state survives a call")
    for fn, deco in _cached_functions(mod):
      raise AnalysisError(
          f"{rel}: {_qual(mod, fn)} is memoised with @{deco}: whether its key covers what "
          "the value depends on (free variables, self) is not decided")
    written = {h.name for h in holders
               if any(u[1] in ("store", "unkeyed-store", "slot") for u in h.uses)}
    summary = []
    for h in holders:
      cats = sorted({u[1] for u in h.uses})
      summary.append({"holder": h.label, "kind": h.kind, "declared": h.what, "uses": cats})
      if h.kind in ("object", "default-object"):
        users = sorted({_qual(mod, u[0]) for u in h.uses})
        construct = f"{rel}:{h.label}:shared-instance"
        facts = {"holder": h.label, "declared": h.what, "state": h.state, "used_by": users}
        ctx.check(not (h.state and users), construct, rel, h.node.lineno,
                  f"`{h.label} = {h.what}` is created once"
                  f"{' at import time' if h.kind == 'object' else ' (a default value)'} and "
                  f"used by {users}: its state ({'; '.join(h.state[:3])}) carries over from "
                  "one call to the next, so what a merge does depends on the merges before it",
                  facts)
        continue
      if h.name not in written and not (h.kind == "slot"):
        if any(u[1] == "escape" for u in h.uses):
          ctx.note(f"R20.24: {rel}: `{h.label}` is handed on as a whole by "
                   f"{sorted({_qual(mod, u[0]) for u in h.uses if u[1] == 'escape'})}; no "
                   "write is visible in the module (a write by the callee is not seen)")
        ctx.ok(f"{rel}:{h.label}:never-written-by-a-function", rel, h.node.lineno,
               {"holder": h.label, "declared": h.what, "uses": cats})
        continue
      _judge_holder(ctx, mod, rel, h, written)
    ctx.ok(f"{rel}:state-holders-inventory", rel, 0, {"holders": summary})


# -- sensitivity suite --------------------------------------------------------------------

_DEF = "def merge_sources(*, py: str, pyi: str) -> str:\n"
_PARSE_STUB = "    pyi_cst = cst.parse_module(pyi)\n"
_PIPELINE = (
    "    pyi_cst = cst.parse_module(pyi)\n"
    "    stub_class_collector = _ClassNameCollector()\n"
    "    pyi_cst.visit(stub_class_collector)\n"
    "    pyi_cst = (\n"
    "        pyi_cst.visit(RemoveAnyNeverTransformer())\n"
    "        .visit(RemoveTrivialTypesTransformer())\n"
    "        .visit(RemoveUndefinedClassesTransformer(class_collector.class_names))\n"
    "        .visit(QuoteNestedClassesTransformer(stub_class_collector.class_names))\n"
    "    )\n")
_COLLECT_SRC = "    class_collector = _ClassNameCollector()\n"
_RETURN = "    return merged_cst.code\n"
_CONTEXT = "  context = codemod.CodemodContext()\n"
_MERGE_FILES_READ = "    with open(pyi_path) as f:\n      pyi_src = f.read()\n"


def _e(name, edits, expect="fire"):
  return {"name": name, "rule": "R20.24", "edits": [(MP, o, n) for o, n in edits],
          "expect": expect}


VARIANTS = [
    {"name": "seeded-C20-r3m1", "rule": "R20.24", "patch": "seeded/C20-r3m1/patch.diff",
     "expect": "fire"},
    # a collector created at import time accumulates the class names of every source
    _e("source-class-collector-created-once-at-import",
       [(_DEF, "_SOURCE_CLASSES = _ClassNameCollector()\n\n\n" + _DEF),
        (_COLLECT_SRC, "    class_collector = _SOURCE_CLASSES\n")]),
    # class names kept in a class attribute: one set for all collectors
    _e("class-names-kept-in-a-class-attribute",
       [("  def __init__(self):\n    super().__init__()\n    self.class_names = set()\n\n"
         "  def visit_ClassDef(self, node: cst.ClassDef) -> None:",
         "  class_names = set()\n\n"
         "  def visit_ClassDef(self, node: cst.ClassDef) -> None:")]),
    # the parsed stub remembered in a one-element list (the D48 shape)
    _e("parsed-stub-kept-in-a-one-slot-list",
       [(_DEF, "_parsed_stub = []\n\n\n" + _DEF),
        (_PARSE_STUB, "    if not _parsed_stub:\n      _parsed_stub.append(cst.parse_module(pyi))\n"
                      "    pyi_cst = _parsed_stub[0]\n")]),
    # the merged text memoised by the source text alone
    _e("merged-text-memoised-by-the-source-alone",
       [(_DEF, "_merged = {}\n\n\n" + _DEF),
        (_RETURN, "    _merged[py] = merged_cst.code\n    return _merged[py]\n")]),
    # a `global` slot holding the last filtered stub
    _e("last-filtered-stub-in-a-global-slot",
       [(_DEF, "_last_stub = None\n\n\n" + _DEF),
        ("    merged_cst = _merge_csts(py_tree=py_cst, pyi_tree=pyi_cst)\n",
         "    global _last_stub\n    if _last_stub is None:\n      _last_stub = pyi_cst\n"
         "    merged_cst = _merge_csts(py_tree=py_cst, pyi_tree=_last_stub)\n")]),
    # memo in a mutable default value
    _e("memo-in-a-mutable-default-value",
       [(_DEF, "def merge_sources(*, py: str, pyi: str, _memo={}) -> str:\n"),
        (_PARSE_STUB, "    if pyi not in _memo:\n      _memo[pyi] = py\n"
                      "    pyi_cst = cst.parse_module(pyi)\n")]),
    # libcst's codemod context (scheduled imports live in its scratch dict) shared
    _e("codemod-context-shared-by-all-merges",
       [("def _merge_csts(*, py_tree, pyi_tree):\n" + _CONTEXT,
         "_CONTEXT = codemod.CodemodContext()\n\n\n"
         "def _merge_csts(*, py_tree, pyi_tree):\n  context = _CONTEXT\n")]),
    # twins: state that is keyed by all it depends on, or depends on no argument
    _e("twin-stub-text-memo-keyed-by-its-path",
       [("def merge_files(\n", "_stub_texts: dict[str, str] = {}\n\n\ndef merge_files(\n"),
        (_MERGE_FILES_READ,
         "    if pyi_path not in _stub_texts:\n      with open(pyi_path) as f:\n"
         "        _stub_texts[pyi_path] = f.read()\n    pyi_src = _stub_texts[pyi_path]\n")],
       "silent"),
    _e("twin-module-level-constant-table",
       [("def _get_diff(a, b) -> str:\n",
         "_LINE_ENDINGS = [\"\\n\"]\n\n\ndef _get_diff(a, b) -> str:\n"),
        ("  a, b = a.split(\"\\n\"), b.split(\"\\n\")\n",
         "  for ending in _LINE_ENDINGS:\n    a, b = a.split(ending), b.split(ending)\n")],
       "silent"),
    _e("twin-call-counter",
       [("def merge_tree(\n", "_trees_merged = [0]\n\n\ndef merge_tree(\n"),
        ("  errors = []\n  changed_files = []\n",
         "  errors = []\n  changed_files = []\n  _trees_merged[0] += 1\n")],
       "silent"),
    _e("twin-memo-of-diffs-keyed-by-both-texts",
       [("def _get_diff(a, b) -> str:\n",
         "_diffs = {}\n\n\ndef _get_diff(a, b) -> str:\n  if (a, b) in _diffs:\n"
         "    return _diffs[a, b]\n  key = (a, b)\n"),
        ("  return \"\\n\".join(diff)\n",
         "  _diffs[key] = \"\\n\".join(diff)\n  return _diffs[key]\n")],
       "silent"),
    # memoisation whose key the rule does not see is refused, not judged
    _e("diff-memoised-with-functools",
       [("def _get_diff(a, b) -> str:\n",
         "@functools.lru_cache(maxsize=None)\ndef _get_diff(a, b) -> str:\n")], "error"),
    # the mutant's cache with a complete key: no violation (the model run of
    # R20.1 still refuses a pipeline with a test on remembered state)
    _e("seeded-cache-with-a-complete-key",
       [(_DEF,
         "_prepared_stubs: dict[tuple[str, frozenset[str]], cst.Module] = {}\n\n\n"
         "def _prepare_stub(pyi: str, py_class_names: set[str]) -> cst.Module:\n"
         "  key = (pyi, frozenset(py_class_names))\n"
         "  pyi_cst = _prepared_stubs.get(key)\n"
         "  if pyi_cst is not None:\n    return pyi_cst\n"
         "  pyi_cst = cst.parse_module(pyi)\n"
         "  stub_class_collector = _ClassNameCollector()\n"
         "  pyi_cst.visit(stub_class_collector)\n"
         "  pyi_cst = (\n"
         "      pyi_cst.visit(RemoveAnyNeverTransformer())\n"
         "      .visit(RemoveTrivialTypesTransformer())\n"
         "      .visit(RemoveUndefinedClassesTransformer(py_class_names))\n"
         "      .visit(QuoteNestedClassesTransformer(stub_class_collector.class_names))\n"
         "  )\n"
         "  _prepared_stubs[key] = pyi_cst\n  return pyi_cst\n\n\n" + _DEF),
        (_PIPELINE, "    pyi_cst = _prepare_stub(pyi, class_collector.class_names)\n")],
       "error"),
]
