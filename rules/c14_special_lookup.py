"""C14 extension (R14.21): `__getattr__`/`__getattribute__` never answer the
lookup of a special (slot) method.

CPython finds the method behind `p()`, `1 + p`, `-p`, `p[0]`, `len(p)`, ... on
`type(p)`, bypassing `__getattr__` and `__getattribute__`
(docs: "Special method lookup").  pytype routes those implicit lookups through
the same `get_attribute` as `p.foo`, so the only thing that keeps a class with
a catch-all `__getattr__` from "supporting" every operator is the name
predicate that guards the call of the compute function in
`AbstractAttributeHandler._get_attribute_computed`.  If that predicate lets a
slot name through, `Proxy()()` and `1 + Proxy()` stop being reported although
CPython raises TypeError (the "plain mistakes are caught" half of C14).

The rule *evaluates* the path condition of the compute-function lookup (in the
caller `_get_attribute` and in `_get_attribute_computed`, inlining pure helper
predicates such as `_computable` and the tables they consult, e.g.
`slots.SYMBOL_MAPPING` built from `slots.SLOTS`) for every special-method name:
every `python_name` of pytype's own slot table `slots.SLOTS` and every name
that is a slot wrapper on a builtin type of the host CPython (reference).  The
lookup must be unreachable for each of them, for each compute function the
callers pass.  Nothing is assumed about how the predicate is spelled.
"""
import ast
import builtins
import types

from sa.core import rule, AnalysisError
from sa.pyindex import get_module, dotted, src
from rules import _peval
from rules._peval import UNK, NotUnderstood, EvalError

ATTR = "pytype/attribute.py"
SLOTS = "pytype/pytd/slots.py"
HANDLER = "AbstractAttributeHandler"
COMPUTED = "_get_attribute_computed"

# which clause of C14 an implicit lookup of the name serves (facts only)
_CLAUSE = {"__call__": "call of a non-callable", "__neg__": "unary minus",
           "__getitem__": "subscripting"}
for _o in ("add", "sub", "mul", "truediv"):
  for _p in ("", "r", "i"):
    _CLAUSE[f"__{_p}{_o}__"] = "arithmetic + - * /"


def host_slot_names():
  """Names CPython implements as type slots (slot wrappers on builtin types)."""
  out = set()
  ts = [t for t in vars(builtins).values() if isinstance(t, type)]
  ts += [types.CoroutineType, types.GeneratorType, types.AsyncGeneratorType,
         types.FunctionType, types.MethodType]
  for t in ts:
    for n, v in vars(t).items():
      if type(v).__name__ == "wrapper_descriptor" and n.startswith("__") and n.endswith("__"):
        out.add(n)
  return out


REACHED, DONE, FALLS = "reached", "done", "falls"


class _Reach:
  """Can control reach `target` (a statement of fn) for the given bindings?
  Tests that do not depend on the bindings are unknown and assumed satisfiable."""

  def __init__(self, ev, mod, cls, fn, target):
    self.ev, self.mod, self.cls, self.fn, self.target = ev, mod, cls, fn, target

  def run(self, env):
    return self.block(self.fn.body, dict(env))

  def _contains_target(self, st):
    return any(n is self.target for n in ast.walk(st))

  def block(self, body, env):
    for st in body:
      if st is self.target:
        return REACHED
      if isinstance(st, ast.If):
        if any(n is self.target for n in ast.walk(st.test)):
          raise NotUnderstood("the compute call sits inside an `if` test")
        t = self.ev.eval(st.test, env, self.mod, self.cls)
        if t is UNK:
          e1, e2 = dict(env), dict(env)
          r1, r2 = self.block(st.body, e1), self.block(st.orelse, e2)
          if REACHED in (r1, r2):
            return REACHED
          if r1 == DONE and r2 == DONE:
            return DONE
          live = [e for r, e in ((r1, e1), (r2, e2)) if r == FALLS]
          for k in set().union(*live):
            vals = [e.get(k, UNK) for e in live]
            same = all(v is not UNK and type(v) is type(vals[0]) and v == vals[0] for v in vals)
            env[k] = vals[0] if same else UNK
        else:
          r = self.block(st.body if t else st.orelse, env)
          if r != FALLS:
            return r
        continue
      if isinstance(st, (ast.Return, ast.Raise)):
        if self._contains_target(st):
          return REACHED
        return DONE
      if isinstance(st, ast.Assign) and len(st.targets) == 1:
        if self._contains_target(st):
          return REACHED
        v = self.ev.eval(st.value, env, self.mod, self.cls)
        self._bind(st.targets[0], v, env)
        continue
      if isinstance(st, (ast.Expr, ast.Pass, ast.Assert, ast.AnnAssign, ast.AugAssign)):
        if self._contains_target(st):
          return REACHED
        for n in ast.walk(st):
          if isinstance(n, ast.Name) and isinstance(n.ctx, ast.Store):
            env[n.id] = UNK
        continue
      # loops / try / with: not modelled
      if self._contains_target(st):
        raise NotUnderstood(f"the compute call sits inside a `{type(st).__name__}`")
      for n in ast.walk(st):
        if isinstance(n, ast.Name) and isinstance(n.ctx, ast.Store):
          env[n.id] = UNK
        if isinstance(n, (ast.Return, ast.Raise, ast.Break, ast.Continue)):
          raise NotUnderstood(f"`{type(st).__name__}` with an early exit before the compute call")
    return FALLS

  def _bind(self, target, v, env):
    if isinstance(target, ast.Name):
      env[target.id] = v
    else:
      for n in ast.walk(target):
        if isinstance(n, ast.Name) and isinstance(n.ctx, ast.Store):
          env[n.id] = UNK


def _param_names(fn):
  return [a.arg for a in fn.args.args + fn.args.kwonlyargs]


def _call_args(call, fn):
  """parameter name -> argument expression for a `self.fn(...)` call."""
  params = [a.arg for a in fn.args.args][1:]
  out = {}
  for p, a in zip(params, call.args):
    if isinstance(a, ast.Starred):
      raise AnalysisError(f"{COMPUTED}: star-args call")
    out[p] = a
  for k in call.keywords:
    if k.arg is None:
      raise AnalysisError(f"{COMPUTED}: **kwargs call")
    out[k.arg] = k.value
  return out


@rule("R14.21", "C14", floor=80)
def r14_21(ctx):
  """No special-method name reaches the `__getattr__`/`__getattribute__` call."""
  mod = get_module(ctx, ATTR)
  meths = mod.methods(HANDLER)
  if COMPUTED not in meths:
    raise AnalysisError(f"{HANDLER}.{COMPUTED} not found")
  fn = meths[COMPUTED]
  params = _param_names(fn)
  if "name" not in params or "compute_function" not in params:
    raise AnalysisError(f"{COMPUTED}: parameters are {params}; expected name and compute_function")
  # the statement that looks the compute function up on the class
  lookups = []
  for n in ast.walk(fn):
    if isinstance(n, ast.Call) and any(
        isinstance(a, ast.Name) and a.id == "compute_function"
        for a in list(n.args) + [k.value for k in n.keywords]):
      d = dotted(n.func) or ""
      if d.startswith("self.") and d.split(".")[-1] in meths and \
          _peval.Evaluator(ctx).is_pure_method(mod, HANDLER, d.split(".")[-1]):
        continue  # a pure predicate over (name, compute_function), not the lookup
      lookups.append(n)
  if len(lookups) != 1:
    raise AnalysisError(f"{COMPUTED}: expected exactly one lookup of compute_function, "
                        f"found {[src(x)[:60] for x in lookups]}")
  target = mod.enclosing_stmt(lookups[0])
  # callers: which compute functions, and is `name` passed through?
  sites = []
  for cname, cfn in meths.items():
    for c in ast.walk(cfn):
      if isinstance(c, ast.Call) and dotted(c.func) == f"self.{COMPUTED}":
        if mod.enclosing_function(c) is not cfn:
          raise AnalysisError(f"{cname}: {COMPUTED} is called from a nested function")
        amap = _call_args(c, fn)
        cf = amap.get("compute_function")
        nm = amap.get("name")
        if not (isinstance(cf, ast.Constant) and isinstance(cf.value, str)):
          raise AnalysisError(f"{cname}: compute_function argument `{cf and src(cf)}` is not a literal")
        if not (isinstance(nm, ast.Name) and nm.id in _param_names(cfn)):
          raise AnalysisError(f"{cname}: the name argument `{nm and src(nm)}` is not a parameter "
                              "passed through")
        sites.append((cname, cfn, c, cf.value, nm.id))
  others = [n for n in ast.walk(mod.tree) if isinstance(n, ast.Attribute) and n.attr == COMPUTED
            and not (isinstance(mod.parent.get(n), ast.Call) and dotted(n) == f"self.{COMPUTED}")]
  if others or not sites:
    raise AnalysisError(f"{COMPUTED} is referenced other than by self.{COMPUTED}(...) calls "
                        f"({len(sites)} call sites)")
  ev = _peval.Evaluator(ctx)
  try:
    table = ev.global_value(SLOTS, "SLOTS")
  except EvalError as e:
    raise AnalysisError(f"slots.SLOTS: {e}") from e
  if not (isinstance(table, list) and table and all(
      isinstance(s, _peval.Obj) and isinstance(s.fields.get("python_name"), str) for s in table)):
    raise AnalysisError("slots.SLOTS did not evaluate to a list of Slot objects")
  # the Python-2 rows (`next`, `__cmp__`, ...) are not special methods of the
  # analysed language
  own = {s.fields["python_name"] for s in table if s.fields.get("python_version") != "2"}
  host = host_slot_names()
  required = sorted(own | host)
  # sanity of the evaluator on this tree: an ordinary attribute must get through
  for probe in ("foo", "_private"):
    try:
      ok = _allowed(ev, mod, fn, target, sites, probe)
    except EvalError as e:
      raise AnalysisError(f"{COMPUTED}: path condition for name={probe!r}: {e}") from e
    if not ok:
      raise AnalysisError(f"evaluation says `{probe}` can never be computed by __getattr__; "
                          "the path condition is not understood")
  for name in required:
    try:
      allowed = _allowed(ev, mod, fn, target, sites, name)
    except EvalError as e:
      raise AnalysisError(f"{COMPUTED}: path condition for name={name!r}: {e}") from e
    ctx.check(not allowed, f"computed-attr-refuses:{name}", ATTR, target.lineno,
              f"a class's {' / '.join(allowed)} is allowed to answer the lookup of {name!r}, "
              "which CPython performs on the type without consulting "
              "__getattr__/__getattribute__: an instance of any class with a catch-all "
              f"__getattr__ is treated as supporting {name} "
              f"({_CLAUSE.get(name, 'implicit special-method lookup')}), so the TypeError "
              "CPython raises is not reported",
              {"in_slots_SLOTS": name in own, "host_slot_wrapper": name in host,
               "clause": _CLAUSE.get(name), "allowed_via": allowed})


def _allowed(ev, mod, fn, target, sites, name):
  """Compute functions through which `name` can reach the lookup."""
  out = []
  for cname, cfn, call, cf, pname in sites:
    if True:
      env = {p: UNK for p in _param_names(cfn)}
      env[pname] = name
      stmt = mod.enclosing_stmt(call)
      r1 = _Reach(ev, mod, HANDLER, cfn, stmt).run(env)
      if r1 != REACHED:
        continue
      env = {p: UNK for p in _param_names(fn)}
      env["name"] = name
      env["compute_function"] = cf
      r2 = _Reach(ev, mod, HANDLER, fn, target).run(env)
    if r2 == REACHED and cf not in out:
      out.append(cf)
  return out


_OLD = ('  def _computable(self, name):\n'
        '    return not (name.startswith("__") and name.endswith("__"))\n')

VARIANTS = [
    {"name": "seeded-C14-r2m2", "rule": "R14.21", "patch": "seeded/C14-r2m2/patch.diff",
     "expect": "fire"},
    # different shape: a length heuristic that lets the long reflected names through
    {"name": "computable-short-dunders-only", "rule": "R14.21", "file": ATTR, "expect": "fire",
     "old": _OLD,
     "new": ('  def _computable(self, name):\n'
             '    return not (name.startswith("__") and name.endswith("__") and len(name) < 9)\n')},
    # different shape: the refusal moved to the caller covers only one of the two compute functions
    {"name": "getattr-fallback-allows-call", "rule": "R14.21", "file": ATTR, "expect": "fire",
     "old": _OLD,
     "new": ('  def _computable(self, name):\n'
             '    return name == "__call__" or not (name.startswith("__") and name.endswith("__"))\n')},
    {"name": "guard-dropped-from-computed", "rule": "R14.21", "file": ATTR, "expect": "fire",
     "old": "        and not isinstance(valself.data, abstract.Module)\n        and self._computable(name)\n",
     "new": "        and not isinstance(valself.data, abstract.Module)\n"},
    # benign: De Morgan
    {"name": "twin-computable-de-morgan", "rule": "R14.21", "file": ATTR, "expect": "silent",
     "old": _OLD,
     "new": ('  def _computable(self, name):\n'
             '    return not name.startswith("__") or not name.endswith("__")\n')},
    # benign: data dunders that are not special methods may be served by __getattr__
    {"name": "twin-computable-allows-data-dunders", "rule": "R14.21", "file": ATTR, "expect": "silent",
     "old": _OLD,
     "new": ('  _DATA_DUNDERS = frozenset({"__wrapped__", "__version__"})\n\n'
             '  def _computable(self, name):\n'
             '    if name in self._DATA_DUNDERS:\n'
             '      return True\n'
             '    return not (name.startswith("__") and name.endswith("__"))\n')},
    # benign: predicate inlined into the guard, early-return style
    {"name": "twin-guard-inlined-early-return", "rule": "R14.21", "file": ATTR, "expect": "silent",
     "edits": [(ATTR, "    \"\"\"Call compute_function (if defined) to compute an attribute.\"\"\"\n",
                "    \"\"\"Call compute_function (if defined) to compute an attribute.\"\"\"\n"
                "    is_dunder = name[:2] == \"__\" and name[-2:] == \"__\"\n"
                "    if is_dunder:\n"
                "      return node, None\n"),
               (ATTR, "        and not isinstance(valself.data, abstract.Module)\n        and self._computable(name)\n",
                "        and not isinstance(valself.data, abstract.Module)\n")]},
    # benign: the refusal is made by the caller instead
    {"name": "twin-refusal-in-caller", "rule": "R14.21", "file": ATTR, "expect": "silent",
     "edits": [(ATTR, "    if cls:\n      # A __getattribute__ on the class controls all attribute access.\n",
                "    if cls and not name.startswith(\"__\"):\n      # A __getattribute__ on the class controls all attribute access.\n"),
               (ATTR, "      elif not is_unknown_instance_attribute:\n        # Fall back to __getattr__",
                "      elif not is_unknown_instance_attribute and not name.startswith(\"__\"):\n        # Fall back to __getattr__"),
               (ATTR, "        and not isinstance(valself.data, abstract.Module)\n        and self._computable(name)\n",
                "        and not isinstance(valself.data, abstract.Module)\n")]},
    # a predicate that consults run-time state together with the name: not decidable
    {"name": "computable-consults-state", "rule": "R14.21", "file": ATTR, "expect": "error",
     "old": _OLD,
     "new": ('  def _computable(self, name):\n'
             '    return name not in self._special_names\n')},
]
