"""Schema-matching helpers shared by rules/c17.py and rules/c18.py.

Not a rules module (check.py only loads rules/c*.py).  Everything here works on
the `ast` of one function; nothing from /repo is imported or executed.

The common technique ("decision table by worlds"): the function under analysis
is a small decision procedure whose branch tests are drawn from a handful of
*atoms* the rule knows (e.g. `e is stop_term`, `len(acc) > 1`).  For every
statement of interest the path condition is taken from `sa.flow.guards`
(control dependence incl. negated early exits, IfExp arms added here); the
rule then enumerates the finitely many *worlds* (valuations of the atoms),
evaluates each path condition under each world and so obtains, per world, the
statements that execute.  A test that is not built from known atoms raises
AnalysisError: the idiom is outside what the rule understands.
"""
import ast
import copy

from sa.core import AnalysisError
from sa.pyindex import dotted, src, walk_no_nested
from sa import flow


def params_of(fn):
  return [a.arg for a in fn.args.posonlyargs + fn.args.args]


def all_params(fn):
  out = params_of(fn) + [a.arg for a in fn.args.kwonlyargs]
  if fn.args.vararg:
    out.append(fn.args.vararg.arg)
  if fn.args.kwarg:
    out.append(fn.args.kwarg.arg)
  return out


def _target_names(t):
  if isinstance(t, ast.Name):
    return [t.id]
  if isinstance(t, (ast.Tuple, ast.List)):
    out = []
    for e in t.elts:
      out.extend(_target_names(e))
    return out
  if isinstance(t, ast.Starred):
    return _target_names(t.value)
  return []


def _is_container(v):
  if isinstance(v, (ast.Dict, ast.List, ast.Set, ast.ListComp, ast.SetComp,
                    ast.DictComp)):
    return True
  return isinstance(v, ast.Call) and (dotted(v.func) or "").split(".")[-1] in (
      "set", "dict", "list", "defaultdict", "OrderedDict", "bytearray")


class Sym:
  """Cheap value provenance for the locals of one function.

  * names whose every assignment is a simple top-level `name = expr` are
    tracked sequentially (so `condition = And(self._condition, condition)`
    rebinding a parameter is understood; the parameter's incoming value is
    written `<condition>`);
  * names assigned exactly once anywhere (`negation = Not(arg)` inside a loop)
    are inlined;
  * everything else (loop targets, names assigned on several paths) stays a
    plain Name.
  """

  def __init__(self, mod, fn):
    self.mod, self.fn = mod, fn
    self.params = set(all_params(fn))
    top = set(map(id, fn.body))
    counts, simple, nontop = {}, {}, set()

    def bump(name, stmt, value=None):
      counts[name] = counts.get(name, 0) + 1
      if value is not None:
        simple.setdefault(name, []).append((stmt, value))
      if id(stmt) not in top or value is None:
        nontop.add(name)

    for n in walk_no_nested(fn):
      if isinstance(n, ast.Assign):
        if len(n.targets) == 1 and isinstance(n.targets[0], ast.Name):
          bump(n.targets[0].id, n, n.value)
        else:
          for t in n.targets:
            for nm in _target_names(t):
              bump(nm, n)
      elif isinstance(n, (ast.AugAssign, ast.AnnAssign)):
        for nm in _target_names(n.target):
          bump(nm, n)
      elif isinstance(n, (ast.For, ast.AsyncFor)):
        for nm in _target_names(n.target):
          bump(nm, n)
      elif isinstance(n, (ast.With, ast.AsyncWith)):
        for it in n.items:
          if it.optional_vars is not None:
            for nm in _target_names(it.optional_vars):
              bump(nm, n)
      elif isinstance(n, ast.NamedExpr):
        bump(n.target.id, mod.enclosing_stmt(n))
      elif isinstance(n, ast.ExceptHandler) and n.name:
        bump(n.name, n)
    self.counts = counts
    self.defs = {nm: [v for _, v in d] for nm, d in simple.items()}
    # names bound to a container display / constructor are objects that get
    # mutated in place: they are never replaced by their initial value
    containers = {nm for nm, defs in simple.items()
                  if any(_is_container(v) for _, v in defs)}
    self.sequential = {nm for nm in counts
                       if nm not in nontop and nm not in containers}
    self.single = {nm: simple[nm][0][1] for nm in counts
                   if counts[nm] == 1 and nm in simple and nm in nontop
                   and nm not in self.params and nm not in containers}
    self.rebound_params = {p for p in self.params if p in counts}

  def top_stmt(self, node):
    while node is not None and node not in self.fn.body:
      node = self.mod.parent.get(node)
    return node

  def env_before(self, node):
    stop = self.top_stmt(node)
    env = {}
    for s in self.fn.body:
      if s is stop:
        break
      if isinstance(s, ast.Assign) and len(s.targets) == 1 and \
          isinstance(s.targets[0], ast.Name) and \
          s.targets[0].id in self.sequential:
        env[s.targets[0].id] = self._subst(s.value, env, 0)
    return env

  def _subst(self, expr, env, depth):
    if depth > 12:
      raise AnalysisError("provenance: substitution too deep")
    sym = self

    class T(ast.NodeTransformer):
      def visit_Name(self, n):
        if not isinstance(n.ctx, ast.Load):
          return n
        if n.id in env:
          return copy.deepcopy(env[n.id])
        if n.id in sym.single:
          return sym._subst(sym.single[n.id], env, depth + 1)
        if n.id in sym.rebound_params:
          return ast.Name(id=f"<{n.id}>", ctx=ast.Load())
        return n

    return T().visit(copy.deepcopy(expr))

  def resolve(self, expr, at=None):
    """`expr` with locals replaced by their defining expressions."""
    return self._subst(expr, self.env_before(at if at is not None else expr), 0)


def guards(mod, stmt, sym=None, within=None):
  """Path condition of stmt: [(test, polarity)], tests resolved through sym.

  `within`: keep only tests located inside that node (e.g. a loop).
  """
  out = []
  raw = list(flow.guards(mod.parent, stmt)) + _elif_exits(mod, stmt)
  seen = set()
  for t, pol in raw:
    if (id(t), pol) in seen:
      continue
    seen.add((id(t), pol))
    if within is not None and not _inside(mod, t, within):
      continue
    out.append((sym.resolve(t, t) if sym else t, pol))
  return out


def _elif_exits(mod, stmt):
  """Negated tests of *every* terminating arm of an earlier if/elif chain.

  sa.flow.guards negates only the first test of `if A: return .. elif B:
  continue`; falling out of such a chain also implies `not B` as long as all
  arms before B terminate.
  """
  out = []
  node = stmt
  while node in mod.parent:
    par = mod.parent[node]
    for fld in ("body", "orelse", "finalbody"):
      blk = getattr(par, fld, None)
      if isinstance(blk, list) and node in blk:
        for prev in blk[:blk.index(node)]:
          arm = prev
          while isinstance(arm, ast.If) and flow.terminates(arm.body):
            out.append((arm.test, False))
            if len(arm.orelse) == 1 and isinstance(arm.orelse[0], ast.If):
              arm = arm.orelse[0]
            else:
              break
        break
    if isinstance(par, (ast.FunctionDef, ast.AsyncFunctionDef, ast.Lambda)):
      break
    node = par
  return out


def _inside(mod, node, anc):
  while node is not None:
    if node is anc:
      return True
    node = mod.parent.get(node)
  return False


def expand_ifexp(value):
  """[(leaf_value, [(test, polarity), ...])] for nested conditional expressions."""
  if isinstance(value, ast.IfExp):
    out = []
    for leaf, conds in expand_ifexp(value.body):
      out.append((leaf, [(value.test, True)] + conds))
    for leaf, conds in expand_ifexp(value.orelse):
      out.append((leaf, [(value.test, False)] + conds))
    return out
  return [(value, [])]


def return_paths(mod, fn, sym, region=None, exclude=None):
  """Every (return stmt, resolved leaf value, path condition) of fn.

  region: only returns inside that node; exclude: skip returns inside it.
  """
  out = []
  for r in walk_no_nested(fn):
    if not isinstance(r, ast.Return):
      continue
    if region is not None and not _inside(mod, r, region):
      continue
    if exclude is not None and _inside(mod, r, exclude):
      continue
    if r.value is None:
      raise AnalysisError(f"{fn.name}: bare return")
    g = guards(mod, r, sym)
    for leaf, conds in expand_ifexp(r.value):
      conds = [(sym.resolve(t, r), p) for t, p in conds]
      out.append((r, sym.resolve(leaf, r), g + conds))
  return out


def truth(expr, atom):
  """Evaluates a test built from not/and/or over atoms; atom(expr) -> bool|None."""
  if isinstance(expr, ast.UnaryOp) and isinstance(expr.op, ast.Not):
    return not truth(expr.operand, atom)
  if isinstance(expr, ast.BoolOp):
    vals = [truth(v, atom) for v in expr.values]
    return all(vals) if isinstance(expr.op, ast.And) else any(vals)
  v = atom(expr)
  if v is None:
    raise AnalysisError(f"test outside the known atoms: `{src(expr)}`")
  return bool(v)


def holds(conds, atom):
  return all(truth(t, atom) == pol for t, pol in conds)


def decide(paths, worlds, atom_for):
  """world -> the unique (stmt, value, conds) whose path condition holds."""
  out = {}
  for w in worlds:
    atom = atom_for(w)
    hits = [p for p in paths if holds(p[2], atom)]
    if len(hits) != 1:
      raise AnalysisError(
          f"decision table: {len(hits)} returns reachable in world {w!r}")
    out[w] = hits[0]
  return out


# -- cardinality atoms (len(acc) > 1, acc, not acc, len(acc) == 1 ...) ----------

_CMP = {ast.Gt: lambda a, b: a > b, ast.GtE: lambda a, b: a >= b,
        ast.Lt: lambda a, b: a < b, ast.LtE: lambda a, b: a <= b,
        ast.Eq: lambda a, b: a == b, ast.NotEq: lambda a, b: a != b}


def card_atom(acc, n):
  """Atoms over the size n of the collection named acc."""
  def val(e):
    if isinstance(e, ast.Constant) and type(e.value) is int:
      return e.value
    if isinstance(e, ast.Call) and dotted(e.func) == "len" and \
        len(e.args) == 1 and dotted(e.args[0]) == acc and not e.keywords:
      return n
    return None

  def atom(e):
    if isinstance(e, ast.Name) and e.id == acc:
      return n > 0
    v = val(e)
    if v is not None and isinstance(e, ast.Call):
      return v > 0
    if isinstance(e, ast.Compare) and len(e.ops) == 1 and type(e.ops[0]) in _CMP:
      a, b = val(e.left), val(e.comparators[0])
      if a is not None and b is not None:
        return _CMP[type(e.ops[0])](a, b)
    return None
  return atom


CARD_WORLDS = (0, 1, 2, 3)


# -- accumulate-in-a-loop combinators --------------------------------------------

def mutation_of(stmt, acc):
  """('add'|'splice', operand) if stmt updates the set named acc, else None.

  Raises AnalysisError for any other way of touching acc.
  """
  def is_acc(n):
    return isinstance(n, ast.Name) and n.id == acc

  if isinstance(stmt, ast.Expr) and isinstance(stmt.value, ast.Call) and \
      isinstance(stmt.value.func, ast.Attribute) and is_acc(stmt.value.func.value):
    c = stmt.value
    if len(c.args) == 1 and not c.keywords:
      if c.func.attr == "add":
        return "add", c.args[0]
      if c.func.attr == "update":
        return "splice", c.args[0]
    raise AnalysisError(f"accumulator used through `{src(c)}`")
  if isinstance(stmt, ast.AugAssign) and is_acc(stmt.target):
    if isinstance(stmt.op, ast.BitOr):
      return "splice", stmt.value
    raise AnalysisError(f"accumulator updated by `{src(stmt)}`")
  if isinstance(stmt, ast.Assign) and any(is_acc(t) for t in stmt.targets):
    v = stmt.value
    if len(stmt.targets) == 1:
      if isinstance(v, ast.Call) and isinstance(v.func, ast.Attribute) and \
          v.func.attr == "union" and is_acc(v.func.value) and \
          len(v.args) == 1 and not v.keywords:
        return "splice", v.args[0]
      if isinstance(v, ast.BinOp) and isinstance(v.op, ast.BitOr):
        if is_acc(v.left):
          return "splice", v.right
        if is_acc(v.right):
          return "splice", v.left
    raise AnalysisError(f"accumulator rebound by `{src(stmt)}`")
  return None


_PURE_CALLS = {"isinstance", "len", "Not", "_Not.make", "type", "id"}


def loop_actions(mod, fn, loop, sym, acc, allowed_assign=()):
  """Action statements of an accumulate loop with their loop-local guards.

  Returns [(kind, payload, stmt, conds)], kind in return/continue/add/splice.
  Any statement the schema does not know raises AnalysisError.
  """
  if loop.orelse:
    raise AnalysisError(f"{fn.name}: loop has an else clause")
  actions = []

  def visit(block):
    for s in block:
      if isinstance(s, ast.If):
        visit(s.body)
        visit(s.orelse)
      elif isinstance(s, ast.Return):
        if s.value is None:
          raise AnalysisError(f"{fn.name}: bare return in loop")
        for leaf, conds in expand_ifexp(s.value):
          conds = [(sym.resolve(t, s), p) for t, p in conds]
          actions.append(("return", sym.resolve(leaf, s), s,
                          guards(mod, s, sym) + conds))
      elif isinstance(s, ast.Continue):
        actions.append(("continue", None, s, guards(mod, s, sym)))
      elif isinstance(s, ast.Pass):
        pass
      elif isinstance(s, ast.Expr) and isinstance(s.value, ast.Constant):
        pass
      else:
        m = mutation_of(s, acc)
        if m is not None:
          actions.append((m[0], sym.resolve(m[1], s), s, guards(mod, s, sym)))
          continue
        if isinstance(s, ast.Assign) and len(s.targets) == 1 and \
            isinstance(s.targets[0], ast.Name) and \
            s.targets[0].id in sym.single:
          bad = [c for c in ast.walk(s.value) if isinstance(c, ast.Call)
                 and dotted(c.func) not in _PURE_CALLS]
          if not bad:
            continue
        raise AnalysisError(
            f"{fn.name}: statement `{src(s)[:60]}` in the loop is outside "
            "the combinator schema")
  visit(loop.body)
  return actions


def executed(actions, atom):
  """The actions whose guards hold in a world, in source order."""
  return [a for a in actions if holds(a[3], atom)]


def accumulator(mod, fn, loop):
  """(name, init value node, init stmt) of the single collection filled by loop."""
  used = {n.id for n in ast.walk(loop) if isinstance(n, ast.Name)}
  cands = []
  for s in fn.body:
    if s is loop:
      break
    if isinstance(s, ast.Assign) and len(s.targets) == 1 and \
        isinstance(s.targets[0], ast.Name) and s.targets[0].id in used:
      cands.append((s.targets[0].id, s.value, s))
  if len(cands) != 1:
    raise AnalysisError(
        f"{fn.name}: expected one accumulator initialised before the loop, "
        f"found {[c[0] for c in cands]}")
  return cands[0]


def empty_kind(node):
  """'set' / 'list' / 'dict' / 'frozenset' for an empty-container expr, else None."""
  if isinstance(node, ast.Call) and not node.args and not node.keywords:
    d = dotted(node.func)
    if d in ("set", "list", "dict", "frozenset"):
      return d
  if isinstance(node, ast.List) and not node.elts:
    return "list"
  if isinstance(node, ast.Dict) and not node.keys:
    return "dict"
  return None


def top_level_shape(fn, loop, acc_stmt, sym):
  """Checks fn.body is: [docstring] inits.. loop final-chain; returns final stmts."""
  seen_loop = False
  final = []
  for i, s in enumerate(fn.body):
    if s is loop:
      seen_loop = True
      continue
    if isinstance(s, ast.Expr) and isinstance(s.value, ast.Constant):
      continue
    if not seen_loop:
      if s is acc_stmt:
        continue
      raise AnalysisError(
          f"{fn.name}: statement `{src(s)[:60]}` before the loop is outside "
          "the combinator schema")
    if isinstance(s, (ast.If, ast.Return)):
      final.append(s)
      continue
    raise AnalysisError(
        f"{fn.name}: statement `{src(s)[:60]}` after the loop is outside "
        "the combinator schema")
  if not seen_loop:
    raise AnalysisError(f"{fn.name}: accumulate loop not found")
  for s in final:
    for n in ast.walk(s):
      if isinstance(n, (ast.For, ast.While, ast.Try, ast.With)):
        raise AnalysisError(f"{fn.name}: compound statement in the final arms")
      if isinstance(n, ast.stmt) and not isinstance(n, (ast.If, ast.Return, ast.Pass)):
        raise AnalysisError(
            f"{fn.name}: statement `{src(n)[:60]}` in the final arms is "
            "outside the combinator schema")
  return final


def single_loop(fn, over):
  """The one top-level `for <Name> in <over>` loop of fn."""
  loops = [s for s in fn.body if isinstance(s, (ast.For, ast.While))]
  if len(loops) != 1 or not isinstance(loops[0], ast.For):
    raise AnalysisError(
        f"{fn.name}: expected exactly one top-level for loop, found {len(loops)}")
  loop = loops[0]
  if dotted(loop.iter) != over or not isinstance(loop.target, ast.Name):
    raise AnalysisError(
        f"{fn.name}: loop is `for {src(loop.target)} in {src(loop.iter)}`, "
        f"expected a plain name over `{over}`")
  for n in ast.walk(loop):
    if n is not loop and isinstance(n, (ast.For, ast.While, ast.Break, ast.Try,
                                        ast.With, ast.Match)):
      raise AnalysisError(
          f"{fn.name}: `{type(n).__name__}` inside the loop is outside the schema")
  return loop


def same_args(call, want):
  """call has exactly the positional args whose sources are the multiset want."""
  return not call.keywords and sorted(src(a) for a in call.args) == sorted(want)
