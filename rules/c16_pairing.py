"""C16 extension.

R16.20  A block that a later pass merges *wholesale* and then exempts from
        edge construction must be a one-instruction block.
        `blocks._remove_jmp_to_get_anext_and_merge` appends the whole block
        that contains `<op>.end_async_for_target` to the loop body, gives the
        result one hand-made edge to the positionally next block and adds it
        to `processed_blocks`, which makes `compute_order` skip it: the jump
        target of whatever instruction ends that block never gets an edge.
        This is only correct if the merged block consists of the handler
        instruction alone, i.e. if that instruction *closes its basic block*
        in `_split_bytecode` (no_next / does_jump / pops_block).  Which
        instruction it is, is read from the producer
        (`opcodes._add_async_for_jump_back_targets`: the handler target of the
        exception-table range that starts at GET_ANEXT) and resolved with the
        host CPython (3.12) compiler as reference: END_ASYNC_FOR.

R16.21  Nested code objects are paired with their disassembly by position.
        `DisassembledCode.children` (pycnite.bytecode.dis_all: one child per
        code object of co_consts, in co_consts order) and the code constants
        are two parallel sequences; `_process` must walk them in lock-step
        (one shared iterator advanced exactly once per code constant).
        Looking the child up through a key computed from attributes of the
        code object (name, first line, ...) is definitely wrong: such keys
        are not unique among siblings (two lambdas or two generator
        expressions on one line), so one child is analysed twice and the
        other never becomes a block graph.
"""
import ast
import sys

from sa.core import rule, AnalysisError
from sa.pyindex import get_module, dotted, src, calls_in, walk_no_nested
from sa import flow

from rules import _opcodes as O

OPC = O.OPCODES
BLOCKS = "pytype/blocks/blocks.py"


# -- R16.20 --------------------------------------------------------------------------

def _closing_disjuncts(mod, helper_names):
  """Names of the flag helpers that, alone, close a block in _split_bytecode
  (the predicate is read as a boolean formula, inline or through a helper
  written with early returns: rules/c16.closing_predicate)."""
  from rules.c16 import closing_predicate
  cp = closing_predicate(mod, helper_names)
  return [h for h in cp.flags if cp.closes_on(h)], cp.node


def _merge_consumers(mod):
  """Functions that extend one block's code with another block's whole code
  and mark the result as processed: (fn, attribute naming the merged block)."""
  out = []
  for fn in mod.functions.values():
    params = [a.arg for a in fn.args.args]
    merges = [c for c in calls_in(fn) if isinstance(c.func, ast.Attribute)
              and c.func.attr == "extend" and src(c.func.value).endswith(".code")
              and len(c.args) == 1 and src(c.args[0]).endswith(".code")]
    marks = [c for c in calls_in(fn) if isinstance(c.func, ast.Attribute)
             and c.func.attr in ("add", "update") and isinstance(c.func.value, ast.Name)
             and c.func.value.id in params and "processed" in c.func.value.id]
    if not (merges and marks):
      continue
    # op -> block index maps: `<m>[<op var>] = <idx>` inside a loop over <block>.code
    maps = set()
    for n in ast.walk(fn):
      if isinstance(n, ast.Assign) and len(n.targets) == 1 and \
          isinstance(n.targets[0], ast.Subscript) and isinstance(n.targets[0].value, ast.Name) \
          and isinstance(n.targets[0].slice, ast.Name):
        cur, opv = n, n.targets[0].slice.id
        while cur in mod.parent and cur is not fn:
          cur = mod.parent[cur]
          if isinstance(cur, ast.For) and dotted(cur.target) == opv \
              and src(cur.iter).endswith(".code"):
            maps.add(n.targets[0].value.id)
    attrs = set()
    for n in ast.walk(fn):
      if isinstance(n, ast.Subscript) and isinstance(n.ctx, ast.Load) \
          and isinstance(n.value, ast.Name) and n.value.id in maps \
          and isinstance(n.slice, ast.Attribute):
        attrs.add(n.slice.attr)
    if len(attrs) != 1:
      raise AnalysisError(f"{fn.name}: the instruction that names the merged block is not "
                          f"understood (op->block lookups through {sorted(attrs)})")
    out.append((fn, attrs.pop(), merges[0]))
  return out


def _producer(ctx, omod, attr):
  """The assignment `<op>.<attr> = offset_to_op[e.target]` and the classes the
  range start is tested against."""
  sites = []
  for fn in omod.functions.values():
    for n in walk_no_nested(fn):
      if isinstance(n, ast.Assign) and len(n.targets) == 1 and \
          isinstance(n.targets[0], ast.Attribute) and n.targets[0].attr == attr:
        sites.append((fn, n))
  if len(sites) != 1:
    raise AnalysisError(f"{OPC}: expected one assignment of .{attr} outside Opcode.__init__, "
                        f"found {len(sites)}")
  fn, st = sites[0]
  v = st.value
  if not (isinstance(v, ast.Subscript) and isinstance(v.slice, ast.Attribute)
          and v.slice.attr == "target" and isinstance(v.slice.value, ast.Name)):
    raise AnalysisError(f"{fn.name}: .{attr} = {src(v)} is not `<offset map>[<entry>.target]`")
  entry, omap = v.slice.value.id, src(v.value)
  loops = []
  cur = st
  while cur in omod.parent and cur is not fn:
    cur = omod.parent[cur]
    if isinstance(cur, ast.For) and dotted(cur.target) == entry:
      loops.append(cur)
  if len(loops) != 1 or not src(loops[0].iter).endswith(".entries"):
    raise AnalysisError(f"{fn.name}: `{entry}` does not iterate an exception table's entries")
  starts = set()
  for t, pol in flow.guards(omod.parent, st):
    for c in [t] + (t.values if isinstance(t, ast.BoolOp) and isinstance(t.op, ast.And) else []):
      if pol and isinstance(c, ast.Call) and dotted(c.func) == "isinstance" and len(c.args) == 2 \
          and src(c.args[0]) == f"{omap}[{entry}.start]":
        starts |= O.class_names(ctx, omod, c.args[1]) or set()
  # an early `continue` under the negated test
  for n in ast.walk(loops[0]):
    if isinstance(n, ast.If):
      for c in [n.test] + (n.test.values if isinstance(n.test, ast.BoolOp) else []):
        if isinstance(c, ast.Call) and dotted(c.func) == "isinstance" and len(c.args) == 2 \
            and src(c.args[0]) == f"{omap}[{entry}.start]" and st in list(ast.walk(n)):
          starts |= O.class_names(ctx, omod, c.args[1]) or set()
  if not starts:
    raise AnalysisError(f"{fn.name}: the class of the range start is not tested")
  return fn, st, starts


_ASYNC_SAMPLES = [
    "async def f(a):\n  async for x in a:\n    pass\n",
    "async def f(a):\n  async for x in a:\n    y = x\n  else:\n    y = 0\n  return y\n",
    "async def f(a, c):\n  async for x in a:\n    if c:\n      break\n    async for z in x:\n      continue\n  return 1 if c else 's'\n",
    "async def f(a):\n  return [x async for x in a]\n",
    "async def f(a):\n  try:\n    async for x in a:\n      pass\n  finally:\n    pass\n",
]


def _host_handlers(start_names):
  """Opcode names CPython's compiler puts at the handler target of a range
  that starts at one of start_names (host interpreter = reference)."""
  import dis
  found = set()
  n_ranges = 0

  def walk(code):
    nonlocal n_ranges
    ins = {i.offset: i for i in dis.get_instructions(code)}
    for e in dis.Bytecode(code).exception_entries:
      if e.start in ins and ins[e.start].opname in start_names:
        n_ranges += 1
        found.add(ins[e.target].opname)
    for c in code.co_consts:
      if hasattr(c, "co_code"):
        walk(c)

  for s in _ASYNC_SAMPLES:
    walk(compile(s, "<ref>", "exec"))
  return found, n_ranges


@rule("R16.20", "C16", floor=3)
def r16_20(ctx):
  """An instruction whose block is merged and exempted from edges ends its block."""
  tab = O.opcode_table(ctx)
  bmod = get_module(ctx, BLOCKS)
  omod = get_module(ctx, OPC)
  consumers = _merge_consumers(bmod)
  if not consumers:
    raise AnalysisError(f"{BLOCKS}: no pass that merges whole blocks and marks them processed")
  # compute_order must really skip processed blocks (otherwise the premise is gone)
  co = bmod.func("compute_order")
  skips = [n for n in ast.walk(co) if isinstance(n, ast.If) and isinstance(n.test, ast.Compare)
           and isinstance(n.test.ops[0], ast.In) and "processed" in src(n.test.comparators[0])
           and any(isinstance(x, ast.Continue) for x in n.body)]
  if not skips:
    raise AnalysisError("compute_order no longer skips processed blocks; re-derive R16.20")
  helpers = tab.helpers()
  disj, closer = _closing_disjuncts(bmod, set(helpers))
  closing = [h for h in disj if h in helpers]
  if not closing:
    raise AnalysisError("_split_bytecode: no flag helper among the block-closing disjuncts")
  host_v = sys.version_info[:2]
  if host_v != O.VERSIONS[-1]:
    raise AnalysisError(f"host interpreter {host_v} is not the reference version {O.VERSIONS[-1]}")
  for fn, attr, merge in consumers:
    ctx.ok(f"{fn.name}:merges-block-of:{attr}", BLOCKS, merge.lineno,
           {"merge": src(merge), "skipped_by": "compute_order: processed_blocks"})
    pfn, pst, starts = _producer(ctx, omod, attr)
    ctx.ok(f"{pfn.name}:{attr}:handler-of:{'/'.join(sorted(starts))}", OPC, pst.lineno,
           {"value": src(pst.value)})
    names, n_ranges = _host_handlers(starts)
    if not names or n_ranges < len(_ASYNC_SAMPLES):
      raise AnalysisError(f"reference: the host compiler produced {n_ranges} ranges starting at "
                          f"{sorted(starts)} (handlers {sorted(names)})")
    for name in sorted(names):
      if name not in tab.opcode_classes:
        raise AnalysisError(f"{OPC}: no class for handler opcode {name}")
      oc = tab.resolve(name, host_v)
      holds = {h: bool(helpers[h][0](oc.flags)) for h in closing}
      ctx.check(any(holds.values()), f"singleton-block:{name}@{host_v[0]}.{host_v[1]}", OPC, oc.line,
                f"{name} is the instruction at `{attr}` (handler of the "
                f"{'/'.join(sorted(starts))} range); {fn.name} merges the whole block that "
                "contains it into the loop body and marks the result processed, so "
                "compute_order adds no edge for the instruction that ends that block - but "
                f"{name} does not close its basic block in _split_bytecode "
                f"({', '.join(f'{h}()={v}' for h, v in holds.items())}): the block also holds "
                "the code after the loop, and when that ends in a branch its jump target "
                "never becomes a successor (a reachable block is missing from the order)",
                {"flags": [c for c, b in tab.consts.items() if oc.flags & b], "closing": holds})


# -- R16.21 --------------------------------------------------------------------------

def _single_def(fn, name):
  defs = [n for n in walk_no_nested(fn) if isinstance(n, ast.Assign)
          and any(isinstance(t, ast.Name) and t.id == name for t in n.targets)]
  return defs[0].value if len(defs) == 1 else None


def _is_code_test(test, var):
  """`hasattr(var, 'co_...')` / `isinstance(var, ...Code...)`."""
  if isinstance(test, ast.Call) and dotted(test.func) == "hasattr" and len(test.args) == 2 \
      and dotted(test.args[0]) == var and isinstance(test.args[1], ast.Constant) \
      and str(test.args[1].value).startswith("co_"):
    return True
  if isinstance(test, ast.Call) and dotted(test.func) == "isinstance" and len(test.args) == 2 \
      and dotted(test.args[0]) == var and "Code" in src(test.args[1]):
    return True
  return False


@rule("R16.21", "C16", floor=1)
def r16_21(ctx):
  """Code constants and DisassembledCode.children are paired by position."""
  mod = get_module(ctx, BLOCKS)
  fn = mod.func("_process")
  dis = fn.args.args[0].arg
  rec = [c for c in calls_in(fn) if dotted(c.func) == fn.name]
  if len(rec) != 1 or not rec[0].args:
    raise AnalysisError(f"_process: expected one recursive call, found {len(rec)}")
  call = rec[0]
  st = mod.enclosing_stmt(call)
  # the loop over the constants
  loop = None
  cur = st
  while cur in mod.parent and cur is not fn:
    cur = mod.parent[cur]
    if isinstance(cur, ast.For):
      loop = cur
      break
  if loop is None:
    raise AnalysisError("_process: the recursive call is not inside a loop over the constants")
  it = loop.iter
  if isinstance(it, ast.Call) and dotted(it.func) == "enumerate" and it.args:
    it = it.args[0]
    cvar = dotted(loop.target.elts[1]) if isinstance(loop.target, ast.Tuple) else None
  else:
    cvar = dotted(loop.target)
  seq = it
  if isinstance(seq, ast.Name):
    seq = _single_def(fn, seq.id) or seq
  if f"{dis}.code.co_consts" not in src(seq) or cvar is None:
    raise AnalysisError(f"_process: the loop `{src(loop.iter)}` does not walk {dis}.code.co_consts")
  if any(isinstance(n, ast.Call) and dotted(n.func) in ("reversed", "sorted", "set", "frozenset")
         for n in ast.walk(seq)) or any(
             isinstance(n, ast.Call) and dotted(n.func) in ("reversed", "sorted")
             for n in ast.walk(loop.iter)):
    raise AnalysisError(f"_process: the constants are not walked in co_consts order: {src(seq)}")
  in_loop = {id(x) for x in ast.walk(loop)}
  inner = []
  todo = [(t, p) for t, p in flow.guards(mod.parent, st, stop=loop) if id(t) in in_loop]
  while todo:
    t, p = todo.pop(0)
    if isinstance(t, ast.UnaryOp) and isinstance(t.op, ast.Not):
      todo.insert(0, (t.operand, not p))
    elif isinstance(t, ast.BoolOp) and isinstance(t.op, ast.And if p else ast.Or):
      todo[0:0] = [(v, p) for v in t.values]
    else:
      inner.append((t, p))
  code_tests = [(t, p) for t, p in inner if _is_code_test(t, cvar) and p]
  extra = [(src(t), p) for t, p in inner if not (_is_code_test(t, cvar) and p)]
  if not code_tests:
    raise AnalysisError("_process: the recursive call is not guarded by an is-a-code-object test")
  child = call.args[0]
  facts = {"child": src(child), "loop": src(loop.iter), "extra_guards": extra}
  key = "_process:children-paired-positionally"
  # (1) next(<iterator over dis.children>)
  if isinstance(child, ast.Call) and dotted(child.func) == "next" and len(child.args) == 1 \
      and isinstance(child.args[0], ast.Name):
    itn = child.args[0].id
    d = _single_def(fn, itn)
    ok_iter = isinstance(d, ast.Call) and dotted(d.func) == "iter" and len(d.args) == 1 \
        and src(d.args[0]) == f"{dis}.children"
    if not ok_iter:
      raise AnalysisError(f"_process: `{itn}` is not iter({dis}.children): {d and src(d)}")
    others = [c for c in calls_in(fn) if dotted(c.func) == "next" and c.args
              and dotted(c.args[0]) == itn and c is not child]
    uses = [n for n in ast.walk(fn) if isinstance(n, ast.Name) and n.id == itn
            and isinstance(n.ctx, ast.Load) and n is not child.args[0]]
    if others or uses:
      ctx.bad(key, BLOCKS, call.lineno,
              f"the iterator over {dis}.children is advanced/consumed in more than one place "
              f"({[src(x)[:40] for x in others + uses]}): children and code constants get out "
              "of step", facts)
      return
    ctx.check(not extra, key, BLOCKS, call.lineno,
              f"the child iterator is advanced only under {extra} in addition to the "
              "is-a-code-object test: a code constant that skips the call leaves every later "
              "constant paired with the wrong child", facts)
    return
  # (2) keyed lookup: M[key] / M.get(key) with M built from dis.children
  base = keyexpr = None
  if isinstance(child, ast.Subscript) and isinstance(child.value, ast.Name):
    base, keyexpr = child.value.id, child.slice
  elif isinstance(child, ast.Call) and isinstance(child.func, ast.Attribute) \
      and child.func.attr == "get" and isinstance(child.func.value, ast.Name) and child.args:
    base, keyexpr = child.func.value.id, child.args[0]
  elif isinstance(child, ast.Name):
    d = _single_def(fn, child.id)
    if isinstance(d, ast.Subscript) and isinstance(d.value, ast.Name):
      base, keyexpr = d.value.id, d.slice
    elif isinstance(d, ast.Call) and isinstance(d.func, ast.Attribute) and d.func.attr == "get" \
        and isinstance(d.func.value, ast.Name) and d.args:
      base, keyexpr = d.func.value.id, d.args[0]
    elif isinstance(d, ast.Call) and isinstance(d.func, ast.Attribute) \
        and d.func.attr == "get_child" and dotted(d.func.value) == dis:
      ctx.bad(key, BLOCKS, call.lineno,
              f"the child is looked up by name ({src(d)}): get_child returns the FIRST child "
              "with that name, so same-named siblings (lambdas, genexprs, redefinitions) all "
              "receive the first one's block graph", facts)
      return
  if isinstance(child, ast.Call) and isinstance(child.func, ast.Attribute) \
      and child.func.attr == "get_child" and dotted(child.func.value) == dis:
    ctx.bad(key, BLOCKS, call.lineno,
            f"the child is looked up by name ({src(child)}): get_child returns the FIRST child "
            "with that name, so same-named siblings (lambdas, genexprs, redefinitions) all "
            "receive the first one's block graph", facts)
    return
  if base is not None:
    m = _single_def(fn, base)
    built_from_children = m is not None and f"{dis}.children" in src(m)
    if built_from_children and isinstance(m, (ast.DictComp, ast.Call)):
      kattrs = sorted({n.attr for n in ast.walk(keyexpr) if isinstance(n, ast.Attribute)})
      ident = any(isinstance(n, ast.Call) and dotted(n.func) == "id" for n in ast.walk(keyexpr))
      positional = isinstance(m, ast.DictComp) and any(
          isinstance(n, ast.Call) and dotted(n.func) == "enumerate" for n in ast.walk(m))
      if ident or positional or not kattrs:
        raise AnalysisError(f"_process: keyed pairing `{src(child)}` over `{src(m)[:80]}` "
                            "(identity / index keys) is not understood")
      facts.update({"mapping": src(m)[:120], "key": src(keyexpr), "key_attributes": kattrs})
      ctx.bad(key, BLOCKS, call.lineno,
              f"the child for a code constant is looked up through a mapping over "
              f"{dis}.children keyed by `{src(keyexpr)}` (attributes {kattrs}); such a key is "
              "not unique among sibling code objects (two lambdas or generator expressions on "
              "one line share name and first line), the dict keeps one child per key, so one "
              "child is processed twice and the other never becomes a block graph; "
              f"{dis}.children and the code constants are parallel sequences and must be "
              "paired by position", facts)
      return
  # (3) zip of the two sequences: the loop itself pairs them
  if isinstance(child, ast.Name) and isinstance(loop.iter, ast.Call) \
      and dotted(loop.iter.func) == "zip" and any(src(a) == f"{dis}.children"
                                                  for a in loop.iter.args):
    raise AnalysisError("_process: zip-based pairing is not understood (are non-code "
                        "constants filtered on the other side?)")
  raise AnalysisError(f"_process: how `{src(child)}` is chosen for a code constant is not understood")


_PROC_OLD = ("    children = iter(dis_code.children)\n"
             "    new_consts = list(dis_code.code.co_consts)\n"
             "    for i, c in enumerate(new_consts):\n"
             "      if hasattr(c, \"co_consts\"):\n"
             "        # This is a CodeType object (because it has co_consts).\n"
             "        new_consts[i] = _process(next(children), block_graph)\n")

VARIANTS = [
    {"name": "seeded-C16-r2m1", "rule": "R16.20", "patch": "seeded/C16-r2m1/patch.diff",
     "expect": "fire"},
    # different shape: the flag is still there but neutralised by STORE_JUMP
    {"name": "end-async-for-store-jump", "rule": "R16.20", "file": OPC, "expect": "fire",
     "old": "  # that fail if we add NO_NEXT.\n  _FLAGS = HAS_JUNKNOWN\n",
     "new": "  # that fail if we add NO_NEXT.\n  _FLAGS = HAS_JUNKNOWN | STORE_JUMP\n"},
    # different shape: the splitter stops closing blocks after unknown jumps
    {"name": "splitter-ignores-does-jump", "rule": "R16.20", "file": BLOCKS, "expect": "fire",
     "old": "        op.no_next()\n        or op.does_jump()\n        or op.pops_block()\n",
     "new": "        op.no_next()\n        or op.has_known_jump()\n        or op.pops_block()\n"},
    {"name": "twin-end-async-for-flag-spelling", "rule": "R16.20", "file": OPC, "expect": "silent",
     "old": "  # that fail if we add NO_NEXT.\n  _FLAGS = HAS_JUNKNOWN\n  __slots__ = ()\n",
     "new": "  # that fail if we add NO_NEXT.\n  __slots__ = ()\n  _FLAGS = 0 | HAS_JUNKNOWN\n"},
    {"name": "twin-merge-pass-locals-renamed", "rule": "R16.20", "expect": "silent",
     "edits": [(BLOCKS, "  op_to_block = {}\n  merge_list = []\n  for block_idx, block in enumerate(blocks):\n    for code in block.code:\n      op_to_block[code] = block_idx\n",
                "  where = {}\n  merge_list = []\n  for n, blk in enumerate(blocks):\n    for ins in blk.code:\n      where[ins] = n\n"),
               (BLOCKS, "        merge_list.append((block_idx, op_to_block[code.end_async_for_target]))",
                "        merge_list.append((block_idx, where[code.end_async_for_target]))")]},
    {"name": "seeded-C16-r2m2", "rule": "R16.21", "patch": "seeded/C16-r2m2/patch.diff",
     "expect": "fire"},
    # different shape: lookup by name through pycnite's get_child
    {"name": "process-child-by-name", "rule": "R16.21", "file": BLOCKS, "expect": "fire",
     "old": "        new_consts[i] = _process(next(children), block_graph)\n",
     "new": "        new_consts[i] = _process(dis_code.get_child(c.co_name), block_graph)\n"},
    # different shape: the iterator is advanced only for some code constants
    {"name": "process-skips-some-code-constants", "rule": "R16.21", "file": BLOCKS, "expect": "fire",
     "old": "      if hasattr(c, \"co_consts\"):\n        # This is a CodeType object (because it has co_consts).\n",
     "new": "      if hasattr(c, \"co_consts\") and c.co_name != \"<lambda>\":\n        # This is a CodeType object (because it has co_consts).\n"},
    {"name": "twin-process-isinstance-test", "rule": "R16.21", "file": BLOCKS, "expect": "silent",
     "old": _PROC_OLD,
     "new": ("    kids = iter(dis_code.children)\n"
             "    new_consts = list(dis_code.code.co_consts)\n"
             "    for idx, const in enumerate(new_consts):\n"
             "      if not hasattr(const, \"co_code\"):\n"
             "        continue\n"
             "      new_consts[idx] = _process(next(kids), block_graph)\n")},
    {"name": "twin-process-no-enumerate", "rule": "R16.21", "file": BLOCKS, "expect": "silent",
     "old": _PROC_OLD,
     "new": ("    children = iter(dis_code.children)\n"
             "    new_consts = []\n"
             "    for c in dis_code.code.co_consts:\n"
             "      if hasattr(c, \"co_consts\"):\n"
             "        c = _process(next(children), block_graph)\n"
             "      new_consts.append(c)\n")},
    {"name": "process-pairs-by-identity", "rule": "R16.21", "file": BLOCKS, "expect": "error",
     "old": _PROC_OLD,
     "new": ("    children = {id(ch.code): ch for ch in dis_code.children}\n"
             "    new_consts = list(dis_code.code.co_consts)\n"
             "    for i, c in enumerate(new_consts):\n"
             "      if hasattr(c, \"co_consts\"):\n"
             "        new_consts[i] = _process(children[id(c)], block_graph)\n")},
]
