"""C13/C02 extension: a keyword that names a positional-only parameter binds
to **kwargs - in the stub binder it must then be checked against **kwargs'
value type like any other extra keyword.

`PyTDSignature._map_args` skips such a keyword when filling the name->argument
map (correct: it must not bind the positional-only parameter) and computes the
extra keywords as `kws - {all parameter names}`, which also excludes it.  The
keyword therefore never reaches the formal list matched against the
`**kw: T` element type: `def f(x: int, /, **kw: str)` called as `f(1, x=2)`
is accepted although CPython hands `{'x': 2}` to a `**kw: str`.
"""
import ast

from sa.core import rule, AnalysisError
from sa.pyindex import get_module, dotted, src, walk_no_nested
from rules import c13 as C13

PF = "pytype/abstract/_pytd_function.py"


@rule("R13.20", "C13", floor=1)
def r13_20(ctx):
  """Positional-only-named keywords are matched against the **kwargs type."""
  # the stub binder as R13.1 sees it: PyTDSignature._map_args resolved along the
  # module-local MRO, with the self-helpers it was split into inlined
  binder = C13._binders(ctx)[1]
  found = []
  for q, fn in binder.fns:
    # the local holding the **kwargs value type: bound from an expression that
    # reads <signature>.kwargs_name
    ktypes = {n.targets[0].id for n in walk_no_nested(fn)
              if isinstance(n, ast.Assign) and len(n.targets) == 1
              and isinstance(n.targets[0], ast.Name)
              and any(isinstance(x, ast.Attribute) and x.attr == "kwargs_name"
                      for x in ast.walk(n.value))}
    for n in walk_no_nested(fn):
      if not isinstance(n, ast.For):
        continue
      appends = [c for st in n.body for c in ast.walk(st)
                 if isinstance(c, ast.Call) and isinstance(c.func, ast.Attribute)
                 and c.func.attr == "append"
                 and any(isinstance(x, ast.Name) and x.id in ktypes
                         for x in ast.walk(c))]
      if appends:
        found.append((q, fn, n))
  if len(found) != 1:
    raise AnalysisError(
        "PyTDSignature._map_args: the loop that appends (name, **kwargs value "
        f"type) formals was found {len(found)} times")
  q, fn, loop = found[0]
  canon = C13._Canon(binder, q, fn)
  it = loop.iter
  sc = canon.set_class(it, loop)
  if sc not in ("extra", "extra+posonly-kw"):
    raise AnalysisError(
        f"**kwargs formal loop iterates `{src(it)}` (classified {sc}): "
        "provenance not understood")
  ctx.check(sc == "extra+posonly-kw",
            "PyTDSignature._map_args:posonly-keyword-checked-against-kwargs",
            PF, loop.lineno,
            f"the keywords matched against the **kwargs value type are `{src(it)}` "
            "= the passed keywords minus every parameter name; a keyword that "
            "names a positional-only parameter goes to **kwargs at run time "
            "but is neither bound nor type-checked",
            {"iter": src(it), "iterates": sc})


VARIANTS = [
    {"name": "twin-posonly-keywords-included", "rule": "R13.20", "file": PF, "expect": "silent",
     "old": "      for name in sorted(extra_kwargs):\n",
     "new": "      for name in sorted(extra_kwargs | posonly_kwargs):\n"},
]
