"""C13/C02 extension: a keyword that names a positional-only parameter binds
to **kwargs - in the stub binder it must then be checked against **kwargs'
value type like any other extra keyword.

`PyTDSignature._map_args` skips such a keyword when filling the name->argument
map (correct: it must not bind the positional-only parameter) and computes the
extra keywords as `kws - {all parameter names}`, which also excludes it.  The
keyword therefore never reaches the formal list matched against the
`**kw: T` element type: `def f(x: int, /, **kw: str)` called as `f(1, x=2)`
is accepted although CPython hands `{'x': 2}` to a `**kw: str`.
"""
import ast

from sa.core import rule, AnalysisError
from sa.pyindex import get_module, dotted, src

PF = "pytype/abstract/_pytd_function.py"


@rule("R13.20", "C13", floor=1)
def r13_20(ctx):
  """Positional-only-named keywords are matched against the **kwargs type."""
  mod = get_module(ctx, PF)
  fn = mod.func("PyTDSignature._map_args")
  # the loop that appends (name, <kwargs value type>) to formal_args
  loops = []
  for n in ast.walk(fn):
    if isinstance(n, ast.For):
      body = " ".join(src(s) for s in n.body)
      if "formal_args.append" in body and "kwargs_type" in body:
        loops.append(n)
  if len(loops) != 1:
    raise AnalysisError("PyTDSignature._map_args: **kwargs formal loop not found")
  it = loops[0].iter
  inner = it.args[0] if isinstance(it, ast.Call) and dotted(it.func) == "sorted" and it.args else it
  names = {x.id for x in ast.walk(inner) if isinstance(x, ast.Name)}
  # resolve one level of locals
  defs = {}
  for n in ast.walk(fn):
    if isinstance(n, ast.Assign) and len(n.targets) == 1 and isinstance(n.targets[0], ast.Name):
      defs.setdefault(n.targets[0].id, []).append(n.value)
  def expand(name, depth=0):
    out = {name}
    if depth < 3:
      for v in defs.get(name, []):
        for x in ast.walk(v):
          if isinstance(x, ast.Name) and x.id != name:
            out |= expand(x.id, depth + 1)
        out.add(src(v))
    return out
  reach = set()
  for nm in names:
    reach |= expand(nm)
  # does the iterated set include the positional-only-named keywords?
  includes_posonly = any("posonly" in r for r in reach)
  excludes_all_params = any("p.name for p in self.pytd_sig.params" in r for r in reach)
  if not excludes_all_params and not includes_posonly:
    raise AnalysisError(f"**kwargs formal loop iterates `{src(it)}`: provenance not understood")
  ctx.check(includes_posonly, "PyTDSignature._map_args:posonly-keyword-checked-against-kwargs",
            PF, loops[0].lineno,
            f"the keywords matched against the **kwargs value type are `{src(it)}` "
            "= the passed keywords minus every parameter name; a keyword that "
            "names a positional-only parameter goes to **kwargs at run time "
            "but is neither bound nor type-checked",
            {"iter": src(it)})


VARIANTS = [
    {"name": "twin-posonly-keywords-included", "rule": "R13.20", "file": PF, "expect": "silent",
     "old": "      for name in sorted(extra_kwargs):\n",
     "new": "      for name in sorted(extra_kwargs | posonly_kwargs):\n"},
]
