"""C14 extension (round 5): two obligations of the builtin call path.

R14.50  A memo on the call path of a builtin function is keyed by everything
        its value depends on.  Whether a call matches a stub signature is
        decided by the matcher from the *full* type of every argument (the
        contents of a container argument: `", ".join([1])` fails,
        `", ".join(["a"])` does not), from the CFG node (which bindings are
        visible) and from the matching mode.  A memo in the modules through
        which a call reaches the matcher (abstract/_pytd_function.py,
        abstract/function.py, abstract/_function_base.py) - a container a
        function both stores into and looks up under the same key - therefore
          (a) if the container lives on `self` (it outlives the call): has a
              key in which every parameter the function reads occurs, and
          (b) holds each argument-derived key component either as the object
              itself (identity; reached through structure only: `.data`,
              `.bindings`, `.posargs` .., iteration, tuple/frozenset/id) or as
              its `get_type_key()` (pytype's deep type key, which includes the
              type parameters).  A component that passes through `.cls`,
              `type(..)`, `.name`, `len(..)` .. is shared by arguments the
              matcher tells apart: the memo hands one call's verdict to
              another (a false alarm on clean code, or a missed error).
        For a container that is a local or a parameter the memo's lifetime is
        bounded by a caller's frame; which inputs are constant during it is
        not decided, only (b) is.  Memos realised as sets (`K in S` /
        `S.add(K)`: the matcher's cycle guards) are not result caches and are
        out of scope; matcher.py itself is not scanned (its
        `_recursive_annots_cache` is a cycle guard that is deliberately keyed
        by (value, type) only).

R14.51  A native operator slot that delegates to the stub returns without the
        stub's check only where the argument's type was tested.  The classes
        of pytype/abstract/ that model builtin containers override operator
        dunders (`__getitem__`, `__add__`, ..) with Python methods
        (`set_native_slot`) to compute precise results for constants, and
        call `self.call_pytd(node, "<dunder>", ..)` - the stub method, whose
        signature check is what reports `(1, 2)["a"]`/`(1, 2)[len]` - for the
        rest.  Obligation: every `return` of such a slot is (i) preceded on
        every path by the `call_pytd` of its own dunder (or returns it), or
        (ii) reached only after a typed conversion of the argument completed
        (`value_to_constant(x, T)`, `get_atomic_python_constant(x, T)` - they
        raise ConversionError for other types), or (iii) guarded by a
        positive `isinstance(<argument-derived>, T)`.  Whether T is exactly
        what the stub accepts is not decided (R14.5 compares the stub with
        CPython).
"""
import ast

from sa.core import rule, AnalysisError
from sa.pyindex import get_module, dotted, src, all_py_files, walk_no_nested
from sa import flow
from rules import c14_location_keys as L

# ----------------------------------------------------------------------------
# R14.50
# ----------------------------------------------------------------------------
CALL_PATH = ("pytype/abstract/_pytd_function.py", "pytype/abstract/function.py",
             "pytype/abstract/_function_base.py")
# structure: from an Args / Variable / Binding / view to the values it holds
# (`.subst`/`.view` of a GoodMatch: the substitution a return type is instantiated
# with *is* the input of the return-value map of PyTDSignature.call_with_args)
_NAV_ATTRS = frozenset({"data", "bindings", "posargs", "namedargs", "starargs",
                        "starstarargs", "variable", "subst", "view"})
_NAV_METHODS = frozenset({"values", "items"})
_PASS_CALLS = frozenset({"tuple", "frozenset", "sorted", "list", "set", "id"})
_FULL_KEY = "get_type_key"
# projections under which distinct abstract values coincide
_LOSSY_ATTRS = frozenset({"cls", "name", "full_name", "__class__", "__name__",
                          "base_cls", "pytd_cls", "official_name"})
_LOSSY_CALLS = frozenset({"type", "len", "str", "repr", "bool", "isinstance"})


def _params(fn):
  a = fn.args
  names = [x.arg for x in a.posonlyargs + a.args + a.kwonlyargs]
  if a.vararg:
    names.append(a.vararg.arg)
  if a.kwarg:
    names.append(a.kwarg.arg)
  return [n for n in names if n not in ("self", "cls")]


def _local_names(fn):
  return {n.id for n in ast.walk(fn) if isinstance(n, ast.Name)
          and isinstance(n.ctx, ast.Store)}


def _target_names(t):
  return {n.id for n in ast.walk(t) if isinstance(n, ast.Name)}


class _Key:
  """Resolution of a memo key to (parameter, steps) leaves."""

  def __init__(self, F):
    self.F = F
    self.params = set(_params(F.fn))
    self.locals = _local_names(F.fn)

  def touches(self, e, env):
    return any(isinstance(n, ast.Name) and isinstance(n.ctx, ast.Load) and
               (n.id in self.params or n.id in env or n.id in self.locals)
               for n in ast.walk(e))

  def refuse(self, e):
    raise AnalysisError(f"{self.F.qual()}: the memo key component `{src(e)[:80]}` is "
                        "derived from an argument in a way that is not understood")

  def leaves(self, e, stmt, env, steps=(), depth=0):
    if depth > 14:
      raise AnalysisError(f"{self.F.qual()}: memo key computed through too many steps")
    rec = lambda x, st=steps, s=stmt, en=env: self.leaves(x, s, en, st, depth + 1)
    if isinstance(e, ast.Constant):
      return []
    if isinstance(e, (ast.Tuple, ast.List, ast.Set)):
      return [l for x in e.elts for l in rec(x)]
    if isinstance(e, ast.Starred):
      return rec(e.value)
    if isinstance(e, ast.IfExp):
      return rec(e.body) + rec(e.orelse)
    if isinstance(e, ast.BoolOp):
      return [l for x in e.values for l in rec(x)]
    if isinstance(e, ast.NamedExpr):
      return rec(e.value)
    if isinstance(e, (ast.GeneratorExp, ast.ListComp, ast.SetComp)):
      env2 = dict(env)
      for g in e.generators:
        bound = (g.iter, dict(env2))
        for nm in _target_names(g.target):
          env2[nm] = bound
      return self.leaves(e.elt, stmt, env2, steps, depth + 1)
    if isinstance(e, ast.Subscript):
      return rec(e.value) + rec(e.slice)
    if isinstance(e, ast.Call):
      fn = dotted(e.func)
      if fn in _PASS_CALLS and len(e.args) == 1 and not e.keywords:
        return rec(e.args[0])
      if fn in _LOSSY_CALLS and e.args:
        return rec(e.args[0], steps + (f"{fn}(..)",))
      if isinstance(e.func, ast.Attribute) and not e.args and not e.keywords:
        if e.func.attr == _FULL_KEY:
          return rec(e.func.value, steps + ("=typekey",))
        if e.func.attr in _NAV_METHODS:
          return rec(e.func.value)
      if self.touches(e, env):
        self.refuse(e)
      return []
    if isinstance(e, ast.Attribute):
      d = dotted(e)
      if d and d.split(".")[0] in ("self", "cls"):
        return []  # state of the object that owns the memo
      if e.attr in _NAV_ATTRS:
        return rec(e.value)
      if e.attr in _LOSSY_ATTRS:
        return rec(e.value, steps + (f".{e.attr}",))
      if self.touches(e, env):
        self.refuse(e)
      return []
    if isinstance(e, ast.Name):
      if e.id in env:
        it, env_at = env[e.id]
        return self.leaves(it, stmt, env_at, steps, depth + 1)
      defs = L._defs(self.F, stmt, e.id)
      if not defs:
        return [(e.id, steps)] if e.id in self.params else []
      out = []
      for d in defs:
        v = L._bound_value(d, e.id)
        if v is not None:
          out += self.leaves(v, d, {}, steps, depth + 1)
        elif isinstance(d, (ast.For, ast.AsyncFor)) and e.id in _target_names(d.target):
          out += self.leaves(d.iter, d, {}, steps, depth + 1)
        elif isinstance(d, ast.arg):
          out.append((e.id, steps))
        elif any(isinstance(n, ast.Name) and n.id in self.params for n in ast.walk(d)):
          raise AnalysisError(f"{self.F.qual()}: `{e.id}` (part of a memo key) is bound "
                              f"by {type(d).__name__}; not followed")
      return out
    if self.touches(e, env):
      self.refuse(e)
    return []


def _container_kind(F, cont):
  root = cont.split(".")[0]
  if root == "self":
    return "self"
  if root in _params(F.fn):
    return "parameter"
  if root in _local_names(F.fn):
    return "local"
  # a closure variable of an enclosing function, or a module global
  cur = F.fn
  while cur in F.mod.parent:
    cur = F.mod.parent[cur]
    if isinstance(cur, (ast.FunctionDef, ast.AsyncFunctionDef)):
      if root in _local_names(cur) or root in _params(cur):
        return "local"
  return "global"


@rule("R14.50", "C14", floor=5)
def r14_50(ctx):
  """A memo on the builtin call path keys on every input, arguments whole or by type key."""
  n_sites = 0
  for rel in CALL_PATH:
    mod = get_module(ctx, rel)
    n_mod = 0
    for fn in ast.walk(mod.tree):
      if not isinstance(fn, (ast.FunctionDef, ast.AsyncFunctionDef)):
        continue
      F = L._Fn(mod, fn)
      sites = L._memo_sites(F)
      if not sites:
        continue
      K = _Key(F)
      for (cont, ktxt), kexpr in sorted(sites.items()):
        leaves = K.leaves(kexpr, F.stmt(kexpr), {})
        if not leaves:
          continue  # not keyed by an argument: not an argument memo
        n_mod += 1
        kind = _container_kind(F, cont)
        construct = f"{rel.removeprefix('pytype/')}:{F.qual()}:{cont}"
        roots = sorted({p for p, _ in leaves})
        shown = sorted({f"{p}{''.join(s for s in st if not s.startswith('='))}"
                        + (".get_type_key()" if "=typekey" in st else "")
                        for p, st in leaves})
        facts = {"container": cont, "lifetime": kind, "key": ktxt, "components": shown}
        lossy = sorted({f"{p}{''.join(s for s in st if not s.startswith('='))}"
                        for p, st in leaves if any(not s.startswith("=") for s in st)})
        if lossy:
          ctx.bad(construct, rel, kexpr.lineno,
                  f"{F.qual()} memoises in `{cont}` under a key that holds only the "
                  f"projection {lossy} of an argument: arguments the matcher tells apart "
                  "(a list of ints and a list of strs have one class) share the entry, so "
                  "the verdict computed for one call is handed to another - after "
                  "`', '.join([1, 2])` the valid `', '.join(['a'])` is reported too (or a "
                  "real error is missed in the reverse order).  Key on the values "
                  "themselves or on their get_type_key()", facts)
          continue
        if kind in ("self", "global"):
          read = {n.id for n in ast.walk(fn) if isinstance(n, ast.Name)
                  and isinstance(n.ctx, ast.Load)} & set(_params(fn))
          missing = sorted(read - set(roots))
          if missing:
            ctx.bad(construct, rel, kexpr.lineno,
                    f"{F.qual()} memoises in `{cont}`, which outlives the call, under a "
                    f"key made of {roots} only, but the memoised computation also reads "
                    f"{missing}: a later call that differs in {missing} (another CFG "
                    "node with other visible bindings, another matching mode) receives "
                    "the earlier call's result", facts | {"not_in_key": missing})
            continue
        ctx.ok(construct, rel, kexpr.lineno, facts)
    n_sites += n_mod
    ctx.ok(f"{rel.removeprefix('pytype/')}:argument-memos", rel, 1, {"sites": n_mod})


# ----------------------------------------------------------------------------
# R14.51
# ----------------------------------------------------------------------------
_OPERATOR_SLOTS = frozenset(
    {"__getitem__", "__neg__"} |
    {f"__{p}{o}__" for p in ("", "r") for o in ("add", "sub", "mul", "truediv")})
_TYPED_CONVERSIONS = frozenset({"value_to_constant", "get_atomic_python_constant"})
_DELEGATE = "call_pytd"


def _call_name(c):
  if isinstance(c.func, ast.Attribute):
    return c.func.attr
  if isinstance(c.func, ast.Name):
    return c.func.id
  return None


def _mentions(e, names):
  return any(isinstance(n, ast.Name) and n.id in names for n in ast.walk(e))


def _derived(fn, seeds):
  """Locals computed (transitively) from the slot's argument parameters."""
  names = set(seeds)
  changed = True
  while changed:
    changed = False
    for n in ast.walk(fn):
      tgt, val = None, None
      if isinstance(n, ast.Assign):
        tgt, val = n.targets, n.value
      elif isinstance(n, (ast.AnnAssign, ast.AugAssign)) and n.value is not None:
        tgt, val = [n.target], n.value
      elif isinstance(n, ast.NamedExpr):
        tgt, val = [n.target], n.value
      elif isinstance(n, (ast.For, ast.AsyncFor, ast.comprehension)):
        tgt, val = [n.target], n.iter
      if tgt is None or not _mentions(val, names):
        continue
      new = set().union(*(_target_names(t) for t in tgt)) - names
      if new:
        names |= new
        changed = True
  return names


def _is_delegation(c, slot):
  return (_call_name(c) == _DELEGATE and isinstance(c.func, ast.Attribute)
          and len(c.args) >= 2 and isinstance(c.args[1], ast.Constant)
          and c.args[1].value == slot)


def _is_typed_conversion(c, derived):
  if _call_name(c) not in _TYPED_CONVERSIONS or not c.args:
    return False
  typ = c.args[1] if len(c.args) >= 2 else next(
      (k.value for k in c.keywords if k.arg == "constant_type"), None)
  if typ is None or (isinstance(typ, ast.Constant) and typ.value is None):
    return False
  return _mentions(c.args[0], derived)


def _atoms(test, pol):
  """Conjuncts known to hold: [(atom, polarity)]."""
  while isinstance(test, ast.UnaryOp) and isinstance(test.op, ast.Not):
    test, pol = test.operand, not pol
  if isinstance(test, ast.BoolOp) and isinstance(test.op, ast.And if pol else ast.Or):
    return [a for v in test.values for a in _atoms(v, pol)]
  return [(test, pol)]


def _isinstance_of_arg(mod, fn, atom, derived, depth=0):
  if isinstance(atom, ast.Call) and dotted(atom.func) == "isinstance" and \
      len(atom.args) == 2:
    return _mentions(atom.args[0], derived)
  if isinstance(atom, ast.Name) and depth < 3:
    defs = [n for n in ast.walk(fn) if isinstance(n, ast.Assign) and
            any(isinstance(t, ast.Name) and t.id == atom.id for t in n.targets)]
    if len(defs) == 1:
      return _isinstance_of_arg(mod, fn, defs[0].value, derived, depth + 1)
  return False


def _failed_conversion_handler(mod, ret, fn, derived):
  """The except-handler `ret` lies in, if its try body examines the argument."""
  cur = ret
  while cur in mod.parent and cur is not fn:
    par = mod.parent[cur]
    if isinstance(cur, ast.ExceptHandler) and isinstance(par, ast.Try):
      if any(_mentions(s, derived) for s in par.body):
        return cur
    cur = par
  return None


def _native_slots(mod):
  """[(class, slot name, method def, line)] for set_native_slot("<op>", self.m)."""
  out = []
  for cls in ast.walk(mod.tree):
    if not isinstance(cls, ast.ClassDef):
      continue
    meths = {s.name: s for s in cls.body if isinstance(s, ast.FunctionDef)}
    for m in meths.values():
      for c in ast.walk(m):
        if isinstance(c, ast.Call) and _call_name(c) == "set_native_slot" and c.args:
          if not (isinstance(c.args[0], ast.Constant) and isinstance(c.args[0].value, str)):
            raise AnalysisError(f"{cls.name}: set_native_slot with a computed name")
          name = c.args[0].value
          if name not in _OPERATOR_SLOTS:
            continue
          tgt = dotted(c.args[1]) if len(c.args) > 1 else None
          if not tgt or not tgt.startswith("self.") or tgt.count(".") != 1:
            raise AnalysisError(f"{cls.name}: slot {name} is not bound to a method of self")
          impl = meths.get(tgt.split(".")[1])
          if impl is None:
            continue  # inherited implementation: decided where it is defined
          out.append((cls, name, impl, c.lineno))
  return out


@rule("R14.51", "C14", floor=4)
def r14_51(ctx):
  """A stub-delegating operator slot returns undelegated only after a type test of its argument."""
  full_replacements = []
  for rel in all_py_files(ctx):
    if not rel.startswith("pytype/abstract/") or rel.endswith("_test.py") or \
        "set_native_slot" not in ctx.read(rel):
      continue
    mod = get_module(ctx, rel)
    for cls, slot, impl, _ in _native_slots(mod):
      construct = f"{cls.name}.{impl.name}:{slot}"
      if not any(isinstance(c, ast.Call) and _is_delegation(c, slot)
                 for c in ast.walk(impl)):
        full_replacements.append(construct)
        continue
      pos = [a.arg for a in impl.args.posonlyargs + impl.args.args]
      if len(pos) < 2 or pos[0] != "self":
        raise AnalysisError(f"{construct}: unexpected slot signature {pos}")
      seeds = set(pos[2:]) | ({impl.args.vararg.arg} if impl.args.vararg else set())
      if not seeds:
        raise AnalysisError(f"{construct}: the slot takes no argument besides the node")
      derived = _derived(impl, seeds)

      def gen(unit, slot=slot, derived=derived):
        facts = set()
        for c in flow.unconditional_calls(unit):
          if _is_delegation(c, slot):
            facts.add("delegated")
          elif _is_typed_conversion(c, derived):
            facts.add("typed")
        return facts

      f = flow.flow(impl, gen, mode="must")
      returns = [(n, st) for kind, n, st in f.exits if kind == "return"]
      if not returns:
        raise AnalysisError(f"{construct}: no return found")
      verdicts = []
      for ret, st in returns:
        if st is None:
          continue
        if "delegated" in st:
          verdicts.append("delegated")
          continue
        if "typed" in st:
          verdicts.append("typed-conversion")
          continue
        gs = flow.guards(mod.parent, ret, stop=impl)
        atoms = [a for t, p in gs for a in _atoms(t, p)]
        if any(p and _isinstance_of_arg(mod, impl, a, derived) for a, p in atoms):
          verdicts.append("isinstance")
          continue
        h = _failed_conversion_handler(mod, ret, impl, derived)
        if h is not None:
          ctx.bad(construct, rel, ret.lineno,
                  f"{cls.name}.{impl.name} returns a result from the handler of "
                  f"`except {src(h.type) if h.type else ''}` - the path on which the "
                  f"argument could NOT be converted - without calling the stub's {slot}: "
                  "that call is the only place where the argument's type is checked, so "
                  f"an operand of an unsupported type (`(1, 2)[len]`, `(1, 2)[1.5]`) is "
                  "no longer reported although CPython raises TypeError",
                  {"slot": slot, "line": ret.lineno})
          break
        if not any(_mentions(t, derived) for t, _ in gs):
          ctx.bad(construct, rel, ret.lineno,
                  f"{cls.name}.{impl.name} has a return that is neither preceded by "
                  f"self.{_DELEGATE}(node, {slot!r}, ..) nor guarded by any test of its "
                  f"argument ({sorted(seeds)}): on that path the stub's signature check "
                  "is skipped and an operand of an unsupported type is not reported",
                  {"slot": slot, "line": ret.lineno,
                   "guards": [src(t)[:60] for t, _ in gs]})
          break
        raise AnalysisError(
            f"{construct}: the return at line {ret.lineno} skips the stub call under "
            f"the condition {[src(t)[:60] for t, _ in gs]}, which tests the argument in "
            "a way that is not understood (neither isinstance nor a typed conversion)")
      else:
        ctx.ok(construct, rel, impl.lineno,
               {"slot": slot, "arguments": sorted(seeds), "returns": verdicts})
  if len(full_replacements) > 8:
    raise AnalysisError(f"{len(full_replacements)} operator slots never delegate to the "
                        f"stub: {full_replacements}")


# ----------------------------------------------------------------------------
PF = "pytype/abstract/_pytd_function.py"
CL = "pytype/abstract/_classes.py"
IN = "pytype/abstract/_instances.py"

_NEW_KEY = "        new_key = view[new].data.get_type_key()\n"
_K = "          k = (new_key, data.get_type_key())\n"
_MATCH_HEAD = ("    error = None\n"
               "    matched_signatures = _MatchedSignatures(\n")
_MATCH_TAIL = "    return matched_signatures.get()\n"
_TUPLE_ADD_PASS = ("      other = abstract_utils.get_atomic_value(other_var)\n"
                   "    except abstract_utils.ConversionError:\n"
                   "      pass\n")
_TUPLE_GET_TRY = (
    "    try:\n"
    "      index = self.ctx.convert.value_to_constant(\n"
    "          abstract_utils.get_atomic_value(index_var), (int, slice)\n"
    "      )\n"
    "    except abstract_utils.ConversionError:\n"
    "      pass\n"
    "    else:\n")
_DICT_GET_HEAD = ('    """Implements the __getitem__ slot."""\n'
                  "    results = []\n")

VARIANTS = [
    {"name": "seeded-C14-r5m1", "rule": "R14.50", "patch": "seeded/C14-r5m1/patch.diff",
     "expect": "fire"},
    {"name": "mutation-memo-keyed-by-class-of-new-value", "rule": "R14.50", "file": PF,
     "expect": "fire", "old": _NEW_KEY,
     "new": "        new_key = view[new].data.cls\n"},
    {"name": "mutation-memo-keyed-by-class-name", "rule": "R14.50", "file": PF,
     "expect": "fire", "old": _K,
     "new": "          k = (type(view[new].data).__name__, data.get_type_key())\n"},
    {"name": "positive-match-cache-ignores-node-and-mode", "rule": "R14.50",
     "expect": "fire",
     "edits": [
         (PF, _MATCH_HEAD,
          "    error = None\n"
          "    memo_key = tuple(args.posargs)\n"
          "    if not args.namedargs and memo_key in self._signature_cache:\n"
          "      return self._signature_cache[memo_key]\n"
          "    matched_signatures = _MatchedSignatures(\n"),
         (PF, _MATCH_TAIL,
          "    self._signature_cache[memo_key] = matched_signatures.get()\n"
          "    return self._signature_cache[memo_key]\n")]},
    {"name": "twin-mutation-memo-key-inlined-renamed", "rule": "R14.50", "expect": "silent",
     "edits": [
         (PF, _NEW_KEY, "        added = view[new]\n"),
         (PF, _K, "          k = (added.data.get_type_key(), data.get_type_key())\n")]},
    {"name": "twin-mutation-memo-key-built-from-list", "rule": "R14.50", "file": PF,
     "expect": "silent", "old": _K,
     "new": "          existing_key = data.get_type_key()\n"
            "          k = tuple([new_key, existing_key])\n"},
    {"name": "match-cache-keyed-by-every-input", "rule": "R14.50",
     "expect": "silent",
     "edits": [
         (PF, _MATCH_HEAD,
          "    error = None\n"
          "    memo_key = (node, args, match_all_views)\n"
          "    if memo_key in self._signature_cache:\n"
          "      return self._signature_cache[memo_key]\n"
          "    matched_signatures = _MatchedSignatures(\n"),
         (PF, _MATCH_TAIL,
          "    self._signature_cache[memo_key] = matched_signatures.get()\n"
          "    return self._signature_cache[memo_key]\n")]},
    {"name": "memo-key-through-unknown-helper", "rule": "R14.50", "file": PF,
     "expect": "error", "old": _NEW_KEY,
     "new": "        new_key = abstract_utils.get_atomic_value(new)\n"},

    {"name": "seeded-C14-r5m2", "rule": "R14.51", "patch": "seeded/C14-r5m2/patch.diff",
     "expect": "fire"},
    {"name": "tuple-add-returns-own-type-when-operand-ambiguous", "rule": "R14.51",
     "file": CL, "expect": "fire", "old": _TUPLE_ADD_PASS,
     "new": "      other = abstract_utils.get_atomic_value(other_var)\n"
            "    except abstract_utils.ConversionError:\n"
            "      return node, self.instantiate(node)\n"},
    {"name": "dict-getitem-abstract-dict-skips-stub", "rule": "R14.51", "file": IN,
     "expect": "fire", "old": _DICT_GET_HEAD,
     "new": '    """Implements the __getitem__ slot."""\n'
            "    if not self.is_concrete:\n"
            "      return node, self.get_instance_type_parameter(abstract_utils.V, node)\n"
            "    results = []\n"},
    {"name": "tuple-add-any-concrete-tuple-receiver", "rule": "R14.51", "file": CL,
     "expect": "fire",
     "old": "      if self._instance and isinstance(other, _abstract.Tuple):\n",
     "new": "      if self._instance:\n"},
    {"name": "twin-tuple-getitem-handler-delegates-early", "rule": "R14.51", "expect": "silent",
     "edits": [
         (CL, _TUPLE_GET_TRY,
          "    try:\n"
          "      index = self.ctx.convert.value_to_constant(\n"
          "          abstract_utils.get_atomic_value(index_var), (int, slice)\n"
          "      )\n"
          "    except abstract_utils.ConversionError:\n"
          "      return self.call_pytd(\n"
          '          node, "__getitem__", self.instantiate(node), index_var\n'
          "      )\n"
          "    if True:\n")]},
    {"name": "twin-tuple-add-named-test-renamed-local", "rule": "R14.51", "expect": "silent",
     "edits": [
         (CL, "      other = abstract_utils.get_atomic_value(other_var)\n",
          "      rhs = abstract_utils.get_atomic_value(other_var)\n"),
         (CL, "      if self._instance and isinstance(other, _abstract.Tuple):\n"
              "        pyval = self._instance.pyval + other.pyval\n",
          "      rhs_is_tuple = isinstance(rhs, _abstract.Tuple)\n"
          "      if rhs_is_tuple and self._instance:\n"
          "        pyval = self._instance.pyval + rhs.pyval\n")]},
    {"name": "twin-tuple-getitem-converted-in-two-steps", "rule": "R14.51", "file": CL,
     "expect": "silent",
     "old": "      index = self.ctx.convert.value_to_constant(\n"
            "          abstract_utils.get_atomic_value(index_var), (int, slice)\n"
            "      )\n"
            "    except abstract_utils.ConversionError:\n"
            "      pass\n",
     "new": "      index_value = abstract_utils.get_atomic_value(index_var)\n"
            "      index = self.ctx.convert.value_to_constant(\n"
            "          index_value, constant_type=(int, slice)\n"
            "      )\n"
            "    except abstract_utils.ConversionError:\n"
            "      pass\n"},
    {"name": "tuple-getitem-argument-test-not-understood", "rule": "R14.51", "file": CL,
     "expect": "error",
     "old": '    """Implementation of tuple.__getitem__."""\n',
     "new": '    """Implementation of tuple.__getitem__."""\n'
            "    if all(v.cls == self.ctx.convert.int_type for v in index_var.data):\n"
            "      return node, self.formal_type_parameters[abstract_utils.T].instantiate(node)\n"},
]
