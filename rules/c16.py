"""C16 - well-formed ordered block graph.

Decides: the opcode flag tables against reference tables, the flag helper
methods, the presence of every fact the block splitter / edge builder /
orderer must use, and that no target-carrying instruction is left without an
edge.  Does NOT decide the partition invariant on every code object.
"""
import ast
import copy

from sa.core import rule, AnalysisError
from sa.pyindex import get_module, dotted, src, calls_in, try_fold
from sa import flow

from rules import _opcodes as O
from rules import _util_c16c19 as U
from refs import opcode_refs as REF

EXPLANATION = (
    "Static necessary conditions for 'every code object is split into basic "
    "blocks whose edges cover every control transfer, ordered ancestors "
    "first', read from the AST of pyc/opcodes.py, blocks/blocks.py, "
    "typegraph/cfg_utils.py and vm.py, with pycnite's tables (3.8-3.12), the "
    "host CPython 3.12 opcode/dis modules and a frozen list of CPython's "
    "no-fall-through instructions as references.  R16.1: the flag constants "
    "are distinct powers of two and every flag helper computes the boolean "
    "function its name states (compared on all 2^13 flag words, so equivalent "
    "rewrites are accepted).  R16.2 per opcode name and version: the class has "
    "a known-jump flag exactly when the bytecode reader decodes the operand as "
    "a jump target; NO_NEXT exactly on CPython's unconditional transfers; "
    "where HAS_ARGUMENT deviates from 'opcode number >= HAVE_ARGUMENT' the "
    "handler must not read the operand.  R16.3: jump targets are resolved "
    "under has_known_jump() from the reader's offset (offset_to_index[op.argval], "
    "written inline, hoisted into a once-bound local or routed through the "
    "operand slot, and read before the slot is overwritten), after the synthetic "
    "exception-table opcodes were inserted and the list was indexed; the "
    "synthetic SETUP_EXCEPT_311 gets its target when it is created.  R16.4: "
    "the block-closing predicate of _split_bytecode - written inline or as a "
    "module-local helper with guard clauses / early returns, in both cases "
    "read as one boolean function of its atomic tests and evaluated on every "
    "truth assignment - is true whenever no_next / does_jump / pops_block / "
    "end-of-code holds, whatever the other tests say, and can be true through "
    "next-is-a-target when nothing else holds; compute_order (module-local "
    "helpers it hands the per-block wiring to are inlined first) adds "
    "the fall-through edge exactly when the last instruction can fall through, "
    "plus first.target, last.target and last.block_target edges, looked up in "
    "a first-instruction -> block map; order_nodes (helpers inlined likewise) "
    "picks the minimum of (number "
    "of pending predecessors, id, node); _order_code runs disassembly, "
    "add_pop_block_targets and compute_order in that order on the same list.  "
    "R16.5: every instruction that carries a resolved .target contributes "
    "its edge wherever it sits in its block and whatever its jump-kind flags "
    "are (the D17 condition, per opcode class): the classes with a known-jump "
    "flag (per version) are the ones whose instances have .target set; a "
    "class whose flags close the block (evaluated on R16.4's closing formula) "
    "is always the last instruction of its block, any other (the STORE_JUMP "
    "block setups, e.g. the synthetic SETUP_EXCEPT_311) can be first, in the "
    "middle or - when the next instruction is a jump target - last; for each "
    "such (class, position) some `connect_outgoing(<map>[x.target])` of "
    "compute_order must read that position under guards that hold for the "
    "class - tests on the instruction's class (flag helpers, isinstance, "
    "and/or/not of them) are evaluated per class, so `if last.does_jump() and "
    "last.target` is a violation naming the store-jump classes while a "
    "redundant `has_known_jump()` or a `store_jump()` test on the first/middle "
    "rule is accepted; any other guard is an analysis error.  R16.6: every block-setup instruction "
    "is recognised as pushing a block (PUSHES_BLOCK, or an isinstance test - "
    "against classes, a local tuple or a module constant - under which the "
    "instruction is appended to the block stack) and POP_BLOCK, identified by "
    "the isinstance facts that hold where .block_target is assigned (in "
    "add_pop_block_targets or a module-local helper it calls, call-site facts "
    "included), gets <innermost block>.target and closes its basic block.  "
    "R16.7: every class with a known-jump flag has the operand slots "
    "_add_jump_targets writes.  R16.8: every for-loop of a construction pass "
    "over the instruction stream / exception table / block list - in the pass "
    "itself or in a module-local helper the pass calls unconditionally from "
    "its top level with the stream (a delegated phase) - runs to the end (no "
    "break / return out of it); helpers called per element from inside a loop "
    "are look-ups, not phases.  R16.20 (rules/c16_pairing.py): a pass that "
    "appends a *whole* block to another one and adds the result to "
    "processed_blocks (compute_order then builds no edges for it) is only "
    "right when the appended block is a single instruction; the instruction "
    "is identified from the consumer (_remove_jmp_to_get_anext_and_merge looks "
    "the block up through <op>.end_async_for_target), its producer "
    "(_add_async_for_jump_back_targets: handler target of the exception-table "
    "range that starts at GET_ANEXT) and the host CPython 3.12 compiler as "
    "reference (-> END_ASYNC_FOR), and must satisfy one of the flag-helper "
    "tests that alone close a block in _split_bytecode (same formula as "
    "R16.4).  R16.21: _process "
    "pairs the code objects of co_consts with DisassembledCode.children by "
    "position (one iterator over dis_code.children advanced exactly once per "
    "code constant, constants walked in co_consts order); a lookup keyed by "
    "attributes of the code object (name, first line) or get_child(name) is a "
    "violation because such keys collide for sibling lambdas/genexprs.  "
    "R16.9 (rules/c16_shared_state.py): the passes run once per code object, "
    "many times per process, so whatever a pass remembers while it walks one "
    "code object must be created by that call.  For every binding of "
    "pyc/opcodes.py, blocks/blocks.py, blocks/process_blocks.py and "
    "typegraph/cfg_utils.py that outlives a call - parameter default "
    "(evaluated once at def time), module-level name, class-level name - the "
    "kind of its value is classified (immutable / mutable container or "
    "iterator / opaque object); a mutable or opaque one must not be written "
    "by any function of the module: mutator method (add, append, update, "
    "pop, ...), subscript or attribute store, del, in-place operator, a "
    "`global` re-binding; followed through local aliases (flow-insensitive), "
    "through module-local callees that receive it (three levels) and through "
    "an instance attribute it is stored in; a class-level container that "
    "__init__ shadows per instance only counts when written through the "
    "class.  Read-only shared tables, `param=None` + `if param is None: param "
    "= set()` and immutable defaults hold.  A mutable shared container that "
    "is returned, stored in another container or handed to a callee that is "
    "not followed is an analysis error.  Blind spots of R16.9: memoising "
    "decorators, function attributes, state kept in other modules or on the "
    "objects passed in (instruction / code objects), methods of opaque "
    "objects whose name is not a container mutator.  "
    "Blind spots of R16.20/21: other assumptions of the async-for surgery "
    "(that the merged block *starts* at the handler, that the positionally "
    "next block is the right successor) are not checked; identity- or "
    "index-keyed pairings and zip-based pairings are reported as analysis "
    "errors, not decided.  Not decided: that the resulting partition is "
    "correct for every code object (that needs the bytecode).")
EXPLANATION += (
    "  R16.3 also decides WHERE a resolved target comes from: `op.target` must "
    "be an element of the instruction list the pass walks (`ops[..]`), "
    "selected through the offset->index table _make_opcode_list returned; a "
    "target subscripted out of another parameter (`offset_to_op[op.argval]`, "
    "the index table itself) is a violation, because _make_opcode_list "
    "elides instructions (3.11: the JUMP_BACKWARD closing an `async for`) "
    "and records only in that table which instruction took their place - an "
    "elided instruction is in no list, has no index/prev/next and starts no "
    "block; build_opcodes must hand both results of _make_opcode_list to "
    "_add_jump_targets.  R16.23 (rules/c16_stale_positions.py): the block "
    "passes address blocks and instructions by list index; in blocks.py and "
    "pyc/opcodes.py no `for` loop that subscripts a list with its target "
    "(v, v + c, v - c) - positions computed before the loop - may also "
    "change that list structurally in its body (del xs[i], pop, insert, "
    "remove, clear, slice assignment; append moves nothing and is exempt), "
    "unless the loop is left right after the change (break / return) or the "
    "loop walks distinct positions largest-first (sorted(<set>, "
    "reverse=True), reversed(sorted(<set>)), reversed(range(..)), range(a, "
    "b, -1)), touches only xs[v] and the change is del xs[v] / xs.pop(v).  "
    "Otherwise every position after the first change denotes another "
    "element (two `async for` loops in one code object: the wrong block "
    "loses its jump, is merged, is deleted).  Iterating the list itself "
    "while changing it is a violation as well; compensated indices (`xs[i - "
    "deleted]`) are analysis errors; `while` loops that recompute their "
    "position and lists reached through a subscript (`blocks[i].code.pop()`) "
    "are outside the rule.")
ASSUMPTIONS = [
    "pycnite.mapping (get_mapping, arg_type) describes what pycnite.bytecode "
    "delivers: argval of a JREL/JABS operand is the absolute target offset, "
    "arg is None below HAVE_ARGUMENT",
    "refs/opcode_refs.py NO_FALLTHROUGH lists CPython's unconditional "
    "transfers (flowgraph.c / compile.c / ceval.c, provenance in the file)",
    "HAS_CONST/HAS_NAME/HAS_LOCAL/HAS_FREE/HAS_NARGS/HAS_JUNKNOWN have no "
    "consumer that affects the block graph other than does_jump() "
    "(HAS_JUNKNOWN) and are not compared with a reference",
    "the atomic tests of the block-closing predicate (flag helpers, "
    "`op.next is None`, `op.next in targets`, isinstance / version tests) are "
    "side-effect free and are treated as independent truth values; a name "
    "called as `f(..)` that is defined exactly once at module level and never "
    "re-bound there denotes that def (helper inlining)",
    "R16.5: an instruction has .target set only if its class has a known-jump "
    "flag (R16.3 decides that _add_jump_targets and _add_exception_block assign "
    "it exactly so; _remove_jmp_to_get_anext_and_merge only re-points an "
    "existing target); R16.9: a name called as `f(..)` / `self.f(..)` denotes "
    "the module's def of that name; containers are recognised by literal, "
    "comprehension or constructor name (set, dict, list, defaultdict, deque, ...)",
    "R16.20: the host interpreter is CPython 3.12 and its compiler puts "
    "END_ASYNC_FOR at the handler of every GET_ANEXT range (checked on five "
    "async-for shapes each run); R16.21: pycnite.bytecode.dis_all appends one "
    "child per code object of co_consts in co_consts order",
]

OPC = O.OPCODES
VM = O.VM
BLOCKS = "pytype/blocks/blocks.py"
CFG_UTILS = "pytype/typegraph/cfg_utils.py"


def _ver(v):
  return f"{v[0]}.{v[1]}"


def _ref_tables():
  """Reference tables (pycnite + host CPython), sanity-checked against each other."""
  from pycnite import mapping  # reference, not pytype code
  import opcode as host
  import dis
  import sys
  out = {}
  for v in O.VERSIONS:
    try:
      m = mapping.get_mapping(v)
    except Exception as e:  # pylint: disable=broad-except
      raise AnalysisError(f"pycnite has no mapping for {v}: {e}") from e
    num = {}
    for k, n in m.items():
      if n in num:
        raise AnalysisError(f"pycnite mapping {v}: {n} has two numbers")
      num[n] = k
    out[v] = {"num": num,
              "jump": {n for n in num if mapping.arg_type(n, v) in (mapping.JREL, mapping.JABS)},
              "argtype": {n: mapping.arg_type(n, v) for n in num}}
  host_v = sys.version_info[:2]
  if host_v in out:
    # the two references must agree with each other where they overlap
    pseudo = getattr(host, "MIN_PSEUDO_OPCODE", 256)
    for n, k in out[host_v]["num"].items():
      if host.opmap.get(n) != k:
        raise AnalysisError(
            f"reference tables disagree: {n} is {k} in pycnite {host_v} but "
            f"{host.opmap.get(n)} in the host opcode module")
    hj = {host.opname[i] for i in list(dis.hasjrel) + list(dis.hasjabs) if i < pseudo}
    if hj != out[host_v]["jump"]:
      raise AnalysisError(
          "reference tables disagree on jump opcodes: "
          f"{sorted(hj ^ out[host_v]['jump'])}")
    if host.HAVE_ARGUMENT != REF.HAVE_ARGUMENT[host_v]:
      raise AnalysisError("refs.HAVE_ARGUMENT disagrees with the host opcode module")
  return out


def _refs(ctx):
  return ctx.memo(("c16refs",), _ref_tables)


# -- R16.1 ------------------------------------------------------------------------

def _helper_spec(tab):
  """helper name -> (description, expected function of the flag word)."""
  b = tab.bit
  spec = {}

  def single(const):
    m = b(const)
    return (f"_FLAGS & {const}", lambda f, m=m: bool(f & m))

  for c in tab.consts:
    if c.startswith("HAS_"):
      spec[c.lower()] = single(c)
    else:
      spec[c.lower()] = single(c)
  kj = b("HAS_JREL") | b("HAS_JABS")
  aj = kj | b("HAS_JUNKNOWN")
  nn = b("NO_NEXT")
  sj = b("STORE_JUMP")
  spec["has_known_jump"] = ("_FLAGS & (HAS_JREL | HAS_JABS)", lambda f: bool(f & kj))
  spec["has_jump"] = ("_FLAGS & (HAS_JREL | HAS_JABS | HAS_JUNKNOWN)", lambda f: bool(f & aj))
  spec["carry_on_to_next"] = ("not _FLAGS & NO_NEXT", lambda f: not f & nn)
  spec["does_jump"] = ("has_jump() and not store_jump()", lambda f: bool(f & aj) and not f & sj)
  return spec


_CONSUMED = ("has_argument", "has_known_jump", "no_next", "carry_on_to_next",
             "does_jump", "pushes_block", "pops_block", "has_jump", "store_jump")


@rule("R16.1", "C16", floor=30)
def r16_1(ctx):
  """Flag constants are distinct bits; helpers test what their name says."""
  tab = O.opcode_table(ctx)
  seen = {}
  for name, val in sorted(tab.consts.items(), key=lambda kv: kv[1]):
    pow2 = val > 0 and val & (val - 1) == 0
    dup = seen.get(val)
    seen.setdefault(val, name)
    ctx.check(pow2 and dup is None, f"flag:{name}", OPC, tab.flag_lines[name],
              f"{name} = {val} is not a power of two distinct from the other "
              f"flags{' (same as ' + dup + ')' if dup else ''}: flag tests alias",
              {"value": val})
  helpers = tab.helpers()
  spec = _helper_spec(tab)
  missing = [h for h in _CONSUMED if h not in helpers]
  if missing:
    raise AnalysisError(f"{OPC}: flag helpers {missing} not found on Opcode")
  top = 2 * max(tab.consts.values())
  for hname, (fn, node) in sorted(helpers.items()):
    if hname not in spec:
      ctx.note(f"helper {hname} has no specification; not checked")
      continue
    desc, want = spec[hname]
    diff = None
    for f in range(top):
      if bool(fn(f)) != bool(want(f)):
        diff = f
        break
    names = [n for n, v in tab.consts.items() if diff is not None and diff & v]
    ctx.check(diff is None, f"helper:{hname}", OPC, node.lineno,
              f"Opcode.{hname}() does not compute `{desc}`: differs for the flag "
              f"word {' | '.join(names) or '0'}",
              {"spec": desc, "consumed": hname in _CONSUMED})


# -- R16.2 ------------------------------------------------------------------------

@rule("R16.2", "C16", floor=1770)
def r16_2(ctx):
  """Class flags agree with the reference tables, per opcode and version."""
  tab = O.opcode_table(ctx)
  refs = _refs(ctx)
  no_next = tab.bit("NO_NEXT")
  has_arg = tab.bit("HAS_ARGUMENT")
  methods, _ = O.vm_methods(ctx)
  prefix = U.dispatch_prefix(ctx)
  reads_cache = {}

  def handler_reads(name):
    if name not in reads_cache:
      fn = methods.get(prefix + name)
      if fn is None:
        reads_cache[name] = []
      else:
        reads_cache[name] = sorted({p for p, g in O.arg_reads(ctx, fn, methods)
                                    if g is None or name in g})
    return reads_cache[name]

  # Informational only (see ASSUMPTIONS): operand-kind flags without a consumer.
  from pycnite import mapping as _pm  # reference table
  kinds = {"HAS_CONST": _pm.CONST, "HAS_NAME": _pm.NAME, "HAS_LOCAL": _pm.LOCAL,
           "HAS_FREE": _pm.FREE, "HAS_NARGS": _pm.NARGS}
  kind_diff = []
  for v in O.VERSIONS:
    for name in sorted(refs[v]["num"]):
      if name in tab.opcode_classes:
        oc = tab.resolve(name, v)
        for flag, k in kinds.items():
          if flag in tab.consts and bool(oc.flags & tab.consts[flag]) != (
              refs[v]["argtype"][name] == k):
            kind_diff.append(f"{name}@{_ver(v)}:{flag}")
  ctx.note("operand-kind flags (HAS_CONST/NAME/LOCAL/FREE/NARGS) vs pycnite arg "
           f"types: {len(kind_diff)} differences {kind_diff[:8]} (not a "
           "violation: no code path that builds the block graph reads them)")
  for v in O.VERSIONS:
    ref = refs[v]
    vs = _ver(v)
    for name in sorted(ref["num"]):
      if name not in tab.opcode_classes:
        # R15.1's business; here the flags cannot be compared
        ctx.bad(f"jump:{name}@{vs}", OPC, 0, f"no class for opcode {name}")
        continue
      oc = tab.resolve(name, v)
      # (a) known jump <=> the reader decodes the operand as a jump target
      kj = tab.known_jump(oc)
      rj = name in ref["jump"]
      if kj and not rj:
        why = (f"{name} has a known-jump flag but the reader does not decode "
               f"its operand as a target in {vs}: _add_jump_targets indexes "
               "offset_to_index with a non-offset (KeyError / wrong edge)")
      else:
        why = (f"the reader decodes {name}'s operand as a jump target in {vs} "
               "but the class has no HAS_JREL/HAS_JABS: the target is never "
               "resolved and the edge is missing from the block graph")
      ctx.check(kj == rj, f"jump:{name}@{vs}", OPC, oc.line, why,
                {"flags_known_jump": kj, "reader_jump": rj} if (kj or rj) else {})
      # (b) NO_NEXT <=> CPython never falls through
      nn = bool(oc.flags & no_next)
      rn = name in REF.NO_FALLTHROUGH
      if nn and not rn:
        why = (f"{name} is flagged NO_NEXT but CPython can continue with the "
               "next instruction: the fall-through edge is dropped and the "
               "code after it may never be analysed")
      else:
        why = (f"{name} never continues with the next instruction in CPython "
               "but lacks NO_NEXT: a spurious fall-through edge is added, and "
               "as last instruction of a code object add_pop_block_targets "
               "asserts ('Bad instruction at end of bytecode')")
      ctx.check(nn == rn, f"no_next:{name}@{vs}", OPC, oc.line, why,
                {"NO_NEXT": nn, "reference": rn} if (nn or rn) else {})
      # (c) operand presence
      fa = bool(oc.flags & has_arg)
      ra = ref["num"][name] >= REF.HAVE_ARGUMENT[v]
      if fa == ra:
        ctx.ok(f"arg:{name}@{vs}", OPC, oc.line, {})
      else:
        reads = handler_reads(oc.name)
        if fa and not ra:
          why = (f"{name} is below HAVE_ARGUMENT in {vs} (the reader delivers "
                 f"arg=None) but its handler reads op.{reads[0] if reads else ''}")
        else:
          why = (f"{name} takes an operand in {vs} which the class drops, and "
                 f"its handler reads op.{reads[0] if reads else ''}")
        ctx.check(not reads, f"arg:{name}@{vs}", OPC, oc.line, why,
                  {"HAS_ARGUMENT": fa, "opcode": ref["num"][name],
                   "deviation": "operand unused by the handler", "reads": reads})


# -- R16.3 ------------------------------------------------------------------------

def _must_calls(fn, names):
  """must-dataflow of 'call to <name> has been evaluated' facts."""
  def gen(unit):
    out = []
    for c in flow.unconditional_calls(unit):
      d = (dotted(c.func) or "").split(".")[-1]
      if d in names:
        out.append(d)
    return out
  return flow.flow(fn, gen, mode="must")


def _find_call_stmt(mod, fn, name):
  hits = [c for c in calls_in(fn) if (dotted(c.func) or "").split(".")[-1] == name]
  if len(hits) != 1:
    return None, None
  return hits[0], mod.enclosing_stmt(hits[0])


def _resolve_index(mod, fn, use_stmt, idx, tvar, idx_p, depth=4):
  """The `<idx_p>[...]` lookup an index expression denotes at `use_stmt`.

  Followed: the lookup itself; a local bound exactly once in the function by a
  statement with the same path condition that precedes the use (hoisted
  temporary); an operand slot `<op>.<attr>` assigned, under the same path
  condition and before the use, from such a value (also through a chained
  assignment `op.arg = op.argval = <value>`).  None = not understood."""
  g_use = flow.guards_txt(mod.parent, use_stmt, stop=fn)
  for _ in range(depth):
    if isinstance(idx, ast.Subscript) and dotted(idx.value) == idx_p:
      return idx
    cands = []
    for s2 in ast.walk(fn):
      if not isinstance(s2, ast.Assign) or s2 is use_stmt:
        continue
      for t in s2.targets:
        same = (isinstance(idx, ast.Name) and isinstance(t, ast.Name) and t.id == idx.id) or (
            isinstance(idx, ast.Attribute) and isinstance(t, ast.Attribute)
            and t.attr == idx.attr and dotted(t.value) == dotted(idx.value) == tvar)
        if same:
          cands.append(s2)
    if isinstance(idx, ast.Name):
      other = [n for n in ast.walk(fn) if isinstance(n, ast.Name) and n.id == idx.id
               and isinstance(n.ctx, (ast.Store, ast.Del))]
      if len(other) != 1 or idx.id in {a.arg for a in fn.args.args}:
        return None
    cands = [c for c in cands if c.lineno <= use_stmt.lineno
             and flow.guards_txt(mod.parent, c, stop=fn) == g_use]
    if len(cands) != 1:
      return None
    use_stmt, idx = cands[0], cands[0].value
  return None


@rule("R16.3", "C16", floor=5)
def r16_3(ctx):
  """Jump targets are resolved for exactly the known jumps, at the right time."""
  tab = O.opcode_table(ctx)
  mod = tab.mod
  fn = mod.func("_add_jump_targets")
  params = [a.arg for a in fn.args.args]
  if len(params) != 2:
    raise AnalysisError(f"{OPC}: _add_jump_targets signature changed")
  ops_p, idx_p = params
  # assignments `<x>.target = <ops>[...]`
  sets = [st for st in ast.walk(fn) if isinstance(st, ast.Assign) and any(
      isinstance(t, ast.Attribute) and t.attr == "target" for t in st.targets)]
  if len(sets) != 1:
    raise AnalysisError(f"{OPC}: _add_jump_targets has {len(sets)} target assignments")
  st = sets[0]
  tvar = dotted([t for t in st.targets if isinstance(t, ast.Attribute)][0].value)
  guards = []
  for t, pol in flow.guards(mod.parent, st, stop=fn):
    guards.extend(O._conjuncts(t, pol))  # pylint: disable=protected-access
  gtxt = [(src(t), p) for t, p in guards]
  kj = [(t, p) for t, p in guards if isinstance(t, ast.Call) and
        isinstance(t.func, ast.Attribute) and dotted(t.func.value) == tvar]
  helpers = tab.helpers()
  b = tab.bit
  mask = b("HAS_JREL") | b("HAS_JABS")
  ok = False
  if len(kj) == 1 and kj[0][1] is True and kj[0][0].func.attr in helpers:
    hf = helpers[kj[0][0].func.attr][0]
    ok = all(bool(hf(f)) == bool(f & mask) for f in range(2 * max(tab.consts.values())))
  ctx.check(ok, "_add_jump_targets:guard", OPC, st.lineno,
            "op.target must be assigned exactly for instructions with a known "
            f"(JREL/JABS) jump; guards found: {gtxt}", {"guards": gtxt})
  # the index comes from offset_to_index[op.argval]
  val = st.value
  via = None
  if isinstance(val, ast.Subscript) and dotted(val.value) == ops_p:
    lookup = _resolve_index(mod, fn, st, val.slice, tvar, idx_p)
    if lookup is not None:
      via = src(lookup.slice)
      # the operand read by the lookup must still be the reader's value: no
      # assignment to it may precede the lookup on the same path
      if isinstance(lookup.slice, ast.Attribute) and dotted(lookup.slice.value) == tvar:
        lst = mod.enclosing_stmt(lookup)
        g0 = flow.guards_txt(mod.parent, lst, stop=fn)
        for s2 in ast.walk(fn):
          if isinstance(s2, ast.Assign) and s2 is not lst and s2.lineno < lst.lineno and any(
              isinstance(t, ast.Attribute) and t.attr == lookup.slice.attr
              and dotted(t.value) == tvar for t in s2.targets) and \
              flow.guards_txt(mod.parent, s2, stop=fn) == g0:
            via = f"{via} (overwritten at line {s2.lineno} before the lookup)"
  # the list the targets must be elements of: the parameter the pass walks
  walked = {dotted(l.iter) for l in ast.walk(fn) if isinstance(l, ast.For)
            and tvar in {n.id for n in ast.walk(l.target) if isinstance(n, ast.Name)}}
  foreign = None
  if via is None and walked == {ops_p} and isinstance(val, ast.Subscript) and \
      isinstance(val.value, ast.Name) and val.value.id != ops_p and \
      val.value.id in params:
    # `op.target = <other table>[..]`: the target is not selected from the
    # instruction list at all, so the redirection of elided instructions that
    # _make_opcode_list recorded (offset -> index of the instruction that
    # took its place) is bypassed
    foreign = val.value.id
  if via is None and foreign is None:
    raise AnalysisError(
        f"{OPC}: _add_jump_targets: how the index of `{src(val)}` is obtained from "
        f"{idx_p} is not understood")
  if foreign is not None:
    ctx.bad("_add_jump_targets:index", OPC, st.lineno,
            f"the target is read from `{src(val)}`, not from the instruction "
            f"list `{ops_p}`: it must be {ops_p}[offset_to_index[op.argval]] - an "
            "instruction that _make_opcode_list elided (3.11: the JUMP_BACKWARD "
            "closing an `async for`) is in no list, has no index/prev/next and "
            "starts no block, and only the offset->index table redirects jumps "
            "to it to the instruction that took its place",
            {"value": src(val), "offset_expr": None, "table": foreign})
  else:
    ctx.check(via == f"{tvar}.argval", "_add_jump_targets:index", OPC, st.lineno,
              "the target must be ops[offset_to_index[op.argval]] (argval is the "
              f"decoded target offset); found index via `{via}`",
              {"value": src(val), "offset_expr": via})

  # build_opcodes: order of the passes
  bo = mod.func("build_opcodes")
  order = ["_make_opcodes", "_add_setup_except", "_make_opcode_list", "_add_jump_targets"]
  f = _must_calls(bo, set(order))
  problems = []
  stmts = {}
  for name in order:
    call, stmt = _find_call_stmt(mod, bo, name)
    if call is None:
      raise AnalysisError(f"{OPC}: build_opcodes does not call {name} exactly once")
    stmts[name] = (call, stmt)
  # every return has seen list + targets
  for kind, node, st_ in f.exits:
    if kind in ("return", "end") and st_ is not None:
      for need in ("_make_opcodes", "_make_opcode_list", "_add_jump_targets"):
        if need not in st_:
          problems.append(f"{need} not on every path to return")
  before_list = f.before.get(stmts["_make_opcode_list"][1]) or frozenset()
  before_tgt = f.before.get(stmts["_add_jump_targets"][1]) or frozenset()
  if "_make_opcodes" not in before_list:
    problems.append("_make_opcode_list before _make_opcodes")
  if "_make_opcode_list" not in before_tgt:
    problems.append("_add_jump_targets before _make_opcode_list")
  # _add_setup_except must not come after the list was made
  before_setup = f.before.get(stmts["_add_setup_except"][1])
  may = flow.flow(bo, lambda u: [
      (dotted(c.func) or "").split(".")[-1] for c in flow.unconditional_calls(u)
      if (dotted(c.func) or "").split(".")[-1] in order], mode="may")
  if "_make_opcode_list" in (may.before.get(stmts["_add_setup_except"][1]) or ()):
    problems.append("_add_setup_except after _make_opcode_list: synthetic "
                    "SETUP_EXCEPT_311/POP_BLOCK never reach the instruction list")
  # dataflow of the two results of _make_opcode_list into _add_jump_targets
  lst_stmt = stmts["_make_opcode_list"][1]
  names = None
  if isinstance(lst_stmt, ast.Assign) and len(lst_stmt.targets) == 1 and \
      isinstance(lst_stmt.targets[0], ast.Tuple):
    names = [dotted(e) for e in lst_stmt.targets[0].elts]
  passed = [dotted(a) for a in stmts["_add_jump_targets"][0].args]
  if names is None or passed != names:
    problems.append(f"_add_jump_targets receives {passed}, _make_opcode_list "
                    f"returned {names}")
  # same offset_to_op dict flows from _make_opcodes to setup_except and list
  mk_stmt = stmts["_make_opcodes"][1]
  dname = dotted(mk_stmt.targets[0]) if isinstance(mk_stmt, ast.Assign) else None
  for nm in ("_add_setup_except", "_make_opcode_list"):
    a0 = stmts[nm][0].args[0] if stmts[nm][0].args else None
    if dname is None or dotted(a0) != dname:
      problems.append(f"{nm} does not receive the dict built by _make_opcodes")
  rets = [n for n in ast.walk(bo) if isinstance(n, ast.Return)]
  if names and any(dotted(r.value) != names[0] for r in rets):
    problems.append("build_opcodes does not return the indexed list")
  ctx.check(not problems, "build_opcodes:passes", OPC, bo.lineno,
            "; ".join(problems), {"order": order, "problems": problems})

  # the synthetic SETUP_EXCEPT_311 carries its target from creation
  ab = mod.func("_add_exception_block")
  created = {}
  for st2 in ast.walk(ab):
    if isinstance(st2, ast.Assign) and isinstance(st2.value, ast.Call) and \
        isinstance(st2.value.func, ast.Name) and \
        st2.value.func.id in tab.opcode_classes and len(st2.targets) == 1:
      created[dotted(st2.targets[0])] = st2.value.func.id
  inserted = set()
  target_set = {}
  for st2 in ast.walk(ab):
    if isinstance(st2, ast.Assign):
      for t in st2.targets:
        if isinstance(t, ast.Subscript) and dotted(st2.value) in created:
          inserted.add(dotted(st2.value))
        if isinstance(t, ast.Attribute) and t.attr == "target" and \
            dotted(t.value) in created:
          target_set[dotted(t.value)] = src(st2.value)
  if not created:
    raise AnalysisError(f"{OPC}: _add_exception_block creates no opcodes")
  for var, cname in sorted(created.items()):
    oc = tab.resolve(cname, O.VERSIONS[-1])
    need_target = tab.known_jump(oc)
    ok = var in inserted and (not need_target or var in target_set)
    ctx.check(ok, f"_add_exception_block:{cname}", OPC, ab.lineno,
              f"the synthetic {cname} must be inserted into offset_to_op"
              f"{' with its .target set (its operand is not an offset)' if need_target else ''}",
              {"inserted": var in inserted, "target": target_set.get(var)})


# -- R16.4 / R16.5 ----------------------------------------------------------------

def _positions(mod, loop, blockvar):
  """var -> position ('first'/'last') for `x = block.code[0]`-style bindings."""
  pos = {}

  def classify(e):
    if isinstance(e, ast.Subscript):
      base = dotted(e.value)
      if base in (blockvar, f"{blockvar}.code"):
        i = try_fold(e.slice)
        if i == 0:
          return "first"
        if i == -1:
          return "last"
    return None

  for st in ast.walk(loop):
    if isinstance(st, ast.Assign):
      for t in st.targets:
        if isinstance(t, ast.Name):
          p = classify(st.value)
          if p:
            pos[t.id] = p
        elif isinstance(t, ast.Tuple) and isinstance(st.value, ast.Tuple) and \
            len(t.elts) == len(st.value.elts):
          for a, bb in zip(t.elts, st.value.elts):
            p = classify(bb)
            if isinstance(a, ast.Name) and p:
              pos[a.id] = p
  return pos, classify


def _slice_positions(mod, it, blockvar):
  """Positions of a block covered by iterating `it` (None = not understood)."""
  if dotted(it) in (blockvar, f"{blockvar}.code"):
    return {"first", "middle", "last"}
  if isinstance(it, ast.Subscript) and dotted(it.value) in (blockvar, f"{blockvar}.code") \
      and isinstance(it.slice, ast.Slice) and it.slice.step is None:
    lo = try_fold(it.slice.lower) if it.slice.lower is not None else 0
    hi = try_fold(it.slice.upper) if it.slice.upper is not None else None
    out = {"middle"}
    if lo == 0:
      out.add("first")
    elif lo != 1:
      return None
    if hi is None:
      out.add("last")
    elif hi != -1:
      return None
    return out
  return None


class _View:
  """compute_order with its module-local helper calls inlined (so the edge
  wiring may live in `compute_order` itself or in helpers it delegates to)."""

  def __init__(self, mod, fn, parent, inlined):
    self.mod, self.fn, self.parent, self.inlined = mod, fn, parent, inlined

  def enclosing_stmt(self, node):
    return U.enclosing_stmt(self.parent, node)


def _pure_read(e):
  """A name / attribute chain / constant-subscript chain: reading it has no effect."""
  while True:
    if isinstance(e, ast.Name):
      return True
    if isinstance(e, ast.Attribute):
      e = e.value
    elif isinstance(e, ast.Subscript) and isinstance(e.slice, ast.Constant):
      e = e.value
    else:
      return False


class _Replace(ast.NodeTransformer):
  def __init__(self, name, expr):
    self.name, self.expr = name, expr

  def visit_Name(self, n):  # pylint: disable=invalid-name
    if n.id == self.name and isinstance(n.ctx, ast.Load):
      return ast.copy_location(copy.deepcopy(self.expr), n)
    return n


def _desugar_edge_loop(mod, fn, loop):
  """Rewrites two spellings of compute_order's edge loop (a private copy of the
  AST) into the canonical one, statement for statement equivalent:

  * `for b, n in itertools.zip_longest(xs, xs[1:])` (xs not mentioned in the
    body, b/n not re-bound) is `for i, b in enumerate(xs)` with
    `n = xs[i + 1] if i < len(xs) - 1 else None`;
  * `ops = [e1, e2]; ops.extend(E for v in it); ops.append(e3);
    for s in ops: BODY` - the list only built by these statements directly in
    the loop body and only walked by that one loop, every element a pure
    attribute read, BODY made of `if`s and connect_outgoing calls (no
    break/continue/assignment) - is BODY[s:=e1]; BODY[s:=e2];
    `for v in it: BODY[s:=E]`; BODY[s:=e3], in that order."""
  def refuse(msg):
    raise AnalysisError(f"{BLOCKS}: compute_order's edge loop: {msg}")
  it = loop.iter
  if isinstance(it, ast.Call) and (dotted(it.func) or "").endswith("zip_longest"):
    ok = dotted(it.func) == "itertools.zip_longest" and mod.imports.get("itertools") == "itertools" \
        and not it.keywords and len(it.args) == 2 and isinstance(it.args[0], ast.Name) \
        and isinstance(loop.target, ast.Tuple) and len(loop.target.elts) == 2 \
        and all(isinstance(e, ast.Name) for e in loop.target.elts)
    if ok:
      xs, second = it.args[0].id, it.args[1]
      ok = isinstance(second, ast.Subscript) and dotted(second.value) == xs \
          and isinstance(second.slice, ast.Slice) and second.slice.upper is None \
          and second.slice.step is None and try_fold(second.slice.lower) == 1
    if not ok:
      refuse(f"`{src(it)}` is not zip_longest(xs, xs[1:])")
    b, n = (e.id for e in loop.target.elts)
    for st in loop.body + loop.orelse:
      for x in ast.walk(st):
        if isinstance(x, ast.Name) and (x.id == xs or x.id in (b, n, "__i") and
                                        isinstance(x.ctx, (ast.Store, ast.Del))):
          refuse(f"`{x.id}` is used / re-bound inside a zip_longest loop over `{xs}`")
    head = ast.parse(f"for __i, {b} in enumerate({xs}):\n"
                     f"  {n} = {xs}[__i + 1] if __i < len({xs}) - 1 else None\n").body[0]
    for x in ast.walk(head):
      ast.copy_location(x, loop)
    loop.target, loop.iter = head.target, head.iter
    loop.body.insert(0, head.body[0])
  # successor list walked by an inner loop
  for inner in [st for st in loop.body if isinstance(st, ast.For) and isinstance(st.iter, ast.Name)
                and any(isinstance(c.func, ast.Attribute) and c.func.attr == "connect_outgoing"
                        for c in calls_in(st))]:
    lst = inner.iter.id
    if not isinstance(inner.target, ast.Name) or inner.orelse:
      refuse(f"the loop over `{lst}` has a non-plain header")
    v = inner.target.id
    build, pieces = [], []
    for st in loop.body[:loop.body.index(inner)]:
      if not any(isinstance(x, ast.Name) and x.id == lst for x in ast.walk(st)):
        continue
      if isinstance(st, ast.Assign) and len(st.targets) == 1 and dotted(st.targets[0]) == lst \
          and isinstance(st.value, ast.List) and not build:
        pieces += [("elt", e) for e in st.value.elts]
      elif build and isinstance(st, ast.Expr) and isinstance(st.value, ast.Call) \
          and isinstance(st.value.func, ast.Attribute) and dotted(st.value.func.value) == lst \
          and len(st.value.args) == 1 and not st.value.keywords \
          and st.value.func.attr in ("append", "extend"):
        a = st.value.args[0]
        if st.value.func.attr == "append":
          pieces.append(("elt", a))
        elif isinstance(a, ast.List):
          pieces += [("elt", e) for e in a.elts]
        elif isinstance(a, (ast.GeneratorExp, ast.ListComp)) and len(a.generators) == 1 \
            and not a.generators[0].is_async and isinstance(a.generators[0].target, ast.Name):
          pieces.append(("gen", a))
        else:
          refuse(f"`{src(st)[:60]}` is not an understood way to build `{lst}`")
      else:
        refuse(f"`{src(st)[:60]}` is not an understood way to build `{lst}`")
      build.append(st)
    if not build:
      refuse(f"the list `{lst}` walked by the inner loop is not built in the loop body")
    uses = [x for x in ast.walk(fn) if isinstance(x, ast.Name) and x.id == lst]
    inside = {id(x) for st in build + [inner.iter] for x in ast.walk(st)}
    if any(id(x) not in inside for x in uses):
      refuse(f"the list `{lst}` is used outside its construction and its loop")
    for x in [y for st in inner.body for y in ast.walk(st)]:
      if isinstance(x, (ast.Break, ast.Continue, ast.Return, ast.Assign, ast.AugAssign, ast.AnnAssign,
                        ast.Delete, ast.NamedExpr, ast.For, ast.While, ast.Try, ast.With)) or \
          isinstance(x, ast.Call) and not (isinstance(x.func, ast.Attribute)
                                           and x.func.attr == "connect_outgoing"):
        refuse(f"the body of the loop over `{lst}` does more than guard connect_outgoing calls")
    for kind, e in pieces:
      if any(isinstance(x, ast.Name) and x.id in (v, lst) for x in ast.walk(e)) or isinstance(e, ast.Starred):
        refuse(f"element `{src(e)}` of `{lst}` mentions the list or its loop variable")
      if not _pure_read(e if kind == "elt" else e.elt):
        refuse(f"element `{src(e)}` of `{lst}` is not a plain attribute read")
    out = []
    for kind, e in pieces:
      if kind == "elt":
        out += [_Replace(v, e).visit(copy.deepcopy(st)) for st in inner.body]
        continue
      g = e.generators[0]
      body = [_Replace(v, e.elt).visit(copy.deepcopy(st)) for st in inner.body]
      for cond in reversed(g.ifs):
        body = [ast.copy_location(ast.If(test=copy.deepcopy(cond), body=body, orelse=[]), inner)]
      out.append(ast.copy_location(
          ast.For(target=copy.deepcopy(g.target), iter=copy.deepcopy(g.iter), body=body,
                  orelse=[], type_comment=None), inner))
    at = loop.body.index(inner)
    loop.body[at:at + 1] = out
    loop.body[:] = [st for st in loop.body if not any(st is b for b in build)]
    ast.fix_missing_locations(loop)


def _edge_loop(ctx):
  """The `for i, block in enumerate(blocks)` loop of compute_order."""
  mod = get_module(ctx, BLOCKS)
  fn, parent, inlined = U.inline_local_calls(mod, mod.func("compute_order"), depth=2)
  loops = [n for n in fn.body if isinstance(n, ast.For) and any(
      isinstance(c.func, ast.Attribute) and c.func.attr == "connect_outgoing"
      for c in calls_in(n))]
  if len(loops) != 1:
    raise AnalysisError(f"{BLOCKS}: compute_order's edge loop not found")
  loop = loops[0]
  _desugar_edge_loop(mod, fn, loop)
  parent = U.parent_map(fn)
  view = _View(mod, fn, parent, inlined)
  tgt = loop.target
  blockvar = idxvar = None
  if isinstance(tgt, ast.Tuple) and len(tgt.elts) == 2 and \
      isinstance(loop.iter, ast.Call) and dotted(loop.iter.func) == "enumerate":
    idxvar, blockvar = tgt.elts[0].id, tgt.elts[1].id
    blocks = dotted(loop.iter.args[0])
  elif isinstance(tgt, ast.Name):
    blockvar = tgt.id
    blocks = dotted(loop.iter)
  else:
    raise AnalysisError(f"{BLOCKS}: compute_order's loop header not understood")
  return view, fn, loop, blockvar, idxvar, blocks


def _edges(ctx):
  """Classified connect_outgoing calls of compute_order's edge loop."""
  mod, fn, loop, blockvar, idxvar, blocks = _edge_loop(ctx)
  pos, classify = _positions(mod, loop, blockvar)
  # the first-op -> block map
  maps = {}
  for st in fn.body:
    if isinstance(st, ast.Assign) and isinstance(st.value, ast.DictComp) and \
        len(st.targets) == 1 and isinstance(st.targets[0], ast.Name):
      dc = st.value
      g = dc.generators[0]
      if len(dc.generators) == 1 and not g.ifs and isinstance(g.target, ast.Name):
        kpos = None
        k = dc.key
        if isinstance(k, ast.Subscript) and dotted(k.value) in (
            g.target.id, f"{g.target.id}.code"):
          i = try_fold(k.slice)
          kpos = "first" if i == 0 else ("last" if i == -1 else None)
        maps[st.targets[0].id] = {
            "key": kpos, "value_is_block": dotted(dc.value) == g.target.id,
            "over": dotted(g.iter), "line": st.lineno}
  edges = []
  for c in calls_in(loop):
    if not (isinstance(c.func, ast.Attribute) and c.func.attr == "connect_outgoing"
            and dotted(c.func.value) == blockvar and len(c.args) == 1):
      continue
    stmt = mod.enclosing_stmt(c)
    guards = []
    for t, p in flow.guards(mod.parent, stmt, stop=loop):
      guards.extend(O._conjuncts(t, p))  # pylint: disable=protected-access
    a = c.args[0]
    e = {"call": c, "guards": guards, "line": c.lineno, "kind": None}
    if isinstance(a, ast.Name):
      e.update(kind="next", name=a.id)
    elif isinstance(a, ast.Subscript) and isinstance(a.value, ast.Name) and \
        isinstance(a.slice, ast.Attribute) and a.slice.attr in ("target", "block_target"):
      holder = a.slice.value
      hpos = None
      if isinstance(holder, ast.Name):
        if holder.id in pos:
          hpos = {pos[holder.id]}
        else:
          # loop variable of an enclosing `for x in block.code[...]`
          cur = stmt
          while cur is not loop and cur in mod.parent:
            cur = mod.parent[cur]
            if isinstance(cur, ast.For) and cur is not loop and \
                isinstance(cur.target, ast.Name) and cur.target.id == holder.id:
              hpos = _slice_positions(mod, cur.iter, blockvar)
              if hpos is None:
                raise AnalysisError(
                    f"{BLOCKS}: compute_order iterates `{src(cur.iter)}`; the "
                    "covered positions are not understood")
              break
      else:
        p = classify(holder)
        hpos = {p} if p else None
      if hpos is None:
        raise AnalysisError(
            f"{BLOCKS}: compute_order: edge from `{src(a)}`: the instruction "
            "it reads is not a known position of the block")
      e.update(kind=a.slice.attr, positions=hpos, map=a.value.id,
               holder=src(holder))
    else:
      raise AnalysisError(f"{BLOCKS}: compute_order: connect_outgoing({src(a)}) "
                          "is not an understood edge")
    edges.append(e)
  return mod, fn, loop, blockvar, idxvar, blocks, pos, maps, edges


def _guard_ok(e, blockvar, extra_allowed=(), helper_names=None):
  """Guards other than `<holder>.<attr>` truthiness / processed-block skip.

  With `helper_names` (R16.5): tests that only inspect the *class* of the
  instruction holding the target (flag helpers, isinstance, and/or/not of
  those) are not unknown - they are evaluated per opcode class by
  `_admits`."""
  unknown = []
  for t, p in e["guards"]:
    s = src(t)
    if e["kind"] in ("target", "block_target") and p and \
        s == f"{e['holder']}.{e['kind']}":
      continue
    if not p and isinstance(t, ast.Compare) and len(t.ops) == 1 and \
        isinstance(t.ops[0], ast.In) and dotted(t.left) == blockvar:
      continue  # `if block in processed_blocks: continue`
    if (s, p) in extra_allowed:
      continue
    if helper_names is not None and e["kind"] == "target" and \
        _is_class_test(t, e["holder"], helper_names):
      continue
    unknown.append((s, p))
  return unknown


def _is_class_test(t, holder, helper_names):
  """`t` only inspects the class of `holder` (and the truth of its .target)."""
  if isinstance(t, ast.BoolOp):
    return all(_is_class_test(v, holder, helper_names) for v in t.values)
  if isinstance(t, ast.UnaryOp) and isinstance(t.op, ast.Not):
    return _is_class_test(t.operand, holder, helper_names)
  if isinstance(t, ast.Attribute) and t.attr == "target" and src(t.value) == holder:
    return True
  if isinstance(t, ast.Call) and not t.keywords:
    if isinstance(t.func, ast.Attribute) and not t.args and \
        src(t.func.value) == holder and t.func.attr in helper_names:
      return True
    if dotted(t.func) == "isinstance" and len(t.args) == 2 and src(t.args[0]) == holder:
      return True
  return False


def _class_test_value(ctx, mod, tab, helpers, t, holder, cname, oc):
  """Truth of a class test for an instruction of class `oc` that carries a
  target (AnalysisError when the classes of an isinstance are not understood)."""
  if isinstance(t, ast.BoolOp):
    vals = [_class_test_value(ctx, mod, tab, helpers, v, holder, cname, oc) for v in t.values]
    return all(vals) if isinstance(t.op, ast.And) else any(vals)
  if isinstance(t, ast.UnaryOp):
    return not _class_test_value(ctx, mod, tab, helpers, t.operand, holder, cname, oc)
  if isinstance(t, ast.Attribute):
    return True  # <holder>.target: the instruction carries a target
  if dotted(t.func) == "isinstance":
    names = O.class_names(ctx, mod, t.args[1])
    if names is None:
      raise AnalysisError(f"{BLOCKS}: compute_order: classes of `{src(t)}` not understood")
    return any(n.name in names for n in tab.chain(cname))
  return bool(helpers[t.func.attr][0](oc.flags))


def _target_classes(ctx, tab):
  """Opcode classes whose instances carry a resolved .target: the classes with
  a known-jump flag (R16.3: _add_jump_targets assigns .target exactly under
  has_known_jump(); the synthetic SETUP_EXCEPT_311 gets it on creation), per
  version, de-duplicated by (name, flags)."""
  refs = _refs(ctx)
  synthetic = {c for c in tab.opcode_classes
               if any(isinstance(n, ast.Call) and isinstance(n.func, ast.Name)
                      and n.func.id == c for n in ast.walk(tab.mod.tree))}
  out = {}
  for v in O.VERSIONS:
    for name in sorted(set(refs[v]["num"]) | synthetic):
      if name not in tab.opcode_classes:
        continue
      oc = tab.resolve(name, v)
      if tab.known_jump(oc):
        out.setdefault((name, oc.flags), (name, oc))
  return [out[k] for k in sorted(out)]


def _admits(ctx, mod, tab, helpers, e, cname, oc):
  """Does the edge `e` fire for a target-carrying instruction of class `oc`?"""
  for t, p in e["guards"]:
    if _is_class_test(t, e["holder"], set(helpers)) and \
        bool(_class_test_value(ctx, mod, tab, helpers, t, e["holder"], cname, oc)) != p:
      return False
  return True


class _Closing:
  """The block-closing predicate of _split_bytecode as a boolean formula."""

  def closes_on(self, fact):
    """Does `fact` (a flag helper of the instruction, 'next-is-None' or
    'next-in-targets') close the block?  Flag helpers and end-of-code must
    close it whatever the other atoms are; next-in-targets must be able to
    close it when nothing else does (it may be conjoined with an exemption)."""
    if fact == "next-in-targets":
      key = self.in_targets
      if key is None:
        return False
      fixed = {key: True}
      for k in list(self.flags.values()) + [self.next_none]:
        if k is not None:
          fixed[k] = False
      return any(U.eval_formula(self.formula, v)
                 for v in U.assignments(list(self.atoms), fixed))
    key = self.next_none if fact == "next-is-None" else self.flags.get(fact)
    return key is not None and U.forces_true(self.formula, key, list(self.atoms))


def closing_predicate(mod, helper_names):
  """Locates the `if <pred>: ... Block(code) ...` of _split_bytecode that
  decides, right after an instruction was appended, whether the block ends.

  The predicate may be spelled inline (`a() or b() or ...`) or delegated to a
  module-local helper written with guard clauses; both are read as one boolean
  formula over the same atoms (see rules/_util_c16c19.bool_formula)."""
  sp = mod.func("_split_bytecode")
  compound = (ast.If, ast.For, ast.While, ast.Try, ast.With)
  cands = []
  for n in ast.walk(sp):
    if not isinstance(n, ast.If) or not any(
        dotted(c.func) == "Block" for st in n.body if not isinstance(st, compound)
        for c in calls_in(st)):
      continue
    f = U.bool_formula(mod, n.test, depth=2)
    atoms = U.formula_atoms(f)
    flags = {}
    recv = set()
    for key, node in atoms.items():
      if isinstance(node, ast.Call) and isinstance(node.func, ast.Attribute) \
          and not node.args and not node.keywords and isinstance(node.func.value, ast.Name) \
          and node.func.attr in helper_names:
        flags[node.func.attr] = key
        recv.add(node.func.value.id)
    if flags:
      cands.append((n, f, atoms, flags, recv))
  if len(cands) != 1:
    raise AnalysisError(f"{BLOCKS}: _split_bytecode's block-closing `if` not found")
  n, f, atoms, flags, recv = cands[0]
  if len(recv) != 1:
    raise AnalysisError(f"{BLOCKS}: block-closing predicate tests several objects")
  cp = _Closing()
  cp.fn, cp.node, cp.formula, cp.atoms, cp.flags = sp, n, f, atoms, flags
  cp.opv = opv = recv.pop()
  cp.via = "inline" if all(k in src(n.test) for k in flags.values()) else "helper predicate"
  cp.next_none = cp.in_targets = cp.targets = None
  tnames = set()
  for key, node in atoms.items():
    if isinstance(node, ast.Compare) and len(node.ops) == 1 and dotted(node.left) == f"{opv}.next":
      c0 = node.comparators[0]
      if isinstance(node.ops[0], ast.Is) and isinstance(c0, ast.Constant) and c0.value is None:
        cp.next_none = key
      elif isinstance(node.ops[0], ast.In) and isinstance(c0, ast.Name):
        cp.in_targets = key
        tnames.add(c0.id)
  if len(tnames) > 1:
    raise AnalysisError(f"{BLOCKS}: block-closing predicate tests membership in several sets")
  if tnames:
    cp.targets = tnames.pop()
  return cp


@rule("R16.4", "C16", floor=16)
def r16_4(ctx):
  """The splitter, the edge builder and the orderer use every needed fact."""
  tab = O.opcode_table(ctx)
  mod = get_module(ctx, BLOCKS)
  helpers = tab.helpers()
  cp = closing_predicate(mod, set(helpers))
  sp, cl, opv = cp.fn, cp.node, cp.opv
  bytecode_p = sp.args.args[0].arg
  # it must be the instruction just appended to the current block
  appended = any(isinstance(c.func, ast.Attribute) and c.func.attr == "append"
                 and c.args and dotted(c.args[0]) == opv for c in calls_in(sp))
  if cp.targets is not None:
    tname = cp.targets
    defs = [st for st in ast.walk(sp) if isinstance(st, ast.Assign)
            and any(dotted(t) == tname for t in st.targets)]
    if len(defs) != 1 or not isinstance(defs[0].value, ast.SetComp):
      raise AnalysisError(f"{BLOCKS}: _split_bytecode: `{tname}` is not a single "
                          "set comprehension")
    sc = defs[0].value
    g = sc.generators[0]
    elt_ok = isinstance(sc.elt, ast.Attribute) and sc.elt.attr == "target" and \
        dotted(sc.elt.value) == dotted(g.target)
    over_ok = dotted(g.iter) == bytecode_p
    ifs_ok = all(src(i) == src(sc.elt) for i in g.ifs)
    ctx.check(elt_ok and over_ok and ifs_ok and len(sc.generators) == 1,
              "_split_bytecode:targets-set", BLOCKS, defs[0].lineno,
              "the jump-target set must hold the .target of every "
              f"instruction of the bytecode; found `{src(sc)}`",
              {"set": src(sc)})
  for fact in ("no_next", "does_jump", "pops_block", "next-is-None", "next-in-targets"):
    if fact in ("no_next", "does_jump", "pops_block") and fact not in helpers:
      raise AnalysisError(f"{OPC}: helper {fact} missing")
    ok = cp.closes_on(fact) and appended
    ctx.check(ok, f"_split_bytecode:closes-on:{fact}", BLOCKS, cl.lineno,
              f"a block must be closed after an instruction when `{fact}` holds "
              "(whatever the other tests of the closing predicate say)",
              {"atoms": [k[:60] for k in cp.atoms], "via": cp.via})

  # compute_order edges
  (_view, fn, loop, blockvar, idxvar, blocks, pos, maps, edges) = _edges(ctx)
  # next_block = blocks[i + 1] ...
  nxt = [e for e in edges if e["kind"] == "next"]
  ok = False
  facts = {}
  if len(nxt) == 1:
    e = nxt[0]
    nb = e["name"]
    # definition of next_block
    defs = [st.value for st in ast.walk(loop) if isinstance(st, ast.Assign)
            and any(dotted(t) == nb for t in st.targets)]
    def_ok = False
    if len(defs) == 1:
      cand = defs[0].body if isinstance(defs[0], ast.IfExp) else defs[0]
      def_ok = isinstance(cand, ast.Subscript) and dotted(cand.value) == blocks and \
          src(cand.slice).replace(" ", "") in (f"{idxvar}+1", f"1+{idxvar}")
    g = [(src(t), p) for t, p in e["guards"]]
    nn = [(t, p) for t, p in e["guards"] if isinstance(t, ast.Call) and
          isinstance(t.func, ast.Attribute) and isinstance(t.func.value, ast.Name)
          and pos.get(t.func.value.id) == "last"]
    sem = False
    if len(nn) == 1 and nn[0][0].func.attr in helpers:
      hf = helpers[nn[0][0].func.attr][0]
      bit = tab.bit("NO_NEXT")
      # the edge is added iff the last instruction can fall through
      sem = all((bool(hf(f)) == nn[0][1]) == (not f & bit)
                for f in range(2 * max(tab.consts.values())))
    unknown = _guard_ok(e, blockvar, extra_allowed={(nb, True)})
    unknown = [u for u in unknown if not nn or u[0] != src(nn[0][0])]
    if unknown:
      raise AnalysisError(f"{BLOCKS}: compute_order: fall-through edge has "
                          f"guards outside the understood idiom: {unknown}")
    ok = def_ok and sem
    facts = {"guards": g, "next_block_def": src(defs[0]) if defs else None}
  ctx.check(ok, "compute_order:fallthrough", BLOCKS, loop.lineno,
            "the edge to the textually next block must be added exactly when "
            "the block's last instruction can fall through (not no_next())", facts)
  for kind, where in (("target", "first"), ("target", "last"), ("block_target", "last")):
    hit = [e for e in edges if e["kind"] == kind and where in e["positions"]]
    for e in hit:
      unknown = _guard_ok(e, blockvar, helper_names=set(helpers))
      if unknown:
        raise AnalysisError(f"{BLOCKS}: compute_order: {where}.{kind} edge has "
                            f"guards outside the understood idiom: {unknown}")
    ctx.check(bool(hit), f"compute_order:{where}.{kind}", BLOCKS,
              hit[0]["line"] if hit else loop.lineno,
              f"no edge is added for the {kind} of a block's {where} instruction",
              {"edges": [src(e["call"]) for e in hit]})
  used_maps = {e["map"] for e in edges if e["kind"] in ("target", "block_target")}
  for m in sorted(used_maps):
    info = maps.get(m)
    if info is None:
      raise AnalysisError(f"{BLOCKS}: compute_order: lookup table {m} not understood")
    ctx.check(info["key"] == "first" and info["value_is_block"] and info["over"] == blocks,
              f"compute_order:map:{m}", BLOCKS, info["line"],
              "targets must be looked up in a map from each block's FIRST "
              "instruction to that block (jumps enter blocks at their first "
              "instruction)", {k: v for k, v in info.items() if k != "line"})
  # the loop's blocks are what is ordered and returned
  rets = [n for n in ast.walk(fn) if isinstance(n, ast.Return)]
  ret_ok = len(rets) == 1 and isinstance(rets[0].value, ast.Call) and \
      (dotted(rets[0].value.func) or "").endswith("order_nodes") and \
      len(rets[0].value.args) == 1 and dotted(rets[0].value.args[0]) == blocks
  ctx.check(ret_ok, "compute_order:returns-order_nodes", BLOCKS,
            rets[0].lineno if rets else fn.lineno,
            "compute_order must return cfg_utils.order_nodes(<the connected blocks>)",
            {"return": src(rets[0].value) if rets else None})

  # order_nodes: min over (len(predecessors), node.id, node)
  cmod = get_module(ctx, CFG_UTILS)
  # (helpers such as "pop the next node from the queue" are read inline)
  on, _on_parent, _on_inlined = U.inline_local_calls(cmod, cmod.func("order_nodes"), depth=2)
  mins = [c for c in calls_in(on) if dotted(c.func) == "min"]
  key = None
  if len(mins) == 1 and len(mins[0].args) == 1 and \
      isinstance(mins[0].args[0], (ast.GeneratorExp, ast.ListComp)) and \
      isinstance(mins[0].args[0].elt, ast.Tuple):
    ge = mins[0].args[0]
    g = ge.generators[0]
    if isinstance(g.target, ast.Tuple) and len(g.target.elts) == 2:
      nv, pv = (dotted(x) for x in g.target.elts)
      import copy
      rn = U._Renamer({nv: "N", pv: "P"})  # pylint: disable=protected-access
      key = [src(rn.visit(copy.deepcopy(e))) for e in ge.elt.elts]
  elif len(mins) == 1 and any(k.arg == "key" for k in mins[0].keywords):
    raise AnalysisError(f"{CFG_UTILS}: order_nodes uses min(key=...); idiom not understood")
  if key is None:
    raise AnalysisError(f"{CFG_UTILS}: order_nodes' `min((len(preds), node.id, node) ...)` not found")
  ctx.check(key == ["len(P)", "N.id", "N"], "order_nodes:min-key", CFG_UTILS,
            mins[0].lineno,
            "the next block must be the minimum of (number of unscheduled "
            "predecessors, id, node): without the id two blocks with equal "
            f"counts are compared directly (TypeError); found {key}", {"key": key})
  # root is the first block, successors come from .outgoing
  outs = [n for n in ast.walk(on) if isinstance(n, ast.For) and
          isinstance(n.iter, ast.Attribute) and n.iter.attr == "outgoing"]
  root_ok = any(isinstance(st, ast.Assign) and isinstance(st.value, ast.Subscript)
                and dotted(st.value.value) == on.args.args[0].arg
                and try_fold(st.value.slice) == 0 for st in on.body)
  ctx.check(bool(outs) and root_ok, "order_nodes:traversal", CFG_UTILS, on.lineno,
            "order_nodes must start from nodes[0] and schedule the .outgoing "
            "successors of each scheduled node",
            {"root_is_first": root_ok, "follows_outgoing": bool(outs)})
  # Block.connect_outgoing records the edge in .outgoing
  co = mod.func("Block.connect_outgoing")
  tparam = co.args.args[1].arg
  adds = [c for c in calls_in(co) if isinstance(c.func, ast.Attribute)
          and c.func.attr == "add" and dotted(c.func.value) == f"{co.args.args[0].arg}.outgoing"
          and c.args and dotted(c.args[0]) == tparam]
  ctx.check(len(adds) == 1, "Block.connect_outgoing", BLOCKS, co.lineno,
            "connect_outgoing must add the target to self.outgoing (the only "
            "edge set order_nodes and compute_predecessors read)", {})

  # _order_code: disassemble -> add_pop_block_targets -> compute_order on one list
  oc = mod.func("_order_code")
  seq = ["build_opcodes", "add_pop_block_targets", "compute_order"]
  f = _must_calls(oc, set(seq))
  st_info = {}
  for name in seq:
    call, stmt = _find_call_stmt(mod, oc, name)
    if call is None:
      raise AnalysisError(f"{BLOCKS}: _order_code does not call {name} exactly once")
    st_info[name] = (call, stmt)
  problems = []
  if "build_opcodes" not in (f.before.get(st_info["add_pop_block_targets"][1]) or ()):
    problems.append("add_pop_block_targets before build_opcodes")
  if "add_pop_block_targets" not in (f.before.get(st_info["compute_order"][1]) or ()):
    problems.append("compute_order runs before add_pop_block_targets: "
                    "block_target edges are never added")
  bo_stmt = st_info["build_opcodes"][1]
  opsname = dotted(bo_stmt.targets[0]) if isinstance(bo_stmt, ast.Assign) else None
  for nm in ("add_pop_block_targets", "compute_order"):
    a0 = st_info[nm][0].args[0] if st_info[nm][0].args else None
    if opsname is None or dotted(a0) != opsname:
      problems.append(f"{nm} does not receive the list built by build_opcodes")
  ctx.check(not problems, "_order_code:sequence", BLOCKS, oc.lineno,
            "; ".join(problems), {"sequence": seq, "problems": problems})


@rule("R16.5", "C16", floor=1)
def r16_5(ctx):
  """Every instruction that carries a .target contributes its edge, wherever
  it sits in its block and whatever its jump-kind flags are."""
  (view, fn, loop, blockvar, idxvar, blocks, pos, maps, edges) = _edges(ctx)
  tab = O.opcode_table(ctx)
  helpers = tab.helpers()
  tedges = [e for e in edges if e["kind"] == "target"]
  for e in tedges:
    unknown = _guard_ok(e, blockvar, helper_names=set(helpers))
    if unknown:
      raise AnalysisError(f"{BLOCKS}: compute_order: target edge at line "
                          f"{e['line']} has guards outside the understood "
                          f"idiom: {unknown}")
  # Which positions can an instruction of a class occupy?  One whose flags
  # close the block (same formula as R16.4) is always the last instruction of
  # its block; any other one (the STORE_JUMP block setups) can be first, in
  # the middle, or - when the next instruction is a jump target - last.
  cp = closing_predicate(get_module(ctx, BLOCKS), set(helpers))
  classes = _target_classes(ctx, tab)
  if not classes:
    raise AnalysisError(f"{OPC}: no opcode class with a known-jump flag")
  missing = {}
  floating = []
  for cname, oc in classes:
    fixed = {key: bool(helpers[h][0](oc.flags)) for h, key in cp.flags.items()}
    closes = all(U.eval_formula(cp.formula, v)
                 for v in U.assignments(list(cp.atoms), fixed))
    if not closes:
      floating.append(cname)
    for where in (("last",) if closes else ("first", "middle", "last")):
      if not any(where in e["positions"] and _admits(ctx, view.mod, tab, helpers, e, cname, oc)
                 for e in tedges):
        missing.setdefault(where, []).append(cname)
  gaps = "; ".join(f"{w}: {', '.join(sorted(set(c)))}" for w, c in sorted(missing.items()))
  ctx.check(not missing, "compute_order:target-coverage", BLOCKS, loop.lineno,
            f"compute_order adds no .target edge for [{gaps}]: an "
            "instruction that carries a resolved .target must contribute the "
            "edge to it wherever it sits in its block and whatever its "
            "jump-kind flags say (a STORE_JUMP block setup such as "
            "SETUP_EXCEPT_311 neither starts nor ends a block, so it can be "
            "the first, a middle or - when the next instruction is a jump "
            "target - the last instruction); the handler block gets no "
            "predecessor, is dropped by order_nodes as dead and its code is "
            "never analysed",
            {"target_classes": len(classes), "any_position": sorted(set(floating)),
             "uncovered": {w: sorted(set(c)) for w, c in missing.items()},
             "edges": [src(e["call"]) for e in tedges]})


# -- R16.6 ------------------------------------------------------------------------

def _isinstance_classes(ctx, mod, node, varname, fn, group=(), _depth=2):
  """Opcode classes `varname` is known to be an instance of at `node`: like
  rules/_opcodes.isinstance_guard, and additionally resolves a class tuple that
  is bound once to a local of `fn` (`setup_except_op = (opcodes.A, opcodes.B)`)
  and, when `fn` is a helper of `group` that receives `varname` as a
  never-rebound parameter and tests nothing itself, what every call site in the
  group knows about the argument (union over the sites, None if one is unknown)."""
  local = {}
  stores = {}
  for n in U.walk_scope(fn):
    if isinstance(n, ast.Name) and isinstance(n.ctx, (ast.Store, ast.Del)):
      stores[n.id] = stores.get(n.id, 0) + 1
  for n in U.walk_scope(fn):
    if isinstance(n, ast.Assign) and len(n.targets) == 1 and isinstance(n.targets[0], ast.Name) \
        and stores.get(n.targets[0].id) == 1 and isinstance(n.value, ast.Tuple):
      names = O.class_names(ctx, mod, n.value)
      if names:
        local[n.targets[0].id] = names
  facts = []
  cur = node
  while cur in mod.parent and not isinstance(cur, ast.stmt):
    par = mod.parent[cur]
    if isinstance(par, ast.BoolOp) and cur in par.values:
      pol = isinstance(par.op, ast.And)
      for v in par.values[:par.values.index(cur)]:
        facts.extend(O._conjuncts(v, pol))  # pylint: disable=protected-access
    elif isinstance(par, ast.IfExp):
      if cur is par.body:
        facts.extend(O._conjuncts(par.test, True))  # pylint: disable=protected-access
      elif cur is par.orelse:
        facts.extend(O._conjuncts(par.test, False))  # pylint: disable=protected-access
    cur = par
  if isinstance(cur, ast.stmt):
    for t, pol in flow.guards(mod.parent, cur, stop=fn):
      facts.extend(O._conjuncts(t, pol))  # pylint: disable=protected-access
  result = None
  for e, pol in facts:
    if pol and isinstance(e, ast.Call) and dotted(e.func) == "isinstance" and \
        len(e.args) == 2 and isinstance(e.args[0], ast.Name) and e.args[0].id == varname:
      a1 = e.args[1]
      names = local.get(a1.id) if isinstance(a1, ast.Name) and a1.id in stores else \
          O.class_names(ctx, mod, a1)
      if names is None:
        continue
      result = names if result is None else (result & names)
  params = U.params_of(fn)
  if result is None and _depth > 0 and varname in params and stores.get(varname, 0) == 0:
    sites = []
    for g in group:
      if g is fn:
        continue
      for c in calls_in(g):
        if U.callee_of(mod, c, within=g) is fn:
          sites.append((g, c))
    union = set()
    for g, c in sites:
      try:
        bound = dict(U._bind(fn, c, False))  # pylint: disable=protected-access
      except U.NotInlinable:
        return None
      a = bound.get(varname)
      got = _isinstance_classes(ctx, mod, c, a.id, g, group, _depth - 1) \
          if isinstance(a, ast.Name) else None
      if got is None:
        return None
      union |= got
    result = union or None
  return result


@rule("R16.6", "C16", floor=6)
def r16_6(ctx):
  """Block-setup instructions push a block; POP_BLOCK ends its basic block."""
  tab = O.opcode_table(ctx)
  refs = _refs(ctx)
  mod = get_module(ctx, BLOCKS)
  ap = mod.func("add_pop_block_targets")
  # the pass and the module-local helpers it delegates the block-stack
  # bookkeeping to (two levels)
  group = U.local_callees(mod, ap, depth=2)
  # classes recognised by isinstance as pushing a block: an instruction `v`
  # known to be an instance of them is appended to a tuple (`stack += (v,)`,
  # `stack + (v,)`) - whether the test is spelled with a local tuple, a module
  # constant or the classes themselves
  setup_tuple = set()
  for gfn in group:
    for n in U.walk_scope(gfn):
      pushed = None
      if isinstance(n, ast.AugAssign) and isinstance(n.op, ast.Add):
        pushed = n.value
      elif isinstance(n, ast.BinOp) and isinstance(n.op, ast.Add):
        pushed = n.right
      if isinstance(pushed, ast.Tuple) and len(pushed.elts) == 1 \
          and isinstance(pushed.elts[0], ast.Name):
        names = _isinstance_classes(ctx, mod, n, pushed.elts[0].id, gfn, group)
        if names:
          setup_tuple |= names
  reachable = set()
  for v in O.VERSIONS:
    reachable |= set(refs[v]["num"])
  synthetic = {c for c in tab.opcode_classes
               if any(isinstance(n, ast.Call) and isinstance(n.func, ast.Name)
                      and n.func.id == c for n in ast.walk(tab.mod.tree))}
  pushes = tab.bit("PUSHES_BLOCK")
  pops = tab.bit("POPS_BLOCK")
  n = 0
  for name in sorted(tab.opcode_classes):
    if name not in reachable and name not in synthetic:
      continue
    oc = tab.resolve(name, O.VERSIONS[-1])
    is_setup = name in REF.BLOCK_SETUP or (name in synthetic and name.startswith("SETUP_"))
    has_push = bool(oc.flags & pushes)
    if is_setup:
      n += 1
      ok = (has_push or name in setup_tuple) and tab.known_jump(oc)
      ctx.check(ok, f"setup:{name}", OPC, oc.line,
                f"{name} pushes a block in CPython but add_pop_block_targets "
                "does not treat it so (no PUSHES_BLOCK, not in its "
                "setup_except_op tuple) or it has no resolvable target: the "
                "matching POP_BLOCK pops the wrong block / asserts",
                {"PUSHES_BLOCK": has_push, "in_setup_tuple": name in setup_tuple,
                 "known_jump": tab.known_jump(oc)})
    elif has_push:
      n += 1
      ctx.bad(f"setup:{name}", OPC, oc.line,
              f"{name} is flagged PUSHES_BLOCK but pushes no block in CPython: "
              "later POP_BLOCKs get the wrong block_target", {"PUSHES_BLOCK": True})
    if name in REF.BLOCK_POP:
      n += 1
      ctx.check(bool(oc.flags & pops), f"pop:{name}", OPC, oc.line,
                f"{name} lacks POPS_BLOCK: the splitter does not end the basic "
                "block after it, so its block_target edge (read from the last "
                "instruction only) is lost", {"POPS_BLOCK": bool(oc.flags & pops)})
  if n < 4:
    raise AnalysisError("fewer block-structure opcodes than expected")
  # POP_BLOCK's block_target is set from the block stack
  pb = []
  for gfn in group:
    sets = [st for st in U.walk_scope(gfn) if isinstance(st, ast.Assign) and any(
        isinstance(t, ast.Attribute) and t.attr == "block_target" for t in st.targets)
        and not (isinstance(st.value, ast.Constant) and st.value.value is None)]
    for st in sets:
      tv = [t for t in st.targets if isinstance(t, ast.Attribute)][0].value
      g = _isinstance_classes(ctx, mod, st, dotted(tv), gfn, group) if isinstance(tv, ast.Name) else None
      if g and g <= REF.BLOCK_POP:
        pb.append(st)
  ctx.check(len(pb) == 1 and src(pb[0].value).endswith(".target"),
            "add_pop_block_targets:POP_BLOCK", BLOCKS, ap.lineno,
            "POP_BLOCK must get the target of the innermost pushed block as "
            "its block_target", {"assignments": [src(s) for s in pb]})


# -- R16.7 ------------------------------------------------------------------------

@rule("R16.7", "C16", floor=29)
def r16_7(ctx):
  """Known-jump classes have the operand slots _add_jump_targets writes."""
  tab = O.opcode_table(ctx)
  has_arg = tab.bit("HAS_ARGUMENT")
  for name in sorted(tab.opcode_classes):
    seen = set()
    for v in O.VERSIONS:
      oc = tab.resolve(name, v)
      if not tab.known_jump(oc) or (oc.line, oc.flags) in seen:
        continue
      seen.add((oc.line, oc.flags))
      construct = name if not oc.versioned else f"{name}@{_ver(v)}"
      ctx.check(bool(oc.flags & has_arg) and oc.with_arg_base, construct, OPC, oc.line,
                f"{name} has a known-jump flag but no operand slots: "
                "_add_jump_targets reads op.argval and assigns op.arg "
                "(AttributeError while building the opcode list)",
                {"HAS_ARGUMENT": bool(oc.flags & has_arg),
                 "OpcodeWithArg": oc.with_arg_base})


_D17_LOOP = (
    "    for op in block.code[1:-1]:\n"
    "      # An instruction that only stores a jump (SETUP_EXCEPT_311) neither\n"
    "      # starts nor ends a block, so it can sit in the middle of one.\n"
    "      if op.target:\n"
    "        block.connect_outgoing(first_op_to_block[op.target])\n")

# -- R16.8 total traversal of the instruction stream ------------------------------

_STREAM_PASSES = {
    "pytype/pyc/opcodes.py": ["_make_opcodes", "_add_setup_except", "_make_opcode_list",
                              "_add_jump_targets", "_add_async_for_jump_back_targets"],
    "pytype/blocks/blocks.py": ["add_pop_block_targets", "_split_bytecode",
                                "_remove_jmp_to_get_anext_and_merge",
                                "_remove_jump_back_block", "compute_order"],
}


def _stream_names(fn, seed=None):
  """Names that denote the whole instruction stream / exception table / block
  list inside fn: its parameters (or, for a helper a pass delegates a phase
  to, the parameters that receive a stream: `seed`) and locals derived from
  them by list(), sorted(), enumerate(), .items(), .entries."""
  names = {a.arg for a in fn.args.args + fn.args.kwonlyargs} if seed is None else set(seed)
  changed = True
  while changed:
    changed = False
    for n in ast.walk(fn):
      if isinstance(n, ast.Assign) and len(n.targets) == 1 and isinstance(n.targets[0], ast.Name):
        if _is_stream(n.value, names) and n.targets[0].id not in names:
          names.add(n.targets[0].id)
          changed = True
  return names


def _is_stream(e, names):
  if isinstance(e, ast.Name):
    return e.id in names
  if isinstance(e, ast.Attribute) and e.attr in ("entries", "opcodes", "code", "order"):
    return _is_stream(e.value, names)
  if isinstance(e, ast.Call):
    d = dotted(e.func) or ""
    if d in ("list", "sorted", "enumerate", "reversed", "tuple") and e.args:
      return _is_stream(e.args[0], names)
    if isinstance(e.func, ast.Attribute) and e.func.attr in ("items", "values", "keys") and not e.args:
      return _is_stream(e.func.value, names)
  return False


def _early_exits(loop):
  out = []
  todo = list(loop.body)
  while todo:
    n = todo.pop()
    if isinstance(n, (ast.Break, ast.Return)):
      out.append(n)
    if isinstance(n, (ast.FunctionDef, ast.AsyncFunctionDef, ast.Lambda, ast.ClassDef)):
      continue
    if isinstance(n, (ast.For, ast.While)):
      out.extend(m for m in ast.walk(n) if isinstance(m, ast.Return))
      continue
    todo.extend(ast.iter_child_nodes(n))
  return out


@rule("R16.8", "C16", floor=12)
def r16_8(ctx):
  """Passes over the instruction stream visit every element.

  The property quantifies over every instruction, jump and exception-table
  entry of a code object; each construction pass (opcode list, jump targets,
  exception ranges, async-for links, block splitting, edges) must therefore
  process its whole input: a for-loop over the stream / table / block list
  may `continue` but must not `break` or `return` out of it.
  """
  for rel, fns in _STREAM_PASSES.items():
    mod = get_module(ctx, rel)
    for name in fns:
      for fn, names in _phases(mod, mod.func(name)):
        for lp in ast.walk(fn):
          if isinstance(lp, ast.For) and _is_stream(lp.iter, names):
            ex = _early_exits(lp)
            where = name if fn.name == name else f"{name} (phase {fn.name})"
            ctx.check(not ex, f"{name}:for {src(lp.iter)}", rel, lp.lineno,
                      f"the loop over `{src(lp.iter)}` in {where} can stop early "
                      f"({', '.join(type(x).__name__.lower() + '@' + str(x.lineno) for x in ex)}): "
                      "later instructions / table entries are never processed",
                      {"iter": src(lp.iter), "early_exits": len(ex), "in": fn.name})


def _phases(mod, fn, depth=2):
  """(function, stream names) for a pass and for the module-local helpers it
  delegates a whole *phase* to: a call that is a statement of the pass's own
  top-level body (`f(stream, ..)` / `x = f(stream, ..)`, unconditional, outside
  every loop) and hands over a stream name.  Helpers called per element from
  inside a loop (look-ups, predicates) are not phases: they may stop early."""
  out = [(fn, _stream_names(fn))]
  todo = [(fn, out[0][1], depth)]
  seen = {fn}
  while todo:
    f, names, d = todo.pop(0)
    if d <= 0:
      continue
    for st in f.body:
      call = None
      if isinstance(st, ast.Expr) and isinstance(st.value, ast.Call):
        call = st.value
      elif isinstance(st, ast.Assign) and isinstance(st.value, ast.Call):
        call = st.value
      if call is None:
        continue
      callee = U.callee_of(mod, call, within=f)
      if callee is None or callee in seen:
        continue
      try:
        pairs = U._bind(callee, call, False, lenient=True)  # pylint: disable=protected-access
      except U.NotInlinable:
        continue
      seed = {p for p, v in pairs if _is_stream(v, names)}
      if not seed:
        continue
      seen.add(callee)
      cnames = _stream_names(callee, seed)
      out.append((callee, cnames))
      todo.append((callee, cnames, d - 1))
  return out


# -- refactored shapes (behaviour-preserving, see benign/C16-r*) used by variants ----

_CLOSE_INLINE = (
    "    if (\n"
    "        op.no_next()\n"
    "        or op.does_jump()\n"
    "        or op.pops_block()\n"
    "        or op.next is None\n"
    "        or (op.next in targets)\n"
    "        and (\n"
    "            not isinstance(op.next, opcodes.GET_ANEXT)\n"
    "            or python_version < (3, 12)\n"
    "        )\n"
    "    ):\n")
_CLOSE_CALL = "    if _ends_block(op, targets, python_version):\n"
_NEXT_DEF = "def _preprocess_async_for_and_yield(\n"


def _ends_block_def(first, second="  if op.next is None:\n    return True\n"
                    "  if op.next not in targets:\n    return False\n"):
  return ("def _ends_block(op, targets, python_version):\n" + first + second +
          "  return (\n      not isinstance(op.next, opcodes.GET_ANEXT) or python_version < (3, 12)\n  )\n\n\n")


def _extract_closing(first, **kw):
  return [(BLOCKS, _CLOSE_INLINE, _CLOSE_CALL),
          (BLOCKS, _NEXT_DEF, _ends_block_def(first, **kw) + _NEXT_DEF)]


# compute_order's per-block wiring moved into `_connect_block` (body kept at
# its 4-space indentation, which is valid Python)
_EXTRACT_CONNECT = [
    (BLOCKS, "    first_op, last_op = block.code[0], block.code[-1]\n",
     "    _connect_block(block, next_block, first_op_to_block)\n"
     "  return cfg_utils.order_nodes(blocks)\n\n\n"
     "def _connect_block(block, next_block, first_op_to_block):\n"
     "    first_op, last_op = block.code[0], block.code[-1]\n"),
    (BLOCKS, "      block.connect_outgoing(first_op_to_block[last_op.block_target])\n"
     "  return cfg_utils.order_nodes(blocks)\n",
     "      block.connect_outgoing(first_op_to_block[last_op.block_target])\n"),
]

_MIN_INLINE = (
    "    _, _, node = min(\n"
    "        (len(predecessors), node.id, node)\n"
    "        for node, predecessors in queue.items()\n"
    "    )\n"
    "    del queue[node]\n")


def _extract_pop_next(key):
  return [(CFG_UTILS, _MIN_INLINE, "    node = _pop_next_node(queue)\n"),
          (CFG_UTILS, "class SuccessorNode(Protocol):\n",
           "def _pop_next_node(queue):\n"
           f"  _, _, node = min({key} for node, predecessors in queue.items())\n"
           "  del queue[node]\n  return node\n\n\nclass SuccessorNode(Protocol):\n")]


_JT_INLINE = ("      op.arg = op.argval = offset_to_index[op.argval]\n"
              "      op.target = ops[op.arg]\n")

# the POP_BLOCK arm of add_pop_block_targets delegated to a helper
_POP_ARM = ("      assert block_stack, \"POP_BLOCK without block.\"\n"
            "      op.block_target = block_stack[-1].target\n"
            "      block_stack = block_stack[0:-1]\n")


def _extract_pop_arm(value):
  return [(BLOCKS, _POP_ARM, "      block_stack = _pop_block(op, block_stack)\n"),
          (BLOCKS, "def _split_bytecode(\n",
           "def _pop_block(op, block_stack):\n"
           "  assert block_stack, \"POP_BLOCK without block.\"\n"
           f"  op.block_target = {value}\n"
           "  return block_stack[:-1]\n\n\ndef _split_bytecode(\n")]


# _add_setup_except delegating its whole work to a phase helper
_SETUP_DELEGATES = [
    (OPC, "def _add_setup_except(\n", "def _add_setup_except_impl(\n"),
    (OPC, "def _get_opcode_following_cleanup_throw_jump_pairs(\n",
     "def _add_setup_except(offset_to_op, exc_table):\n"
     "  _add_setup_except_impl(offset_to_op, exc_table)\n\n\n"
     "def _get_opcode_following_cleanup_throw_jump_pairs(\n"),
]

_EDGE_IFS = ("    if first_op.target:\n"
             "      # Handles SETUP_EXCEPT -> except block\n"
             "      block.connect_outgoing(first_op_to_block[first_op.target])\n"
             "    if last_op.target:\n"
             "      block.connect_outgoing(first_op_to_block[last_op.target])\n"
             "    for op in block.code[1:-1]:\n"
             "      # An instruction that only stores a jump (SETUP_EXCEPT_311) neither\n"
             "      # starts nor ends a block, so it can sit in the middle of one.\n"
             "      if op.target:\n"
             "        block.connect_outgoing(first_op_to_block[op.target])\n"
             "    if last_op.block_target:\n"
             "      block.connect_outgoing(first_op_to_block[last_op.block_target])\n")


def _successor_list(header="itertools.zip_longest(blocks, blocks[1:])",
                    first="[first_op.target, last_op.target]",
                    middle="    successor_ops.extend(op.target for op in block.code[1:-1])\n",
                    last="    successor_ops.append(last_op.block_target)\n",
                    guard="successor_op", extra=""):
  """compute_order's edge loop in the shape of benign/C16-b3r1 (blocks paired
  with their successors by zip_longest, one loop over a successor-op list),
  with room for a defect."""
  return [
      (BLOCKS, "from collections.abc import Iterator\n",
       "from collections.abc import Iterator\nimport itertools\n"),
      (BLOCKS, "  for i, block in enumerate(blocks):\n"
       "    next_block = blocks[i + 1] if i < len(blocks) - 1 else None\n",
       f"  for block, next_block in {header}:\n"),
      (BLOCKS, _EDGE_IFS,
       f"    successor_ops = {first}\n" + middle + last + extra +
       "    for successor_op in successor_ops:\n"
       f"      if {guard}:\n"
       "        block.connect_outgoing(first_op_to_block[successor_op])\n")]


VARIANTS = [
    # benign/C16-b3r1: zip_longest pairing + one loop over a successor-op list
    {"name": "twin-successor-list", "rule": "R16.4", "expect": "silent",
     "edits": _successor_list()},
    {"name": "twin-successor-list-r5", "rule": "R16.5", "expect": "silent",
     "edits": _successor_list()},
    {"name": "successor-list-lacks-block-target", "rule": "R16.4", "expect": "fire",
     "edits": _successor_list(last="")},
    {"name": "successor-list-lacks-first-target", "rule": "R16.4", "expect": "fire",
     "edits": _successor_list(first="[last_op.target]")},
    {"name": "successor-list-middle-skips-nothing-but-misses-last", "rule": "R16.4",
     "expect": "fire", "edits": _successor_list(first="[first_op.target]")},
    {"name": "successor-pairing-skips-a-block", "rule": "R16.4", "expect": "error",
     "edits": _successor_list(header="itertools.zip_longest(blocks, blocks[2:])")},
    {"name": "successor-pairing-by-zip-drops-last-block", "rule": "R16.4", "expect": "error",
     "edits": _successor_list(header="zip(blocks, blocks[1:])")},
    {"name": "successor-list-cleared-before-loop", "rule": "R16.4", "expect": "error",
     "edits": _successor_list(extra="    successor_ops.clear()\n")},
    {"name": "successor-list-guard-inverted", "rule": "R16.5", "expect": "fire",
     "edits": _successor_list(guard="not successor_op")},
    # -- R16.1
    {"name": "flag-value-aliases-another", "rule": "R16.1", "file": OPC, "expect": "fire",
     "old": "HAS_NARGS = 128  # stores", "new": "HAS_NARGS = 64  # stores"},
    {"name": "flag-not-a-power-of-two", "rule": "R16.1", "file": OPC, "expect": "fire",
     "old": "NO_NEXT = 512  #", "new": "NO_NEXT = 768  #"},
    {"name": "no_next-tests-store_jump", "rule": "R16.1", "file": OPC, "expect": "fire",
     "old": "  def no_next(cls):\n    return bool(cls._FLAGS & NO_NEXT)",
     "new": "  def no_next(cls):\n    return bool(cls._FLAGS & STORE_JUMP)"},
    {"name": "known_jump-includes-junknown", "rule": "R16.1", "file": OPC, "expect": "fire",
     "old": "    return bool(cls._FLAGS & (HAS_JREL | HAS_JABS))",
     "new": "    return bool(cls._FLAGS & (HAS_JREL | HAS_JABS | HAS_JUNKNOWN))"},
    {"name": "does_jump-forgets-store_jump", "rule": "R16.1", "file": OPC, "expect": "fire",
     "old": "    return cls.has_jump() and not cls.store_jump()",
     "new": "    return cls.has_jump()"},
    {"name": "pops_block-tests-pushes", "rule": "R16.1", "file": OPC, "expect": "fire",
     "old": "    return bool(cls._FLAGS & POPS_BLOCK)", "new": "    return bool(cls._FLAGS & PUSHES_BLOCK)"},
    {"name": "carry_on-polarity", "rule": "R16.1", "file": OPC, "expect": "fire",
     "old": "    return not cls._FLAGS & NO_NEXT", "new": "    return bool(cls._FLAGS & NO_NEXT)"},
    {"name": "twin-known_jump-via-helpers", "rule": "R16.1", "file": OPC, "expect": "silent",
     "old": "    return bool(cls._FLAGS & (HAS_JREL | HAS_JABS))",
     "new": "    return cls.has_jrel() or cls.has_jabs()"},
    {"name": "twin-does_jump-inlined", "rule": "R16.1", "file": OPC, "expect": "silent",
     "old": "    return cls.has_jump() and not cls.store_jump()",
     "new": "    return bool(cls._FLAGS & (HAS_JREL | HAS_JABS | HAS_JUNKNOWN)) and not cls._FLAGS & STORE_JUMP"},
    {"name": "twin-flags-as-shifts", "rule": "R16.1", "expect": "silent",
     "edits": [(OPC, "HAS_JREL = 4  #", "HAS_JREL = 1 << 2  #"),
               (OPC, "POPS_BLOCK = 4096  #", "POPS_BLOCK = 1 << 12  #")]},
    # -- R16.2
    {"name": "return_const-loses-no_next", "rule": "R16.2", "file": OPC, "expect": "fire",
     "old": "_FLAGS = HAS_ARGUMENT | HAS_CONST | NO_NEXT", "new": "_FLAGS = HAS_ARGUMENT | HAS_CONST"},
    {"name": "load_const-gets-jrel", "rule": "R16.2", "file": OPC, "expect": "fire",
     "old": "class LOAD_CONST(OpcodeWithArg):  # Arg: Index in const list\n  _FLAGS = HAS_ARGUMENT | HAS_CONST",
     "new": "class LOAD_CONST(OpcodeWithArg):  # Arg: Index in const list\n  _FLAGS = HAS_ARGUMENT | HAS_CONST | HAS_JREL"},
    {"name": "send-loses-jump-flag", "rule": "R16.2", "file": OPC, "expect": "fire",
     "old": "class SEND(OpcodeWithArg):\n  _FLAGS = HAS_ARGUMENT | HAS_JREL",
     "new": "class SEND(OpcodeWithArg):\n  _FLAGS = HAS_ARGUMENT"},
    {"name": "end_async_for-gets-no_next", "rule": "R16.2", "file": OPC, "expect": "fire",
     "old": "  _FLAGS = HAS_JUNKNOWN\n  __slots__ = ()\n\n\nclass INPLACE_ADD",
     "new": "  _FLAGS = HAS_JUNKNOWN | NO_NEXT\n  __slots__ = ()\n\n\nclass INPLACE_ADD"},
    {"name": "versioned-yield_value-gets-no_next", "rule": "R16.2", "file": OPC, "expect": "fire",
     "old": "        _FLAGS = HAS_JUNKNOWN\n", "new": "        _FLAGS = HAS_JUNKNOWN | NO_NEXT\n"},
    {"name": "reraise-handler-reads-39-operand", "rule": "R16.2", "file": VM, "expect": "fire",
     "old": "  def byte_RERAISE(self, state, op):\n    del op  # unused\n",
     "new": "  def byte_RERAISE(self, state, op):\n    log.debug(\"reraise %r\", op.arg)\n"},
    {"name": "pop_jump_if_true-no-jump", "rule": "R16.2", "file": OPC, "expect": "fire",
     "old": "class POP_JUMP_IF_TRUE(OpcodeWithArg):\n  _FLAGS = HAS_ARGUMENT | HAS_JREL",
     "new": "class POP_JUMP_IF_TRUE(OpcodeWithArg):\n  _FLAGS = HAS_ARGUMENT | HAS_JUNKNOWN"},
    {"name": "twin-flags-reordered", "rule": "R16.2", "file": OPC, "expect": "silent",
     "old": "_FLAGS = HAS_JREL | HAS_ARGUMENT | NO_NEXT", "new": "_FLAGS = NO_NEXT | HAS_ARGUMENT | HAS_JREL"},
    {"name": "twin-jabs-spelled-jrel", "rule": "R16.2", "file": OPC, "expect": "silent",
     "old": "class JUMP_ABSOLUTE(OpcodeWithArg):\n  _FLAGS = HAS_JABS | HAS_ARGUMENT | NO_NEXT",
     "new": "class JUMP_ABSOLUTE(OpcodeWithArg):\n  _FLAGS = HAS_JREL | HAS_ARGUMENT | NO_NEXT"},
    {"name": "twin-unconsumed-has_name-dropped", "rule": "R16.2", "file": OPC, "expect": "silent",
     "old": "class LOAD_NAME(OpcodeWithArg):  # Arg: Index in name list\n  _FLAGS = HAS_NAME | HAS_ARGUMENT",
     "new": "class LOAD_NAME(OpcodeWithArg):  # Arg: Index in name list\n  _FLAGS = HAS_ARGUMENT"},
    # -- R16.3
    {"name": "targets-for-unknown-jumps-too", "rule": "R16.3", "file": OPC, "expect": "fire",
     "old": "    elif op.has_known_jump():", "new": "    elif op.has_jump():"},
    {"name": "index-from-raw-arg", "rule": "R16.3", "file": OPC, "expect": "fire",
     "old": "op.arg = op.argval = offset_to_index[op.argval]",
     "new": "op.arg = op.argval = offset_to_index[op.arg]"},
    {"name": "setup-except-after-indexing", "rule": "R16.3", "expect": "fire",
     "edits": [
         (OPC, "  if dis_code.exception_table:\n    _add_setup_except(offset_to_op, dis_code.exception_table)\n", ""),
         (OPC, "  _add_jump_targets(ops, offset_to_idx)\n",
          "  _add_jump_targets(ops, offset_to_idx)\n  if dis_code.exception_table:\n"
          "    _add_setup_except(offset_to_op, dis_code.exception_table)\n")]},
    {"name": "jump-targets-only-for-312", "rule": "R16.3", "file": OPC, "expect": "fire",
     "old": "  _add_jump_targets(ops, offset_to_idx)\n  if dis_code.python_version >= (3, 12):\n",
     "new": "  if dis_code.python_version >= (3, 12):\n    _add_jump_targets(ops, offset_to_idx)\n"},
    {"name": "synthetic-setup-without-target", "rule": "R16.3", "file": OPC, "expect": "fire",
     "old": "  setup_op.target = target_op\n", "new": ""},
    {"name": "twin-local-renamed", "rule": "R16.3", "expect": "silent",
     "edits": [(OPC, "  ops, offset_to_idx = _make_opcode_list(", "  ops, o2i = _make_opcode_list("),
               (OPC, "  _add_jump_targets(ops, offset_to_idx)\n", "  _add_jump_targets(ops, o2i)\n")]},
    # -- R16.4
    {"name": "splitter-ignores-pops_block", "rule": "R16.4", "file": BLOCKS, "expect": "fire",
     "old": "        or op.pops_block()\n", "new": ""},
    {"name": "splitter-ignores-end-of-code", "rule": "R16.4", "file": BLOCKS, "expect": "fire",
     "old": "        or op.next is None\n", "new": ""},
    {"name": "splitter-and-instead-of-or", "rule": "R16.4", "file": BLOCKS, "expect": "fire",
     "old": "        op.no_next()\n        or op.does_jump()", "new": "        op.no_next()\n        and op.does_jump()"},
    {"name": "targets-set-of-next", "rule": "R16.4", "file": BLOCKS, "expect": "fire",
     "old": "targets = {op.target for op in bytecode if op.target}",
     "new": "targets = {op.next for op in bytecode if op.target}"},
    {"name": "fallthrough-unconditional", "rule": "R16.4", "file": BLOCKS, "expect": "fire",
     "old": "    if next_block and not last_op.no_next():", "new": "    if next_block:"},
    {"name": "fallthrough-inverted", "rule": "R16.4", "file": BLOCKS, "expect": "fire",
     "old": "    if next_block and not last_op.no_next():", "new": "    if next_block and last_op.no_next():"},
    {"name": "block_target-edge-removed", "rule": "R16.4", "file": BLOCKS, "expect": "fire",
     "old": "    if last_op.block_target:\n      block.connect_outgoing(first_op_to_block[last_op.block_target])\n",
     "new": ""},
    {"name": "map-keyed-on-last-op", "rule": "R16.4", "file": BLOCKS, "expect": "fire",
     "old": "first_op_to_block = {block.code[0]: block for block in blocks}",
     "new": "first_op_to_block = {block.code[-1]: block for block in blocks}"},
    {"name": "order_nodes-key-without-id", "rule": "R16.4", "file": CFG_UTILS, "expect": "fire",
     "old": "        (len(predecessors), node.id, node)", "new": "        (len(predecessors), node)"},
    {"name": "order-before-pop-block-targets", "rule": "R16.4", "file": BLOCKS, "expect": "fire",
     "old": "  add_pop_block_targets(ops)\n  blocks = compute_order(ops, dis_code.python_version)",
     "new": "  blocks = compute_order(ops, dis_code.python_version)\n  add_pop_block_targets(ops)"},
    {"name": "connect_outgoing-records-incoming-only", "rule": "R16.4", "file": BLOCKS, "expect": "fire",
     "old": "    self.outgoing.add(target)\n    target.incoming.add(self)",
     "new": "    target.incoming.add(self)"},
    {"name": "twin-disjuncts-reordered", "rule": "R16.4", "file": BLOCKS, "expect": "silent",
     "old": "        op.no_next()\n        or op.does_jump()", "new": "        op.does_jump()\n        or op.no_next()"},
    {"name": "twin-first-last-bound-separately", "rule": "R16.4", "file": BLOCKS, "expect": "silent",
     "old": "    first_op, last_op = block.code[0], block.code[-1]\n",
     "new": "    first_op = block[0]\n    last_op = block.code[-1]\n"},
    # -- R16.5
    {"name": "revert-D17-fix", "rule": "R16.5", "file": BLOCKS, "expect": "fire",
     "old": _D17_LOOP, "new": ""},
    {"name": "first-instruction-target-edge-dropped", "rule": "R16.5", "expect": "fire",
     "edits": [(BLOCKS, "    if first_op.target:\n      # Handles SETUP_EXCEPT -> except block\n"
                "      block.connect_outgoing(first_op_to_block[first_op.target])\n", "")]},
    {"name": "odd-slice-not-understood", "rule": "R16.5", "file": BLOCKS, "expect": "error",
     "old": "    for op in block.code[1:-1]:", "new": "    for op in block.code[2:-1]:"},
    {"name": "twin-one-loop-over-whole-block", "rule": "R16.5", "expect": "silent",
     "edits": [
         (BLOCKS, "    if first_op.target:\n      # Handles SETUP_EXCEPT -> except block\n"
          "      block.connect_outgoing(first_op_to_block[first_op.target])\n"
          "    if last_op.target:\n      block.connect_outgoing(first_op_to_block[last_op.target])\n", ""),
         (BLOCKS, "    for op in block.code[1:-1]:", "    for op in block.code:")]},
    {"name": "twin-middle-loop-via-getitem", "rule": "R16.5", "file": BLOCKS, "expect": "silent",
     "old": "    for op in block.code[1:-1]:", "new": "    for op in block[1:-1]:"},
    {"name": "seeded-C16-r3m1", "rule": "R16.5", "patch": "seeded/C16-r3m1/patch.diff",
     "expect": "fire"},
    # the same obligation broken by other class tests on the instruction
    {"name": "last-target-edge-skips-store-jumps", "rule": "R16.5", "file": BLOCKS,
     "expect": "fire", "old": "    if last_op.target:\n",
     "new": "    if last_op.target and not last_op.store_jump():\n"},
    {"name": "middle-target-edge-only-for-real-jumps", "rule": "R16.5", "file": BLOCKS,
     "expect": "fire", "old": "      if op.target:\n",
     "new": "      if op.target and op.does_jump():\n"},
    {"name": "first-target-edge-only-for-old-setup-opcodes", "rule": "R16.5", "file": BLOCKS,
     "expect": "fire", "old": "    if first_op.target:\n",
     "new": "    if first_op.target and isinstance(first_op, (opcodes.SETUP_FINALLY, opcodes.SETUP_WITH)):\n"},
    {"name": "last-target-edge-guard-clause-on-does-jump", "rule": "R16.5", "file": BLOCKS,
     "expect": "fire",
     "old": "    if last_op.target:\n      block.connect_outgoing(first_op_to_block[last_op.target])\n",
     "new": "    if last_op.target:\n      if last_op.does_jump():\n"
            "        block.connect_outgoing(first_op_to_block[last_op.target])\n"},
    # class tests implied by `.target` being set / by the position are harmless
    {"name": "twin-last-target-edge-redundant-known-jump-test", "rule": "R16.5", "file": BLOCKS,
     "expect": "silent", "old": "    if last_op.target:\n",
     "new": "    if last_op.has_known_jump() and last_op.target:\n"},
    {"name": "twin-first-and-middle-edges-for-store-jumps-only", "rule": "R16.5",
     "expect": "silent",
     "edits": [(BLOCKS, "    if first_op.target:\n",
                "    if first_op.target and first_op.store_jump():\n"),
               (BLOCKS, "      if op.target:\n",
                "      if op.store_jump() and op.target:\n")]},
    {"name": "twin-two-edge-rules-prefix-loop-plus-last", "rule": "R16.5", "expect": "silent",
     "edits": [
         (BLOCKS, "    if first_op.target:\n      # Handles SETUP_EXCEPT -> except block\n"
          "      block.connect_outgoing(first_op_to_block[first_op.target])\n", ""),
         (BLOCKS, "    for op in block.code[1:-1]:", "    for op in block.code[:-1]:")]},
    {"name": "target-edge-guard-not-a-class-test", "rule": "R16.5", "file": BLOCKS,
     "expect": "error", "old": "    if last_op.target:\n",
     "new": "    if last_op.target and last_op.index > 0:\n"},
    # -- R16.6
    {"name": "setup_with-does-not-push", "rule": "R16.6", "file": OPC, "expect": "fire",
     "old": "class SETUP_WITH(OpcodeWithArg):\n  _FLAGS = HAS_JREL | HAS_ARGUMENT | STORE_JUMP | PUSHES_BLOCK",
     "new": "class SETUP_WITH(OpcodeWithArg):\n  _FLAGS = HAS_JREL | HAS_ARGUMENT | STORE_JUMP"},
    {"name": "pop_block-does-not-end-block", "rule": "R16.6", "file": OPC, "expect": "fire",
     "old": "class POP_BLOCK(Opcode):\n  _FLAGS = POPS_BLOCK", "new": "class POP_BLOCK(Opcode):\n  _FLAGS = 0"},
    {"name": "for_iter-pushes-block", "rule": "R16.6", "file": OPC, "expect": "fire",
     "old": "class FOR_ITER(OpcodeWithArg):\n  _FLAGS = HAS_JREL | HAS_ARGUMENT",
     "new": "class FOR_ITER(OpcodeWithArg):\n  _FLAGS = HAS_JREL | HAS_ARGUMENT | PUSHES_BLOCK"},
    {"name": "pop_block-target-from-outermost", "rule": "R16.6", "file": BLOCKS, "expect": "fire",
     "old": "      op.block_target = block_stack[-1].target", "new": "      op.block_target = block_stack[-1]"},
    {"name": "twin-setup_finally-recognised-by-isinstance", "rule": "R16.6", "file": OPC, "expect": "silent",
     "old": "class SETUP_FINALLY(OpcodeWithArg):\n  _FLAGS = HAS_JREL | HAS_ARGUMENT | STORE_JUMP | PUSHES_BLOCK",
     "new": "class SETUP_FINALLY(OpcodeWithArg):\n  _FLAGS = HAS_JREL | HAS_ARGUMENT | STORE_JUMP"},
    # -- R16.7
    {"name": "jump-class-without-operand-slots", "rule": "R16.7", "file": OPC, "expect": "fire",
     "old": "class FOR_ITER(OpcodeWithArg):\n  _FLAGS = HAS_JREL | HAS_ARGUMENT",
     "new": "class FOR_ITER(Opcode):\n  _FLAGS = HAS_JREL"},
    {"name": "twin-jump-flag-order", "rule": "R16.7", "file": OPC, "expect": "silent",
     "old": "class SEND(OpcodeWithArg):\n  _FLAGS = HAS_ARGUMENT | HAS_JREL",
     "new": "class SEND(OpcodeWithArg):\n  _FLAGS = HAS_JREL | HAS_ARGUMENT"},
    {"name": "seeded-C16-m1", "rule": "R16.8", "patch": "seeded/C16-m1/patch.diff", "expect": "fire"},
    {"name": "jump-targets-stop-at-first-unknown", "rule": "R16.8", "file": "pytype/pyc/opcodes.py", "expect": "fire",
     "old": "      op.target = ops[op.arg]\n", "new": "      op.target = ops[op.arg]\n    elif op.has_jump():\n      break\n"},
    {"name": "twin-async-for-continue", "rule": "R16.8", "file": "pytype/pyc/opcodes.py", "expect": "silent",
     "old": "      for jump_backward in get_anext_incoming[get_anext]:\n        jump_backward.end_async_for_target = offset_to_op[e.target]\n",
     "new": "      for jump_backward in get_anext_incoming[get_anext]:\n        jump_backward.end_async_for_target = offset_to_op[e.target]\n      continue\n"},
    # -- behaviour-preserving refactorings (whole patches) must stay silent
    {"name": "twin-benign-C16-r1-extract-helpers", "rule": "R16.4",
     "patch": "benign/C16-r1/patch.diff", "expect": "silent"},
    {"name": "twin-benign-C16-r2-split-setup-except", "rule": "R16.8",
     "patch": "benign/C16-r2/patch.diff", "expect": "silent"},
    {"name": "twin-benign-C16-r3-pop-next-node", "rule": "R16.4",
     "patch": "benign/C16-r3/patch.diff", "expect": "silent"},
    {"name": "twin-benign-C16-r4-block-stack-helper", "rule": "R16.6",
     "patch": "benign/C16-r4/patch.diff", "expect": "silent"},
    # -- the same defects, seeded into the refactored shapes
    {"name": "twin-closing-predicate-extracted", "rule": "R16.4", "expect": "silent",
     "edits": _extract_closing(
         "  if op.no_next() or op.does_jump() or op.pops_block():\n    return True\n")},
    {"name": "extracted-predicate-ignores-pops_block", "rule": "R16.4", "expect": "fire",
     "edits": _extract_closing("  if op.no_next() or op.does_jump():\n    return True\n")},
    {"name": "extracted-predicate-and-instead-of-or", "rule": "R16.4", "expect": "fire",
     "edits": _extract_closing(
         "  if op.no_next() and op.does_jump() or op.pops_block():\n    return True\n")},
    # `None in targets` is False, so the last block of the code is never closed
    {"name": "extracted-predicate-tests-targets-before-end-of-code", "rule": "R16.4",
     "expect": "fire",
     "edits": _extract_closing(
         "  if op.no_next() or op.does_jump() or op.pops_block():\n    return True\n",
         second="  if op.next not in targets:\n    return False\n"
                "  if op.next is None:\n    return True\n")},
    {"name": "extracted-predicate-inverted-guard", "rule": "R16.4", "expect": "fire",
     "edits": _extract_closing(
         "  if op.no_next() or op.does_jump() or op.pops_block():\n    return True\n",
         second="  if op.next is None:\n    return True\n"
                "  if op.next in targets:\n    return False\n")},
    {"name": "extracted-predicate-loses-does-jump-R16.20", "rule": "R16.20", "expect": "fire",
     "edits": _extract_closing(
         "  if op.no_next() or op.has_known_jump() or op.pops_block():\n    return True\n")},
    {"name": "twin-connect-block-extracted", "rule": "R16.5", "expect": "silent",
     "edits": _EXTRACT_CONNECT},
    {"name": "connect-block-extracted-without-D17-loop", "rule": "R16.5", "expect": "fire",
     "edits": _EXTRACT_CONNECT + [(BLOCKS, _D17_LOOP, "")]},
    {"name": "connect-block-extracted-fallthrough-unconditional", "rule": "R16.4",
     "expect": "fire",
     "edits": _EXTRACT_CONNECT + [
         (BLOCKS, "    if next_block and not last_op.no_next():", "    if next_block:")]},
    {"name": "connect-block-extracted-block_target-edge-removed", "rule": "R16.4",
     "expect": "fire",
     "edits": [_EXTRACT_CONNECT[0],
               (BLOCKS, "    if last_op.block_target:\n"
                "      block.connect_outgoing(first_op_to_block[last_op.block_target])\n"
                "  return cfg_utils.order_nodes(blocks)\n", "")]},
    {"name": "twin-pop-next-node-extracted", "rule": "R16.4", "expect": "silent",
     "edits": _extract_pop_next("(len(predecessors), node.id, node)")},
    {"name": "pop-next-node-extracted-key-without-id", "rule": "R16.4", "expect": "fire",
     "edits": _extract_pop_next("(len(predecessors), node)")},
    {"name": "twin-jump-index-hoisted", "rule": "R16.3", "file": OPC, "expect": "silent",
     "old": _JT_INLINE,
     "new": "      target_index = offset_to_index[op.argval]\n"
            "      op.arg = op.argval = target_index\n"
            "      op.target = ops[target_index]\n"},
    {"name": "hoisted-jump-index-from-raw-arg", "rule": "R16.3", "file": OPC, "expect": "fire",
     "old": _JT_INLINE,
     "new": "      target_index = offset_to_index[op.arg]\n"
            "      op.arg = op.argval = target_index\n"
            "      op.target = ops[target_index]\n"},
    {"name": "hoisted-jump-index-read-after-overwrite", "rule": "R16.3", "file": OPC,
     "expect": "fire", "old": _JT_INLINE,
     "new": "      op.argval = op.arg\n"
            "      target_index = offset_to_index[op.argval]\n"
            "      op.arg = op.argval = target_index\n"
            "      op.target = ops[target_index]\n"},
    {"name": "jump-index-through-unknown-helper", "rule": "R16.3", "file": OPC,
     "expect": "error", "old": _JT_INLINE,
     "new": "      op.arg = op.argval = _lookup(offset_to_index, op)\n"
            "      op.target = ops[op.arg]\n"},
    {"name": "seeded-C16-r4m2", "rule": "R16.3",
     "patch": "seeded/C16-r4m2/patch.diff", "expect": "fire"},
    {"name": "jump-target-read-from-the-index-table", "rule": "R16.3", "file": OPC,
     "expect": "fire", "old": _JT_INLINE,
     "new": "      op.arg = op.argval = offset_to_index[op.argval]\n"
            "      op.target = offset_to_index[op.arg]\n"},
    {"name": "jump-target-from-offset-dict-bypassing-the-list", "rule": "R16.3",
     "expect": "fire",
     "edits": [(OPC, "def _add_jump_targets(ops, offset_to_index):",
                "def _add_jump_targets(ops, by_offset):"),
               (OPC, _JT_INLINE,
                "      op.target = by_offset[op.argval]\n"
                "      op.arg = op.argval = op.target.index\n"),
               (OPC, "  _add_jump_targets(ops, offset_to_idx)\n",
                "  _add_jump_targets(ops, offset_to_op)\n")]},
    {"name": "twin-jump-target-first-then-its-index", "rule": "R16.3", "file": OPC,
     "expect": "silent", "old": _JT_INLINE,
     "new": "      op.target = ops[offset_to_index[op.argval]]\n"
            "      op.arg = op.argval = op.target.index\n"},
    {"name": "twin-pop-block-arm-extracted", "rule": "R16.6", "expect": "silent",
     "edits": _extract_pop_arm("block_stack[-1].target")},
    {"name": "extracted-pop-block-arm-targets-the-setup-op", "rule": "R16.6", "expect": "fire",
     "edits": _extract_pop_arm("block_stack[-1]")},
    {"name": "twin-setup-except-delegates-to-phase", "rule": "R16.8", "expect": "silent",
     "edits": _SETUP_DELEGATES},
    {"name": "delegated-phase-stops-at-async-for-entry", "rule": "R16.8", "expect": "fire",
     "edits": _SETUP_DELEGATES + [
         (OPC, "      # This entry corresponds to an `async for` block.\n      continue\n",
          "      # This entry corresponds to an `async for` block.\n      break\n")]},
]

EXPLANATION += (
    "\n\nR16.4 / R16.5, spellings of compute_order's edge loop: before the edges "
    "are classified the (inlined, private) AST of the loop is rewritten into the "
    "canonical form by two exact equivalences (_desugar_edge_loop).  "
    "`for b, n in itertools.zip_longest(xs, xs[1:])` - xs not mentioned in the "
    "body, b and n not re-bound - is `for i, b in enumerate(xs)` with `n = xs[i "
    "+ 1] if i < len(xs) - 1 else None`; any other zip_longest / zip pairing is "
    "an AnalysisError.  A list of successor instructions built directly in the "
    "loop body by a list literal, append and extend(<one-generator "
    "comprehension>) of plain attribute reads, and walked by exactly one inner "
    "loop whose body only guards connect_outgoing calls, is unrolled in element "
    "order: the body once per literal element, a `for` over the comprehension's "
    "iterable for an extend.  The unrolled statements are then judged exactly "
    "like the hand-written `if x.target: connect_outgoing(...)` statements, so "
    "a missing element is a missing edge."
)
ASSUMPTIONS += [
    "R16.4/R16.5 (successor list): Block.connect_outgoing does not change the "
    ".target / .block_target of an instruction nor a block's code list, so "
    "reading the successor instructions before the first edge is added "
    "(list form) or between the edges (if form) gives the same values",
]
