"""C06 extension: dotted-name prefix rewrites keep the WHOLE remainder.

Several helpers on the stub hand-off path take a dotted name `a.b.C.D`, look
for the longest prefix that a table knows (a module alias, a loaded module)
and rebuild a result from the table entry and "the rest".  R6.6 decides the
*order* in which prefixes are tried.  R6.20 decides the *relation* between
input and output: on every input of a small scope (names of 1..5 distinct
components and one name with repeated components x every table over the
name's prefixes) the function's AST is evaluated concretely
(rules/_minieval.py: str/list/dict semantics are the host's, everything else
must lie inside a small fragment, else ANALYSIS-ERROR) and

  * match:     the result carries the entry of the LONGEST known prefix p,
               in front, and - reading the other strings of the result as
               dotted components - exactly name[len(p):], every component,
               in order (the seeded slip kept only the last component);
  * no match:  the result carries no table entry and still spells the whole
               name (or the function raises).
  * the function terminates.
"""
import ast
import itertools

from sa.core import rule, AnalysisError
from sa.pyindex import get_module
from rules import _minieval as me

SERIALIZE = "pytype/pytd/serialize_ast.py"
LOAD = "pytype/load_pytd.py"
VISITORS = "pytype/pytd/visitors.py"


def _tok(prefix):
  # no token is a substring of another one or of a name component
  return f"TOK{prefix.count('.') + 1}X"


def _world_undo_aliases(name, known):
  table = {p: _tok(p) for p in known}
  node = me.replaceable(("pytd.LateType",), name=name, recursive=False)
  return {"self": me.Obj(("UndoModuleAliasesVisitor",),
                         {"_module_aliases": table}), "node": node}, node


def _world_resolve_alias(name, known):
  # aliases are stored as "<ast name>.<alias>"; entries that are not modules
  # must be ignored (distractors for every prefix that is not `known`)
  parts = name.split(".")
  aliases = []
  for i in range(1, len(parts) + 1):
    p = ".".join(parts[:i])
    if p in known:
      aliases.append((f"m.{p}", me.Obj(("pytd.Module",),
                                       {"name": f"m.{p}", "module_name": _tok(p)})))
    elif i % 2:
      aliases.append((f"m.{p}", me.Obj(("pytd.NamedType",), {"name": "zzz"})))
  lookup_ast = me.Obj(("pytd.TypeDeclUnit",),
                      {"name": "m", "aliases": tuple(aliases)})
  return {"self": me.Obj(("_Resolver",)), "name": name,
          "lookup_ast": lookup_ast}, name


def _world_module_map(name, known):
  table = {p: _tok(p) for p in known}
  return {"self": me.Obj(("LookupExternalTypes",), {"_module_map": table}),
          "name": name}, name


# (file, qualified function, world builder, may the whole name match?)
_TARGETS = [
    (SERIALIZE, "UndoModuleAliasesVisitor.VisitLateType", _world_undo_aliases, False),
    (LOAD, "_Resolver.resolve_module_alias", _world_resolve_alias, True),
    (VISITORS, "LookupExternalTypes._LookupModuleRecursive", _world_module_map, True),
]

_NAMES = ["a", "a.b", "a.b.c", "a.b.c.d", "a.b.c.d.e", "p.p.p.p"]


def _components(strings, token):
  out = []
  for s in strings:
    s = s.replace(token, "", 1) if token else s
    out.extend(c for c in s.split(".") if c)
  return out


def _scope(whole):
  for name in _NAMES:
    parts = name.split(".")
    top = len(parts) if whole else len(parts) - 1
    prefixes = [".".join(parts[:i]) for i in range(1, top + 1)]
    for r in range(len(prefixes) + 1):
      for known in itertools.combinations(prefixes, r):
        yield name, parts, known


def _show(v):
  if isinstance(v, me.Obj):
    rep = getattr(v, "attrs_replaced", None)
    return f"Replace({rep})" if rep is not None else repr(v)
  return repr(v)


@rule("R6.20", "C06", floor=6)
def r6_20(ctx):
  """Prefix rewrites of dotted names: longest known prefix + whole remainder."""
  for rel, qual, world, whole in _TARGETS:
    mod = get_module(ctx, rel)
    fn = mod.func(qual)
    tag = f"{rel.rsplit('/', 1)[-1]}:{qual}"
    bad_match = bad_miss = None
    n_match = n_miss = 0
    for name, parts, known in _scope(whole):
      args, original = world(name, known)
      try:
        interp = me.Interp(fn)
        res = ("value", interp.call(args))
      except me.Outside as e:
        raise AnalysisError(f"{tag}: outside the evaluated fragment: {e}") from e
      except me.Raised as e:
        res = ("raise", e.name)
      except me.Diverged:
        res = ("diverges", None)
      longest = max(known, key=len) if known else None
      case = {"name": name, "known_prefixes": list(known)}
      if res[0] == "diverges":
        bad_match = bad_match or {**case, "got": "does not terminate"}
        continue
      strings = me.strings_in(res[1]) if res[0] == "value" else []
      tokens = [t for t in (_tok(p) for p in known) if any(t in s for s in strings)]
      if longest is not None:
        n_match += 1
        want_rest = parts[len(longest.split(".")):]
        tok = _tok(longest)
        ok = (res[0] == "value" and tokens == [tok]
              and sum(s.count(tok) for s in strings) == 1
              and all(s.startswith(tok) for s in strings if tok in s)
              and _components(strings, tok) == want_rest)
        if not ok and bad_match is None:
          bad_match = {**case, "longest": longest,
                       "want": f"<entry of {longest}> + {'.'.join(want_rest)!r}",
                       "got": _show(res[1]) if res[0] == "value" else f"raises {res[1]}"}
      else:
        n_miss += 1
        ok = res[0] == "raise" or (
            not tokens and (res[1] is original or
                            _components(strings, None) == parts))
        if not ok and bad_miss is None:
          bad_miss = {**case, "want": "the name unchanged (or an exception)",
                      "got": _show(res[1]) if res[0] == "value" else f"raises {res[1]}"}
    if n_match == 0 or n_miss == 0:
      raise AnalysisError(f"{tag}: empty scope")
    ctx.check(bad_match is None, f"prefix-rewrite:{tag}:longest-prefix-plus-whole-remainder",
              rel, fn.lineno,
              f"for the name {bad_match and bad_match['name']!r} with known prefixes "
              f"{bad_match and bad_match['known_prefixes']} the function gives "
              f"{bad_match and bad_match['got']}; wanted {bad_match and bad_match.get('want')}: "
              "a component of the dotted name is dropped, duplicated, reordered or "
              "resolved against the wrong prefix, so the reference no longer names "
              "the same object after the hand-off",
              bad_match or {"cases_with_a_known_prefix": n_match})
    ctx.check(bad_miss is None, f"prefix-rewrite:{tag}:no-match-keeps-the-name",
              rel, fn.lineno,
              f"for the name {bad_miss and bad_miss['name']!r} with no known prefix the "
              f"function gives {bad_miss and bad_miss['got']}",
              bad_miss or {"cases_without_a_known_prefix": n_miss})


_LATE = ("    prefix, suffix = node.name.rsplit(\".\", 1)\n"
         "    while prefix:\n"
         "      if prefix in self._module_aliases:\n"
         "        return node.Replace(name=self._module_aliases[prefix] + \".\" + suffix)\n"
         "      prefix, _, remainder = prefix.rpartition(\".\")\n"
         "      suffix = f\"{remainder}.{suffix}\"\n"
         "    return node\n")

VARIANTS = [
    {"name": "seeded-C06-r2m2", "rule": "R6.20", "patch": "seeded/C06-r2m2/patch.diff",
     "expect": "fire"},
    {"name": "late-alias-suffix-not-accumulated", "rule": "R6.20", "file": SERIALIZE,
     "expect": "fire",
     "old": "      suffix = f\"{remainder}.{suffix}\"\n", "new": "      suffix = remainder\n"},
    {"name": "late-alias-shortest-prefix-wins", "rule": "R6.20", "file": SERIALIZE,
     "expect": "fire", "old": _LATE,
     "new": "    head, _, rest = node.name.partition(\".\")\n"
            "    while rest:\n"
            "      if head in self._module_aliases:\n"
            "        return node.Replace(name=self._module_aliases[head] + \".\" + rest)\n"
            "      nxt, _, rest = rest.partition(\".\")\n"
            "      head = f\"{head}.{nxt}\"\n"
            "    return node\n"},
    {"name": "resolve-alias-remainder-sliced-by-component-count", "rule": "R6.20",
     "file": LOAD, "expect": "fire",
     "old": "        return value.module_name + name[len(cur_name) :]",
     "new": "        return value.module_name + name[cur_name.count(\".\") + 1 :]"},
    {"name": "module-recursive-class-prefix-reversed", "rule": "R6.20", "file": VISITORS,
     "expect": "fire",
     "old": "      cls_prefix = class_name + \".\" + cls_prefix",
     "new": "      cls_prefix = cls_prefix + class_name + \".\""},
    {"name": "twin-late-alias-index-loop-whole-suffix", "rule": "R6.20", "file": SERIALIZE,
     "expect": "silent", "old": _LATE,
     "new": "    parts = node.name.split(\".\")\n"
            "    for i in range(len(parts) - 1, 0, -1):\n"
            "      module = self._module_aliases.get(\".\".join(parts[:i]))\n"
            "      if module:\n"
            "        return node.Replace(name=\".\".join([module] + parts[i:]))\n"
            "    return node\n"},
    {"name": "twin-late-alias-slices-the-original-name", "rule": "R6.20", "file": SERIALIZE,
     "expect": "silent", "old": _LATE,
     "new": "    prefix = node.name\n"
            "    while \".\" in prefix:\n"
            "      prefix = prefix[: prefix.rindex(\".\")]\n"
            "      target = self._module_aliases.get(prefix)\n"
            "      if target is not None:\n"
            "        return node.Replace(name=target + node.name[len(prefix) :])\n"
            "    return node\n"},
    {"name": "twin-resolve-alias-remainder-via-removeprefix", "rule": "R6.20", "file": LOAD,
     "expect": "silent",
     "old": "        return value.module_name + name[len(cur_name) :]",
     "new": "        return f\"{value.module_name}{name.removeprefix(cur_name)}\""},
]
