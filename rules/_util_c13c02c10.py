"""Helpers shared by rules/c13*.py, rules/c02*.py and rules/c10*.py.

* `local_mro(mod, cls)` / `resolve_method(mod, cls, name)`: a method is looked
  up along the C3 linearisation of the classes defined in the same module (a
  method moved into a module-local mixin is still found where the receiver
  class finds it at run time).  A base that is not defined in the module stops
  the search with an AnalysisError unless the method was found before it.
* `inline_calls(mod, fn, ...)`: statement-level inlining of calls to helpers
  the function was split into (`self.helper(..)` resolved through the local
  MRO of the receiver class, `helper(..)` resolved to a module-level function).
  The result is a synthetic FunctionDef (deep copies; the originals are not
  touched) whose control flow is that of the original function with the
  helper bodies in place of the calls, so that path conditions, reaching
  definitions and dominance are computed across the split.  Only shapes whose
  inlining is exact are inlined:
    - `helper(..)` as an expression statement: the helper returns nothing
      (bare `return` guard clauses are rewritten into if/else nesting);
    - `x = helper(..)` / `a, b = helper(..)` / `return helper(..)`: the helper
      has exactly one `return <value>`, as its last statement;
    - parameters are bound by position or keyword, defaults must be constants;
      a parameter that the helper never rebinds and whose argument is a plain
      name not bound inside the helper is substituted, every other parameter
      becomes a fresh local assigned before the body; the helper's own locals
      are renamed to fresh names, so nothing of the caller is captured;
    - helpers with nested functions, lambdas capturing renamed names,
      generators, global/nonlocal, *args/**kwargs are not inlined.
  What is not inlined is reported in `.skipped` (the rule decides whether that
  is an AnalysisError).
* `ModView`: a PyModule look-alike whose `.parent` also covers the synthetic
  function.
"""
from __future__ import annotations

import ast
import builtins
import copy
import itertools

from sa.core import AnalysisError
from sa.pyindex import dotted

_FUNCS = (ast.FunctionDef, ast.AsyncFunctionDef)


# -- local MRO ---------------------------------------------------------------------

def _c3(rows):
  rows = [list(r) for r in rows if r]
  out = []
  while rows:
    for r in rows:
      head = r[0]
      if not any(head in o[1:] for o in rows):
        break
    else:
      return None
    out.append(head)
    rows = [[x for x in r if x != head] for r in rows]
    rows = [r for r in rows if r]
  return out


def local_mro(mod, cname, _stack=()):
  """Linearisation of `cname` over the classes of `mod`.  Bases that are not
  classes of the module appear as '?<dotted>' leaves."""
  if cname in _stack:
    raise AnalysisError(f"{mod.rel}: class {cname} inherits from itself")
  cls = mod.cls(cname)
  rows, direct = [], []
  for b in cls.bases:
    d = dotted(b)
    if d is not None and d in mod.classes and "." not in d:
      direct.append(d)
      rows.append(local_mro(mod, d, _stack + (cname,)))
    else:
      leaf = "?" + (d or ast.unparse(b))
      direct.append(leaf)
      rows.append([leaf])
  lin = _c3([[cname]] + rows + [direct])
  if lin is None:
    raise AnalysisError(f"{mod.rel}: no consistent local MRO for {cname}")
  return lin


def resolve_method(mod, cname, name):
  """-> (owner class name, FunctionDef) of `cname.name` along the local MRO."""
  for c in local_mro(mod, cname):
    if c.startswith("?"):
      if c[1:] in ("object", "Generic", "Protocol", "abc.ABC"):
        continue
      raise AnalysisError(
          f"anchor {cname}.{name} not found in {mod.rel} (not defined before the "
          f"non-local base {c[1:]} in the local MRO)")
    m = mod.methods(c).get(name)
    if m is not None:
      return c, m
  raise AnalysisError(f"anchor {cname}.{name} not found in {mod.rel}")


def has_method(mod, cname, name):
  try:
    resolve_method(mod, cname, name)
    return True
  except AnalysisError:
    return False


def local_subclasses(mod, root):
  """Classes of mod deriving (through module-local or dotted bases whose last
  component names the class) from `root`, root excluded."""
  out = []

  def derives(c, seen=()):
    if c in seen or c not in mod.classes:
      return False
    for b in mod.classes[c].bases:
      bn = (dotted(b) or "").split(".")[-1]
      if bn == root or derives(bn, seen + (c,)):
        return True
    return False
  for c in mod.classes:
    if c != root and derives(c):
      out.append(c)
  return out


# -- module view ---------------------------------------------------------------------

class ModView:
  """A PyModule with extra parent links (for synthetic nodes)."""

  def __init__(self, mod, extra_parent):
    self._mod = mod
    self.parent = dict(mod.parent)
    self.parent.update(extra_parent)

  def __getattr__(self, name):
    return getattr(self._mod, name)

  def enclosing_stmt(self, node):
    while node is not None and not isinstance(node, ast.stmt):
      node = self.parent.get(node)
    return node

  def enclosing_function(self, node):
    while node in self.parent:
      node = self.parent[node]
      if isinstance(node, _FUNCS + (ast.Lambda,)):
        return node
    return None


# -- inlining --------------------------------------------------------------------------

def _bound_names(node):
  """Every name bound anywhere under node (stores, comprehension targets,
  lambda / def parameters, except-handler names, imports)."""
  out = set()
  for n in ast.walk(node):
    if isinstance(n, ast.Name) and isinstance(n.ctx, (ast.Store, ast.Del)):
      out.add(n.id)
    elif isinstance(n, ast.arg):
      out.add(n.arg)
    elif isinstance(n, ast.ExceptHandler) and n.name:
      out.add(n.name)
    elif isinstance(n, (ast.Import, ast.ImportFrom)):
      for a in n.names:
        out.add((a.asname or a.name).split(".")[0])
    elif isinstance(n, _FUNCS + (ast.ClassDef,)):
      out.add(n.name)
  return out


def _all_names(node):
  out = set()
  for n in ast.walk(node):
    if isinstance(n, ast.Name):
      out.add(n.id)
    elif isinstance(n, ast.arg):
      out.add(n.arg)
    elif isinstance(n, ast.ExceptHandler) and n.name:
      out.add(n.name)
  return out


def _strip_doc(body):
  return [s for s in body if not (isinstance(s, ast.Expr)
                                  and isinstance(s.value, ast.Constant)
                                  and isinstance(s.value.value, str))]


class _NotInlinable(Exception):
  pass


def _eliminate_bare_returns(block):
  """Rewrites guard clauses `if c: ...; return` + rest into if/else nesting.
  -> (new block, always_returns).  Only `return` / `return None` directly in
  if-nesting is handled; a return inside a loop / try / with is not."""
  out = []
  for i, st in enumerate(block):
    if isinstance(st, ast.Return):
      if st.value is not None and not (isinstance(st.value, ast.Constant)
                                       and st.value.value is None):
        raise _NotInlinable("returns a value")
      return out, True
    if isinstance(st, ast.If):
      body, rb = _eliminate_bare_returns(st.body)
      orelse, ro = _eliminate_bare_returns(st.orelse)
      rest = block[i + 1:]
      if rb and ro:
        new = ast.If(test=st.test, body=body or [ast.Pass()], orelse=orelse)
        out.append(ast.copy_location(new, st))
        return out, True
      if rb or ro:
        tail, rt = _eliminate_bare_returns(rest)
        if rb:
          new = ast.If(test=st.test, body=body or [ast.Pass()],
                       orelse=orelse + tail)
        else:
          new = ast.If(test=st.test, body=body + tail or [ast.Pass()],
                       orelse=orelse or [])
          if not new.body:
            new.body = [ast.Pass()]
        out.append(ast.copy_location(new, st))
        return out, rt
      new = ast.If(test=st.test, body=body or [ast.Pass()], orelse=orelse)
      out.append(ast.copy_location(new, st))
      continue
    if any(isinstance(n, ast.Return) for n in _walk_same_fn(st)):
      raise _NotInlinable("return inside a loop / try / with block")
    out.append(st)
  return out, False


def _walk_same_fn(node):
  todo = [node]
  while todo:
    n = todo.pop()
    yield n
    if isinstance(n, _FUNCS + (ast.Lambda, ast.ClassDef)) and n is not node:
      continue
    todo.extend(ast.iter_child_nodes(n))


class Inlined:
  def __init__(self, fn, view, inlined, skipped):
    self.fn = fn            # synthetic FunctionDef (or the original)
    self.mod = view         # ModView (or the original module)
    self.inlined = inlined  # helper names whose bodies were inlined
    self.skipped = skipped  # [(helper name, why)] calls left in place


def inline_calls(mod, fn, receiver=None, depth=3, self_helpers=True,
                 module_helpers=True, only=None):
  """See the module docstring.  `receiver`: class whose local MRO resolves
  `self.helper(..)`; `only(name)`: optional filter on helper names."""
  self_name = None
  if receiver is not None and self_helpers:
    params = fn.args.posonlyargs + fn.args.args
    if params:
      self_name = params[0].arg
  state = {
      "taken": _all_names(fn) | set(mod.functions) | set(mod.classes)
               | set(mod.assigns) | set(mod.imports),
      "inlined": [], "skipped": [], "changed": False,
      "caller_bound": _bound_names(fn),
  }
  state["taken"] |= set(dir(builtins))

  def resolve(call):
    f = call.func
    if self_name is not None and isinstance(f, ast.Attribute) and \
        isinstance(f.value, ast.Name) and f.value.id == self_name:
      try:
        owner, h = resolve_method(mod, receiver, f.attr)
      except AnalysisError:
        return None
      if any(dotted(d) in ("staticmethod", "classmethod", "property")
             or (dotted(d) or "").split(".")[-1] in ("contextmanager",)
             for d in h.decorator_list):
        return None
      return ("self", f.attr, h)
    if module_helpers and isinstance(f, ast.Name) and f.id in mod.functions:
      return ("mod", f.id, mod.functions[f.id])
    return None

  def fresh(base, tag):
    cand = base
    if cand in state["taken"]:
      cand = f"{base}__{tag.strip('_')}"
    k = 2
    while cand in state["taken"]:
      cand = f"{base}__{tag.strip('_')}{k}"
      k += 1
    state["taken"].add(cand)
    return cand

  def expand(call, kind, name, helper, want_value, stack, at):
    """-> (stmts, value_expr or None)"""
    if helper in stack or len(stack) >= depth:
      raise _NotInlinable("recursion / depth")
    a = helper.args
    if a.vararg or a.kwarg:
      raise _NotInlinable("*args / **kwargs parameters")
    if helper.decorator_list and kind == "mod":
      raise _NotInlinable("decorated helper")
    for n in _walk_same_fn(helper):
      if isinstance(n, (ast.Yield, ast.YieldFrom, ast.Await, ast.Global,
                        ast.Nonlocal)) or \
          (isinstance(n, _FUNCS + (ast.ClassDef, ast.Lambda)) and n is not helper):
        raise _NotInlinable(f"contains {type(n).__name__}")
    if any(isinstance(x, ast.Starred) for x in call.args) or \
        any(k.arg is None for k in call.keywords):
      raise _NotInlinable("*/** arguments")
    params = a.posonlyargs + a.args
    if kind == "self":
      params = params[1:]
      hself = (a.posonlyargs + a.args)[0].arg
    else:
      hself = None
    if len(call.args) > len(params):
      raise _NotInlinable("too many positional arguments")
    actual = {}
    for p, x in zip(params, call.args):
      actual[p.arg] = x
    names = [p.arg for p in params] + [p.arg for p in a.kwonlyargs]
    for k in call.keywords:
      if k.arg not in names or k.arg in actual:
        raise _NotInlinable(f"keyword {k.arg}")
      actual[k.arg] = k.value
    defaults = dict(zip([p.arg for p in params][len(params) - len(a.defaults):]
                        if a.defaults else [], a.defaults))
    if kind == "self" and len(a.defaults) > len(params):
      raise _NotInlinable("default for self")
    for p, d in zip(a.kwonlyargs, a.kw_defaults):
      if d is not None:
        defaults[p.arg] = d
    for n in names:
      if n not in actual:
        d = defaults.get(n)
        if d is None or not isinstance(d, ast.Constant):
          raise _NotInlinable(f"parameter {n} has no argument / constant default")
        actual[n] = d
    body = _strip_doc(copy.deepcopy(helper.body))
    value = None
    if want_value:
      if not body or not isinstance(body[-1], ast.Return) or \
          body[-1].value is None:
        raise _NotInlinable("does not end in `return <value>`")
      if any(isinstance(n, ast.Return) for st in body[:-1]
             for n in _walk_same_fn(st)):
        raise _NotInlinable("several returns")
      value = body[-1].value
      body = body[:-1]
    else:
      body, _ = _eliminate_bare_returns(body)
    holder = ast.Module(body=body + ([ast.Expr(value=value)] if value is not None
                                     else []), type_ignores=[])
    bound = _bound_names(holder)
    params_all = set(names) | ({hself} if hself else set())
    free = {n.id for n in ast.walk(holder) if isinstance(n, ast.Name)
            and isinstance(n.ctx, ast.Load)} - bound - params_all
    captured = free & state["caller_bound"]
    if captured:
      raise _NotInlinable(f"free names {sorted(captured)} are locals of the caller")
    rename = {}
    pre = []
    for n in names:
      x = actual[n]
      if isinstance(x, ast.Name) and n not in bound:
        # never rebound by the helper: the parameter IS the caller's variable
        # (the helper's own locals are renamed away from it below)
        rename[n] = x.id
        continue
      f = fresh(n, name)
      rename[n] = f
      asg = ast.Assign(targets=[ast.Name(id=f, ctx=ast.Store())],
                       value=copy.deepcopy(x))
      pre.append(ast.copy_location(asg, at))
    if hself is not None:
      if hself in bound:
        raise _NotInlinable("rebinds self")
      rename[hself] = self_name
    for n in sorted(bound):
      if n in rename:
        continue
      rename[n] = fresh(n, name)

    class R(ast.NodeTransformer):
      def visit_Name(self, node):
        if node.id in rename:
          node.id = rename[node.id]
        return node

      def visit_ExceptHandler(self, node):
        if node.name and node.name in rename:
          node.name = rename[node.name]
        self.generic_visit(node)
        return node
    holder = R().visit(holder)
    ast.fix_missing_locations(holder)
    stmts = holder.body
    if value is not None:
      value = stmts[-1].value
      stmts = stmts[:-1]
    stmts = pre + stmts
    state["inlined"].append(name)
    state["changed"] = True
    stmts = block(stmts, stack + (helper,))
    return stmts, value

  def try_stmt(st, stack):
    """-> replacement list or None"""
    call, mode = None, None
    if isinstance(st, ast.Expr) and isinstance(st.value, ast.Call):
      call, mode = st.value, "expr"
    elif isinstance(st, ast.Assign) and isinstance(st.value, ast.Call) and \
        len(st.targets) == 1:
      call, mode = st.value, "assign"
    elif isinstance(st, ast.AnnAssign) and isinstance(st.value, ast.Call) and \
        isinstance(st.target, ast.Name):
      call, mode = st.value, "assign"
    elif isinstance(st, ast.Return) and isinstance(st.value, ast.Call):
      call, mode = st.value, "return"
    if call is None:
      return None
    r = resolve(call)
    if r is None:
      return None
    kind, name, helper = r
    if only is not None and not only(name):
      return None
    try:
      stmts, value = expand(call, kind, name, helper, mode != "expr", stack, st)
    except _NotInlinable as e:
      state["skipped"].append((name, str(e)))
      return None
    if mode == "expr":
      return stmts or [ast.copy_location(ast.Pass(), st)]
    if mode == "return":
      new = ast.copy_location(ast.Return(value=value), st)
      return stmts + [new]
    tgt = st.targets[0] if isinstance(st, ast.Assign) else st.target
    if isinstance(tgt, ast.Tuple) and isinstance(value, ast.Tuple) and \
        len(tgt.elts) == len(value.elts) and \
        all(isinstance(t, ast.Name) for t in tgt.elts) and \
        not any(isinstance(v, ast.Starred) for v in value.elts):
      tnames = {t.id for t in tgt.elts}
      if not (tnames & _all_names(value)) and len(tnames) == len(tgt.elts):
        out = list(stmts)
        for t, v in zip(tgt.elts, value.elts):
          if isinstance(v, ast.Name) and v.id == t.id:
            continue
          out.append(ast.copy_location(
              ast.Assign(targets=[copy.deepcopy(t)], value=v), st))
        return out
    if isinstance(tgt, ast.Name) and isinstance(value, ast.Name) and \
        value.id == tgt.id:
      return stmts or [ast.copy_location(ast.Pass(), st)]
    new = ast.copy_location(ast.Assign(targets=[copy.deepcopy(tgt)], value=value), st)
    return stmts + [new]

  def block(stmts, stack):
    out = []
    for st in stmts:
      rep = try_stmt(st, stack)
      if rep is not None:
        out.extend(rep)
        continue
      for field in ("body", "orelse", "finalbody"):
        sub = getattr(st, field, None)
        if isinstance(sub, list) and sub and isinstance(sub[0], ast.stmt) and \
            not isinstance(st, _FUNCS + (ast.ClassDef,)):
          setattr(st, field, block(sub, stack))
      if isinstance(st, ast.Try):
        for h in st.handlers:
          h.body = block(h.body, stack)
      if isinstance(st, ast.Match):
        for c in st.cases:
          c.body = block(c.body, stack)
      out.append(st)
    return out

  new = copy.deepcopy(fn)
  new.body = block(new.body, (fn,))
  if not state["changed"]:
    return Inlined(fn, mod, [], state["skipped"])
  ast.fix_missing_locations(new)
  extra = {}
  for n in ast.walk(new):
    for c in ast.iter_child_nodes(n):
      extra[c] = n
  extra[new] = mod.parent.get(fn)
  return Inlined(new, ModView(mod, extra), state["inlined"], state["skipped"])


# -- propositional path conditions ------------------------------------------------------

def bool_formula(e):
  """ast -> ('atom', text) | ('not', f) | ('and'|'or', [f..]) | ('const', b)."""
  if isinstance(e, ast.UnaryOp) and isinstance(e.op, ast.Not):
    return ("not", bool_formula(e.operand))
  if isinstance(e, ast.BoolOp):
    return ("and" if isinstance(e.op, ast.And) else "or",
            [bool_formula(v) for v in e.values])
  if isinstance(e, ast.Constant) and isinstance(e.value, bool):
    return ("const", e.value)
  if isinstance(e, ast.Compare) and len(e.ops) == 1 and \
      isinstance(e.ops[0], (ast.IsNot, ast.NotEq, ast.NotIn)):
    pos = {ast.IsNot: ast.Is, ast.NotEq: ast.Eq, ast.NotIn: ast.In}[type(e.ops[0])]
    return ("not", ("atom", ast.unparse(ast.Compare(left=e.left, ops=[pos()],
                                            comparators=e.comparators))))
  return ("atom", ast.unparse(e))


def formula_atoms(f, out):
  if f[0] == "atom":
    out.add(f[1])
  elif f[0] == "not":
    formula_atoms(f[1], out)
  elif f[0] in ("and", "or"):
    for g in f[1]:
      formula_atoms(g, out)
  return out


def formula_eval(f, env):
  k = f[0]
  if k == "atom":
    return env[f[1]]
  if k == "const":
    return f[1]
  if k == "not":
    return not formula_eval(f[1], env)
  vals = (formula_eval(g, env) for g in f[1])
  return all(vals) if k == "and" else any(vals)


def implies_literal(f, atom, value):
  """Does every model of f give `atom` the truth value `value`?  (False when f
  does not mention atom; None when f is unsatisfiable.)"""
  atoms = sorted(formula_atoms(f, set()) | {atom})
  if len(atoms) > 10:
    raise AnalysisError("path condition with more than 10 atoms")
  models = 0
  for vals in itertools.product([False, True], repeat=len(atoms)):
    env = dict(zip(atoms, vals))
    if formula_eval(f, env):
      models += 1
      if env[atom] != value:
        return False
  return True if models else None


def formula_text(f):
  k = f[0]
  if k == "atom":
    return f[1]
  if k == "const":
    return str(f[1])
  if k == "not":
    return f"not ({formula_text(f[1])})"
  return "(" + f" {k} ".join(formula_text(g) for g in f[1]) + ")"


# -- paths through a loop body --------------------------------------------------------------

def body_paths(block, is_event=None, what="loop body"):
  """Enumerates the ways through a block of statements (a loop body).
  -> [(conds, events, how)]: the propositional path condition (list of
  formulas), the statements for which is_event(stmt) held that the path
  executes, and how it ends: 'break' / 'continue' / 'return' / 'raise' /
  'end'.  Inner loops and try / match blocks are opaque steps (an
  AnalysisError if they contain an event or can leave the outer iteration)."""
  is_event = is_event or (lambda st: False)

  def has_event(node):
    return any(isinstance(n, ast.stmt) and is_event(n) for n in ast.walk(node))

  def loop_leaves(st):
    todo, out = list(ast.iter_child_nodes(st)), []
    while todo:
      n = todo.pop()
      if isinstance(n, (ast.Break, ast.Continue)):
        out.append(n)
      if isinstance(n, (ast.For, ast.AsyncFor, ast.While) + _FUNCS + (ast.Lambda, ast.ClassDef)):
        continue
      todo.extend(ast.iter_child_nodes(n))
    return out

  def run(stmts, state):
    finished, open_ = [], [state]
    for st in stmts:
      if not open_:
        break
      if isinstance(st, ast.If):
        f = bool_formula(st.test)
        nxt = []
        for c, ev in open_:
          fb, ob = run(st.body, (c + [f], ev))
          fe, oe = run(st.orelse, (c + [("not", f)], ev))
          finished += fb + fe
          nxt += ob + oe
        open_ = nxt
      elif isinstance(st, (ast.Break, ast.Continue, ast.Return, ast.Raise)):
        how = type(st).__name__.lower()
        finished += [(c, ev, how) for c, ev in open_]
        open_ = []
      elif isinstance(st, (ast.With, ast.AsyncWith)):
        nxt = []
        for c, ev in open_:
          fb, ob = run(st.body, (c, ev))
          finished += fb
          nxt += ob
        open_ = nxt
      elif isinstance(st, (ast.For, ast.AsyncFor, ast.While, ast.Try, ast.Match)):
        if has_event(st):
          raise AnalysisError(f"{what}: the tracked statement sits inside a nested "
                              f"{type(st).__name__} block: not understood")
        if any(isinstance(n, ast.Return) for n in _walk_same_fn(st)) or (
            isinstance(st, (ast.Try, ast.Match)) and loop_leaves(st)):
          raise AnalysisError(f"{what}: control leaves a nested "
                              f"{type(st).__name__} block: not understood")
      else:
        if is_event(st):
          open_ = [(c, ev + [st]) for c, ev in open_]
    return finished, open_
  finished, open_ = run(block, ([], []))
  return finished + [(c, ev, "end") for c, ev in open_]


# -- ordered paths through a statement list ---------------------------------------------------

def linear_paths(body, fork=None, limit=2000, what="function body"):
  """Every way through a statement list, each as an ORDERED list of steps
  (unlike body_paths, assignments and tests keep their relative order, so a
  caller can interpret a path abstractly):
    ('stmt', node)         a simple statement, or a compound statement taken as
                           one opaque step (for / while / try / match, nested
                           def / class, an `if` for which fork(node) is false)
    ('with', node)         the header of a with-statement whose body follows
    ('test', expr, taken)  an if-test and its outcome on this path
    ('exit', kind, node)   always the last step; kind is 'return' / 'raise' /
                           'break' / 'continue' / 'end' (node None for 'end')
  More than `limit` paths is an AnalysisError."""
  def run(stmts, open_):
    done = []
    for st in stmts:
      if not open_:
        break
      if isinstance(st, ast.If) and (fork is None or fork(st)):
        nxt = []
        for p in open_:
          d1, o1 = run(st.body, [p + [("test", st.test, True)]])
          d2, o2 = run(st.orelse, [p + [("test", st.test, False)]])
          done += d1 + d2
          nxt += o1 + o2
        open_ = nxt
      elif isinstance(st, (ast.With, ast.AsyncWith)):
        d1, open_ = run(st.body, [p + [("with", st)] for p in open_])
        done += d1
      elif isinstance(st, (ast.Return, ast.Raise, ast.Break, ast.Continue)):
        kind = type(st).__name__.lower()
        done += [p + [("exit", kind, st)] for p in open_]
        open_ = []
      else:
        open_ = [p + [("stmt", st)] for p in open_]
      if len(done) + len(open_) > limit:
        raise AnalysisError(f"{what}: more than {limit} paths")
    return done, open_
  done, open_ = run(body, [[]])
  return done + [p + [("exit", "end", None)] for p in open_]
